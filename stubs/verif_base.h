// Base definitions for every sliced C++ TU (compiled with goto-cc -nostdinc -I stubs).
// Nothing here restates library code: it only maps the assertion/exception macros
// onto verifier primitives (DESIGN.md section 2.5).
#ifndef VERIF_BASE_H
#define VERIF_BASE_H
typedef unsigned long size_t;
typedef long ptrdiff_t;
#ifdef VERIF_CBMC
#define COLA_ASSERT(e) __CPROVER_assert((e), "COLA_ASSERT " #e)
#define VERIF_STUB_ASSERT(e, msg) __CPROVER_assert((e), msg)
#else
// native compile of the prelude (layout cross-check only)
#define COLA_ASSERT(e) ((void)0)
#define VERIF_STUB_ASSERT(e, msg) ((void)0)
#endif
#define COLA_UNUSED(x) ((void)(x))
#define AVOID_EXPORT
// exception model: set a monotone ghost flag and return (every postcondition is guarded by !verif_thrown)
extern "C" { extern int verif_thrown; }
#endif
