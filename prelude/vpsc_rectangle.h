// Prelude: vpsc::Rectangle data members in the real order (cross-checked against cola/libvpsc/rectangle.h
// by tools/layout.py).  The RECT_INLINES marker is replaced by the verbatim text of the in-class inline members a job
// needs, cut from the real header (or by one-line shims where a job replaces them by contracts).
namespace vpsc {
class Rectangle {
public:
@RECT_INLINES@
    static double xBorder,yBorder;
    double minX,maxX,minY,maxY;
    bool overlap;
};
struct Rectangles : std::vector<Rectangle*> {};   // real: typedef std::vector<Rectangle*> Rectangles;
}
