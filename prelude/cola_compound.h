// Prelude for libcola/compound_constraints: data members in the real order (cross-checked against the real header, and
// against compound_constraints.cpp itself for the file-local info classes, by tools/layout.py).  The classes have virtual
// functions in the real code; `_verif_vptr` stands for the vtable pointer.  Markers are replaced by member declarations
// of the fragments under contract.
namespace cola {
class VariableIDMap;
class SubConstraintInfo {
    public:
        void *_verif_vptr;
        unsigned varIndex;
        bool satisfied;
};
struct SubConstraintInfoList : std::vector<SubConstraintInfo *> {};   // real: typedef std::vector<SubConstraintInfo *> SubConstraintInfoList;
class CompoundConstraint {
    public:
        void *_verif_vptr;
        void assertValidVariableIndex(const vpsc::Variables& vars, const unsigned index);
        vpsc::Dim _primaryDim;
        vpsc::Dim _secondaryDim;
        unsigned int _priority;
        bool _combineSubConstraints;
        SubConstraintInfoList _subConstraintInfo;
        size_t _currSubConstraintIndex;
};
class BoundaryConstraint : public CompoundConstraint {
    public:
        void generateSeparationConstraints(const vpsc::Dim dim, vpsc::Variables& vars, vpsc::Constraints& cs, vpsc::Rectangles& bbs);
        double position;
        vpsc::Variable* variable;
@MEMBERS:Boundary@
};
class AlignmentConstraint : public CompoundConstraint {
    public:
        void generateSeparationConstraints(const vpsc::Dim dim, vpsc::Variables& vars, vpsc::Constraints& cs, vpsc::Rectangles& bbs);
        void *indicator;
        vpsc::Variable* variable;
        double _position;
        bool _isFixed;
@MEMBERS:Alignment@
};
class SeparationConstraint : public CompoundConstraint {
    public:
        void generateSeparationConstraints(const vpsc::Dim dim, vpsc::Variables& vs, vpsc::Constraints& cs, vpsc::Rectangles& bbs);
        double gap;
        bool equality;
        vpsc::Constraint *vpscConstraint;
};
class MultiSeparationConstraint : public CompoundConstraint {
    public:
        void generateSeparationConstraints(const vpsc::Dim dim, vpsc::Variables& vs, vpsc::Constraints& gcs, vpsc::Rectangles& bbs);
        vpsc::Constraints cs;
        void *indicator;
        double sep;
        bool equality;
@MEMBERS:MultiSeparation@
};
class DistributionConstraint : public CompoundConstraint {
    public:
        void generateSeparationConstraints(const vpsc::Dim dim, vpsc::Variables& vars, vpsc::Constraints& gcs, vpsc::Rectangles& bbs);
        vpsc::Constraints cs;
        void *indicator;
        double sep;
@MEMBERS:Distribution@
};
class FixedRelativeConstraint : public CompoundConstraint {
    public:
        void generateSeparationConstraints(const vpsc::Dim dim, vpsc::Variables& vars, vpsc::Constraints& ccs, vpsc::Rectangles& bbs);
        bool m_fixed_position;
        std::vector<unsigned> m_shape_vars;
@MEMBERS:FixedRelative@
};
// file-local classes of compound_constraints.cpp
class Offset : public SubConstraintInfo {
    public:
        double distOffset;
};
class VarIndexPair : public SubConstraintInfo {
    public:
@MEMBERS:VarIndexPair@
        AlignmentConstraint *lConstraint;
        AlignmentConstraint *rConstraint;
        unsigned varIndex2;
};
class AlignmentPair : public SubConstraintInfo {
    public:
        AlignmentConstraint *alignment1;
        AlignmentConstraint *alignment2;
};
class RelativeOffset : public SubConstraintInfo {
    public:
        unsigned varIndex2;
        vpsc::Dim dim;
        double distOffset;
};
class UnsatisfiableConstraintInfo {
    public:
        UnsatisfiableConstraintInfo(const vpsc::Constraint* c);
        unsigned leftVarIndex;
        unsigned rightVarIndex;
        double separation;
        bool equality;
        cola::CompoundConstraint *cc;
};
struct UnsatisfiableConstraintInfos : std::vector<UnsatisfiableConstraintInfo *> {};   // real: typedef std::vector<UnsatisfiableConstraintInfo *> UnsatisfiableConstraintInfos;
}
