// Prelude: the scan-line Node of libvpsc/rectangle.cpp (file-local struct), data members in the real
// order (cross-checked against the real translation unit by tools/layout.py).  NodeSet is
// std::set<Node*,CmpNodePos>; only pointers to it are stored, so it stays opaque here.
namespace vpsc {
class Rectangle;
struct Node;
struct NodeSet;
struct Node {
    Variable *v;
    Rectangle *r;
    double pos;
    Node *firstAbove, *firstBelow;
    NodeSet *leftNeighbours, *rightNeighbours;
};
}
