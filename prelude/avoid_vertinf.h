// Prelude: Avoid::VertID / Avoid::VertInf data members in the real order (cross-checked against
// cola/libavoid/vertices.h by tools/layout.py).  std::list members are three opaque words.
namespace Avoid {
class Router; class EdgeInf; class ANode;
struct verif_list24 { void *_a; void *_b; size_t _n; };
typedef unsigned int ConnDirFlags;
class VertID {
    public:
        unsigned int objID;
        unsigned short vn;
        unsigned short props;
};
class VertInf {
    public:
        Router *_router;
        VertID id;
        Point  point;
        VertInf *lstPrev;
        VertInf *lstNext;
        VertInf *shPrev;
        VertInf *shNext;
        verif_list24 visList;
        unsigned int visListSize;
        verif_list24 orthogVisList;
        unsigned int orthogVisListSize;
        verif_list24 invisList;
        unsigned int invisListSize;
        VertInf *pathNext;
        VertInf *m_orthogonalPartner;
        VertInf **m_treeRoot;
        double sptfDist;
        ConnDirFlags visDirections;
        verif_list24 aStarDoneNodes;
        verif_list24 aStarPendingNodes;
        unsigned int orthogVisPropFlags;
};
}
