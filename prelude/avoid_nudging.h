// Prelude for libavoid/orthogonal.cpp's NudgingShiftSegment (a file-local class): data members in the real order
// (cross-checked against the real translation unit by tools/layout.py).  The classes have virtual functions in the
// real code; `_verif_vptr` stands for the vtable pointer.  The NUDGE_UPDATE marker is replaced by the verbatim text of
// NudgingShiftSegment::updatePositionsFromSolver (an in-class member) or a fragment of it.
namespace Avoid {
@ROUTER_ENUMS@
class Router {
    public:
        double routingParameter(const RoutingParameter parameter) const;
        bool routingOption(const RoutingOption option) const;
};
class ConnRef {
    public:
        Polygon& displayRoute(void);
        Router *router(void) const;
};
class Variable {
    public:
        int id;
        double desiredPosition;
        double finalPosition;
};
class ShiftSegment {
    public:
        void *_verif_vptr;
        size_t dimension;
        double minSpaceLimit;
        double maxSpaceLimit;
};
class NudgingShiftSegment : public ShiftSegment {
    public:
@NUDGE_UPDATE@
        ConnRef *connRef;
        Variable *variable;
        std::vector<size_t> indexes;
        bool fixed;
        bool finalSegment;
        bool endsInShape;
        bool singleConnectedSegment;
        std::vector<Point> checkpoints;
        bool sBend;
        bool zBend;
};
}
