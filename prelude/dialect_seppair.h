// Prelude: dialect::SepPair data members in the real order (cross-checked against
// cola/libdialect/constraints.h by tools/layout.py).  The four enum classes are sliced verbatim (marker below).
#include <cmath>
#include <algorithm>
namespace dialect {
typedef unsigned id_type;
@ENUMS@
@DIALECT_DEPS@
struct SepPair {
    id_type src;
    id_type tgt;
    GapType xgt;
    GapType ygt;
    SepType xst;
    SepType yst;
    double xgap;
    double ygap;
    unsigned tglfPrecision;
    bool flippedRetrieval;
    void addSep(GapType gt, SepDir sd, SepType st, double gap);
    void transform(SepTransform tf);
@SEPPAIR_EXTRA@
};
}
