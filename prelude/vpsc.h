// Prelude for libvpsc slices: declarations only, data members in the real order (cross-checked every
// run against the real headers by tools/layout.py).  @SLICE:...@ markers are replaced by the verbatim
// text of in-class inline member functions cut from the real headers.
// Classes with virtual functions get `_verif_vptr` in place of the vtable pointer (the CBMC C++ front
// end cannot take the real virtual declarations); reference and const members get a declared ctor.
#include <vector>
#include <cfloat>
#include <cmath>
#include <algorithm>
#include <sstream>
namespace vpsc {
class Block; class Blocks; class Constraint; class Variable;
struct Constraints : std::vector<Constraint*> {};   // real: typedef std::vector<Constraint*> Constraints;
struct Variables : std::vector<Variable*> {};       // real: typedef std::vector<Variable*> Variables;

struct PositionStats {
	double scale;
	double AB;
	double AD;
	double A2;
};

class Block
{
public:
	Variables *vars;
	double posn;
	PositionStats ps;
	bool deleted;
	long timeStamp;
	void *in;
	void *out;
	Blocks *blocks;
	Block* merge(Block *b, Constraint *c);
	bool isActiveDirectedPathBetween(Variable const* u, Variable const* v) const;
	Constraint* splitBetween(Variable* vl, Variable* vr, Block* &lb, Block* &rb);
@BLOCK_EXTRA@
};

class Variable
{
public:
	int id;
	double desiredPosition;
	double finalPosition;
	double weight;
	double scale;
	double offset;
	Block *block;
	bool visited;
	bool fixedDesiredPosition;
	Constraints in;
	Constraints out;
@SLICE:Variable::position@
@SLICE:Variable::unscaledPosition@
};

class Constraint
{
public:
	Constraint(Variable *left, Variable *right, double gap, bool equality = false);
@SLICE:Constraint::slack@
	Variable *left;
	Variable *right;
	double gap;
	double lm;
	long timeStamp;
	bool active;
	const bool equality;
	bool unsatisfiable;
	bool needsScaling;
	void *creator;
};

struct UnsatisfiableException {
	std::vector<Constraint*> path;
};
struct UnsatisfiedConstraint {
	UnsatisfiedConstraint(Constraint& c);
	Constraint& c;
};

class Blocks
{
public:
	void cleanup();
	double cost();
	size_t size() const;
	Blocks(std::vector<Variable*> const &vs);
	Block *at(size_t index) const;
	void insert(Block *block);
	long blockTimeCtr;
	std::vector<Block*> m_blocks;
	std::vector<Variable*> const &vs;
	size_t nvs;
};

@SOLVER_CLASSES@
}
