// libavoid's private copy of VPSC (libavoid/vpsc.h, namespace Avoid): a single, non-virtual IncSolver class
class IncSolver {
public:
	unsigned splitCnt;
	bool satisfy();
	bool solve();
	void moveBlocks();
	void splitBlocks();
	IncSolver(Variables const &vs, Constraints const &cs);
	void addConstraint(Constraint *constraint);
	Blocks *bs;
	size_t m;
	std::vector<Constraint*> const &cs;
	size_t n;
	std::vector<Variable*> const &vs;
	bool needsScaling;
	void copyResult();
	Constraints inactive;
	Constraints violated;
	Constraint* mostViolated(Constraints &l);
@SOLVER_EXTRA@
@INCSOLVER_EXTRA@
};
