// Prelude: Avoid::Polygon data members in the real order.  The real class has a vtable pointer first
// (PolygonInterface has virtual functions, which the CBMC C++ front end cannot take: "found no match
// for symbol '~Polygon'"); `_verif_vptr` keeps the offsets equal (cross-checked by tools/layout.py).
#include <vector>
#include <utility>
namespace Avoid {
class Polygon
{
    public:
        void *_verif_vptr;
        Polygon();
        Polygon(const Polygon& other);   // implicit in the real class
        size_t size(void) const;
        const Point& at(size_t index) const;
        int _id;
        std::vector<Point> ps;
        std::vector<char> ts;
        std::vector<std::pair<size_t, Point> > checkpointsOnRoute;
};
}
