// Prelude: declarations only, data members in the real order (cross-checked every run
// against cola/libavoid/geomtypes.h by tools/layout.py).
namespace Avoid {
class Point
{
    public:
        Point();
        Point(const double xv, const double yv);
        bool operator==(const Point& rhs) const;
        bool equals(const Point& rhs, double epsilon = 0.0001) const;
        bool operator!=(const Point& rhs) const;
        bool operator<(const Point& rhs) const;
        double& operator[](const size_t dimension);
        const double& operator[](const size_t dimension) const;
        Point operator+(const Point& rhs) const;
        Point operator-(const Point& rhs) const;
        double x;
        double y;
        unsigned int id;
        unsigned short vn;
};
typedef Point Vector;
}
