// libvpsc: Solver (virtual in the real code: `_verif_vptr` stands for the vtable pointer) and IncSolver : public Solver
class Solver {
public:
	void *_verif_vptr;
	Solver(Variables const &vs, Constraints const &cs);
	bool satisfy();
	bool solve();
	Blocks *bs;
	size_t m;
	std::vector<Constraint*> const &cs;
	size_t n;
	std::vector<Variable*> const &vs;
	bool needsScaling;
	void copyResult();
	void refine();
@SOLVER_EXTRA@
};

class IncSolver : public Solver {
public:
	IncSolver(Variables const &vs, Constraints const &cs);
	bool satisfy();
	bool solve();
	void addConstraint(Constraint *constraint);
	void moveBlocks();
	void splitBlocks();
	unsigned splitCnt;
	Constraints inactive;
	Constraints violated;
	Constraint* mostViolated(Constraints &l);
@INCSOLVER_EXTRA@
};
