"""C05 jobs: admissibility of the orthogonal bend estimate (DESIGN.md section 5, C05)."""
import os
from vf import *
import layout, minb
from common import loop_contract, loops_file

HERE = os.path.dirname(os.path.abspath(__file__))
MP = "libavoid/makepath.cpp"


def rd(name):
    return open(os.path.join(HERE, name)).read()


def spec_header():
    return open(os.path.join(VERIF, "contracts/include/verif_spec.h")).read()


def prelude(name):
    return open(os.path.join(VERIF, "prelude", name)).read()


def replay_bends(job, obl, inputs, workdir):
    """Native replay: #include the real makepath.cpp (bends' helpers are static), call the real
    bends() on the counterexample and compare with the oracle table."""
    try:
        objs, fresh, params = inputs["objects"], inputs["fresh"], inputs["params"]
        c, d = objs[fresh["curr"]], objs[fresh["dest"]]
        cd, dd = int_from(params["currDir"]), int_from(params["destDir"])
        vals = [cxx_double(c[".x"]), cxx_double(c[".y"]), cxx_double(d[".x"]), cxx_double(d[".y"])]
    except Exception as e:
        return False, "could not extract inputs from the trace: %r" % e
    src = '''#include "libavoid/makepath.cpp"
#include <cstdio>
%s
int main() {
  Avoid::Point c(%s, %s), d(%s, %s);
  unsigned cd = %du, dd = %du;
  int r = Avoid::bends(c, cd, d, dd);
  int sx = d.x > c.x ? 1 : (d.x < c.x ? -1 : 0), sy = d.y > c.y ? 1 : (d.y < c.y ? -1 : 0);
  int ix[9] = {0,0,1,0,2,0,0,0,3};
  int m = MINB[ix[dd]][ix[cd]][sy+1][sx+1];
  printf("bends(curr=(%%g,%%g) dir=%%u, dest=(%%g,%%g) dir=%%u) = %%d ; true minimum = %%d\\n", c.x, c.y, cd, d.x, d.y, dd, r, m);
  if (r < 0 || r > m) { printf("REPRODUCED: estimate exceeds the true minimum number of bends\\n"); return 1; }
  printf("not reproduced\\n"); return 0; }
''' % (minb.c_table(), vals[0], vals[1], vals[2], vals[3], cd, dd)
    lib = build_lib("libavoid", workdir, exclude=("makepath.cpp",))
    rc, out = native_run(src, workdir, "replay_bends", extra=["-I", COLA], libs=[lib])
    if rc is None:
        return False, out
    return rc == 1, out


replay_bends.per_trace = True


def replay_bendcount(job, obl, inputs, workdir):
    """Native replay of the bend count charged by the REAL estimatedCostSpecific (static in makepath.cpp, reached by including
    that translation unit) on the counterexample's points, with a real Router/ConnRef/VertInf; the charged count is recovered
    from the returned cost and compared with the oracle table."""
    try:
        objs, fresh, params = inputs["objects"], inputs["fresh"], inputs["params"]
        c, t = objs[fresh["curr"]], objs[fresh["tar"]]
        dirs = int_from(params["costTarDirs"])
        has_last = "last" in fresh and fresh["last"] in objs
        l = objs[fresh["last"]] if has_last else None
        P = lambda o: (cxx_double(o[".x"]), cxx_double(o[".y"]))
    except Exception as e:
        return False, "could not extract inputs from the trace: %r" % e
    src = '''#include "libavoid/libavoid.h"
#include "libavoid/makepath.cpp"
#include <cstdio>
#include <cmath>
%s
static int sgn(double a, double b) { return b > a ? 1 : (b < a ? -1 : 0); }
int main() {
  using namespace Avoid;
  Router router(OrthogonalRouting); router.setRoutingParameter(segmentPenalty, 64.0);
  ConnRef *conn = new ConnRef(&router);
  Point curr(%s, %s), tar(%s, %s); %s
  VertInf tv(&router, VertID(1, 1), tar, false);
  unsigned dirs = %du;
  double cost = estimatedCostSpecific(conn, %s, curr, &tv, dirs);
  double dist = manhattanDist(curr, tar);
  int charged = (int) std::lround((cost - dist) / 64.0);
  int ix[9] = {0,0,1,0,2,0,0,0,3};
  int bound;
  %s
  printf("estimatedCostSpecific: cost %%g = distance %%g + %%d bend(s) x 64; admissible bound %%d\\n", cost, dist, charged, bound);
  if (charged > bound) { printf("REPRODUCED: the estimate charges more bends than the true minimum\\n"); return 1; }
  printf("not reproduced\\n"); return 0; }
''' % (minb.c_table(), P(c)[0], P(c)[1], P(t)[0], P(t)[1],
       ("Point last(%s, %s);" % P(l)) if has_last else "",
       dirs, "&last" if has_last else "nullptr",
       ('''unsigned cd = 0; if (last.x == curr.x && curr.y < last.y) cd = 1; else if (last.y == curr.y && curr.x > last.x) cd = 2;
  else if (last.x == curr.x && curr.y > last.y) cd = 4; else if (last.y == curr.y && curr.x < last.x) cd = 8;
  if (dist == 0 || cd == 0) bound = 0; else { bound = 10; for (int k = 0; k < 4; ++k) if (dirs & (1u << k)) { int m = MINB[k][ix[cd]][sgn(curr.y, tar.y) + 1][sgn(curr.x, tar.x) + 1]; if (m < bound) bound = m; } }'''
        if has_last else "bound = (curr.x != tar.x && curr.y != tar.y) ? 1 : 0;"))
    lib = build_lib("libavoid", workdir, exclude=("makepath.cpp",))
    rc, out = native_run(src, workdir, "replay_bendcount", extra=["-I", COLA], libs=[lib])
    if rc is None:
        return False, out
    return rc == 1, out


replay_bendcount.per_trace = True
replay_bends_scene = replay_bendcount


REPLAY_ESTCOST = r'''
// Native replay for the estimatedCost obligation: the REAL AStarPathPrivate::estimatedCost (file-local class, reached by including
// makepath.cpp with its private members opened) on small sets of arrival candidates, against the minimum over the candidates of
// the REAL estimatedCostSpecific + displacement.
#define private public
#include "libavoid/libavoid.h"
#include "libavoid/makepath.cpp"
#undef private
#include <cstdio>
#include <cmath>
int main() {
  using namespace Avoid;
  Router router(OrthogonalRouting); router.setRoutingParameter(segmentPenalty, 50.0);
  ConnRef *conn = new ConnRef(&router);
  int bad = 0, runs = 0;
  unsigned seed = 12345u;
  for (int t = 0; t < 4000; ++t) {
    AStarPathPrivate a;
    int n = 1 + (seed >> 8) % 4; seed = seed * 1103515245u + 12345u;
    std::vector<VertInf *> vs;
    for (int i = 0; i < n; ++i) {
      double x = (double)((seed >> 8) % 9) * 10 - 40; seed = seed * 1103515245u + 12345u;
      double y = (double)((seed >> 8) % 9) * 10 - 40; seed = seed * 1103515245u + 12345u;
      unsigned dirs = 1 + (seed >> 8) % 15; seed = seed * 1103515245u + 12345u;
      double disp = (double)((seed >> 8) % 7) * 10; seed = seed * 1103515245u + 12345u;
      VertInf *v = new VertInf(&router, VertID(100 + i, 1), Point(x, y), false);
      vs.push_back(v);
      a.m_cost_targets.push_back(v); a.m_cost_targets_directions.push_back(dirs); a.m_cost_targets_displacements.push_back(disp);
    }
    Point curr((double)((seed >> 8) % 9) * 10 - 40, 0); seed = seed * 1103515245u + 12345u;
    Point last(curr.x, curr.y - 10);
    double got = a.estimatedCost(conn, &last, curr);
    double want = DBL_MAX;
    for (int i = 0; i < n; ++i) {
      double e = estimatedCostSpecific(conn, &last, curr, vs[i], a.m_cost_targets_directions[i]) + a.m_cost_targets_displacements[i];
      if (e < want) want = e;
    }
    runs++;
    if (got > want) {
      if (bad < 5) printf("estimatedCost with %d arrival candidate(s) at (%g,%g): %g, but the estimate through the cheapest candidate is %g\n", n, curr.x, curr.y, got, want);
      bad++;
    }
    for (int i = 0; i < n; ++i) delete vs[i];
  }
  if (bad) { printf("REPRODUCED: the heuristic exceeds the estimate through one of its arrival candidates in %d of %d cases\n", bad, runs); return 1; }
  printf("not reproduced: %d cases\n", runs); return 0;
}
'''


def replay_estcost(job, obl, inputs, workdir):
    lib = build_lib("libavoid", workdir, exclude=("makepath.cpp",))
    rc, out = native_run(REPLAY_ESTCOST, workdir, "replay_estcost", extra=["-I", COLA], libs=[lib], timeout=300)
    if rc is None:
        return False, out
    return rc == 1, out


REPLAY_FIXVIS = r'''
// Native replay for the outer-edge visibility obligation: a free-floating connector end that may only leave OUTWARDS and sits on the trailing
// (largest x / largest y) or leading edge of the scene must still get an orthogonal route (axis-parallel segments); the REAL router.
#include "libavoid/libavoid.h"
#include <cstdio>
using namespace Avoid;
int main() {
  int bad = 0;
  // end point B at the extreme of the scene in direction `dir`, allowed to leave only in that direction
  const struct { double bx, by; ConnDirFlags dir; const char *what; } S[4] = {
    { 60, 120, ConnDirDown, "largest y, may only go down" }, { 160, 40, ConnDirRight, "largest x, may only go right" },
    { 60, -60, ConnDirUp, "smallest y, may only go up" }, { -80, 40, ConnDirLeft, "smallest x, may only go left" } };
  for (int k = 0; k < 4; ++k) {
    Router *router = new Router(OrthogonalRouting);
    router->setRoutingParameter(segmentPenalty, 50);
    Rectangle r1(Point(20, 0), Point(100, 30)), r2(Point(20, 50), Point(100, 80));
    new ShapeRef(router, r1); new ShapeRef(router, r2);
    ConnRef *c = new ConnRef(router, ConnEnd(Point(0, 20)), ConnEnd(Point(S[k].bx, S[k].by), S[k].dir));
    router->processTransaction();
    const PolyLine& r = c->displayRoute();
    bool ok = r.size() >= 2;
    for (size_t i = 1; i < r.size(); ++i) if (r.ps[i].x != r.ps[i - 1].x && r.ps[i].y != r.ps[i - 1].y) ok = false;
    if (!ok) { printf("end point on the outer edge (%s): route", S[k].what); for (size_t i = 0; i < r.size(); ++i) printf(" (%g,%g)", r.ps[i].x, r.ps[i].y); printf(" has a slanted segment\n"); bad++; }
    delete router;
  }
  if (bad) { printf("REPRODUCED: %d outer-edge end point(s) without an orthogonal route\n", bad); return 1; }
  printf("not reproduced\n"); return 0;
}
'''


def replay_fixvis(job, obl, inputs, workdir):
    lib = build_lib("libavoid", workdir)
    rc, out = native_run(REPLAY_FIXVIS, workdir, "replay_fixvis", extra=["-I", COLA], libs=[lib], timeout=300)
    if rc is None:
        return False, out
    return rc == 1, out


REPLAY_SIMPLIFY = r'''
// Native replay: Polygon::simplify() on short orthogonal routes must keep every bend (every output segment axis-parallel).
#include "libavoid/geomtypes.h"
#include <cstdio>
using namespace Avoid;
int main() {
  int bad = 0;
  const double NOISE[] = {0.30000000000000004, 0.3 + 1e-15, 0.3 + 1e-13, 0.3 + 1e-9, 1.3};
  for (int k = 0; k < 5; ++k) for (int len = 1; len <= 100; len *= 10) {
    Polygon r(3); r.ps[0] = Point(0, 0.3); r.ps[1] = Point(len, 0.3); r.ps[2] = Point(len, NOISE[k]);
    Polygon s = r.simplify();
    for (size_t i = 1; i < s.size(); ++i)
      if (s.ps[i].x != s.ps[i - 1].x && s.ps[i].y != s.ps[i - 1].y) { printf("simplify() of (0,0.3)->(%d,0.3)->(%d,%.17g) yields a slanted segment (%.17g,%.17g)->(%.17g,%.17g)\n", len, len, NOISE[k], s.ps[i-1].x, s.ps[i-1].y, s.ps[i].x, s.ps[i].y); bad++; }
  }
  if (bad) { printf("REPRODUCED: %d orthogonal route(s) lose a bend\n", bad); return 1; }
  printf("not reproduced\n"); return 0;
}
'''


def replay_simplify(job, obl, inputs, workdir):
    lib = build_lib("libavoid", workdir)
    rc, out = native_run(REPLAY_SIMPLIFY, workdir, "replay_simplify", extra=["-I", COLA], libs=[lib])
    if rc is None:
        return False, out
    return rc == 1, out


def jobs(tier):
    js = []
    pre = prelude("avoid_geomtypes.h")
    layout.check_layout("avoid_point", pre, ["libavoid/geomtypes.h"],
                        [("Avoid::Point", ["x", "y", "id", "vn"])], sizes=["Avoid::Point"])
    consts = slice_lines(MP, r'^static const unsigned int CostDirection[NESW] = \d+;', 4, "CostDirection constants")
    od = slice_func(MP, r'^static unsigned int orthogonalDirection\(const Point &a, const Point &b\)', "orthogonalDirection")
    dr = slice_func(MP, r'^static unsigned int dirRight\(unsigned int direction\)', "dirRight")
    dl = slice_func(MP, r'^static unsigned int dirLeft\(unsigned int direction\)', "dirLeft")
    dv = slice_func(MP, r'^static unsigned int dirReverse\(unsigned int direction\)', "dirReverse")
    bn = slice_func(MP, r'^int bends\(const Point& curr, unsigned int currDir, const Point& dest,', "bends")
    cxx = "#include <verif_base.h>\n" + pre + "namespace Avoid {\n" + \
          "\n".join(s.text for s in (consts, od, dr, dl, dv)) + "\n/*@CLOSURE@*/\n" + bn.text + "\n}\n" + \
          'extern "C" int w_bends(void *curr, unsigned int currDir, void *dest, unsigned int destDir)\n' \
          '{ return Avoid::bends(*(const Avoid::Point *)curr, currDir, *(const Avoid::Point *)dest, destDir); }\n'
    spec = spec_header() + rd("bends.spec.c").replace("@MINB@", minb.c_table())
    js.append(Job("bends", "U", spec, "h_bends", defines=["JOB_bends"], cxx=cxx, enforce="w_bends", closure_file=MP,
                  expect=[r'w_bends\.postcondition\.\d+', r'\.assertion\.\d+'],
                  slices=[consts, od, dr, dl, dv, bn],
                  domain="all non-NaN doubles (incl. +-inf, +-0), all 16 single-bit (currDir,destDir) pairs, curr != dest",
                  replay=replay_bends, timeout=300))
    # ---- the bend count charged by estimatedCostSpecific (middle fragment), bends behind its contract
    ecs = slice_func(MP, r'^static double estimatedCostSpecific\(ConnRef \*lineRef, const Point \*last,', "estimatedCostSpecific")
    odc = slice_func(MP, r'^static unsigned int orthogonalDirectionsCount\(const unsigned int directions\)', "orthogonalDirectionsCount")
    frag = fragment_between(ecs, r'int bendCount = 0;', r'double penalty = bendCount \*', "estimatedCostSpecific [from `int bendCount = 0;` to the penalty line]")
    # the fragment sits inside `else { ... }` of the routing-type test: it is taken from the else block's body
    cxx2 = ("#include <verif_base.h>\n#include <algorithm>\n" + pre + 'extern "C" int w_bends(void *curr, unsigned int currDir, void *dest, unsigned int destDir);\n'
            "namespace Avoid {\n" + consts.text + "\n" + od.text + "\n" + odc.text + "\n"
            "int bends(const Point& curr, unsigned int currDir, const Point& dest, unsigned int destDir)\n"
            "{ return w_bends((void *)&curr, currDir, (void *)&dest, destDir); }\n"
            "// free variables of the fragment become parameters, with the types they have in estimatedCostSpecific\n"
            "static int verif_bendcount(const Point *last, const Point& curr, Point costTarPoint, double dist, const unsigned int costTarDirs)\n{\n" +
            frag.text + "\n    return bendCount;\n}\n}\n"
            'extern "C" int w_bendcount(void *last, void *curr, void *tar, double dist, unsigned int costTarDirs)\n'
            '{ return Avoid::verif_bendcount((const Avoid::Point *)last, *(const Avoid::Point *)curr, *(const Avoid::Point *)tar, dist, costTarDirs); }\n')
    js.append(Job("estimatedCost_bendcount", "U", spec, "h_bendcount", cxx=cxx2, enforce="w_bendcount", replace=["w_bends"], defines=["JOB_bendcount"],
                  slices=[ecs, frag, od, odc], replay=replay_bends_scene, flags=["--sat-solver", "cadical"], backend="sat:cadical",
                  domain="all finite doubles, every costTarDirs bit set, with or without a previous point; bends replaced by its contract",
                  expect=[r'w_bendcount\.postcondition', r'w_bends\.precondition|precondition']))
    # ---- estimatedCost: the heuristic is the minimum over the arrival candidates of (specific estimate + displacement), so it never
    #      exceeds the estimate through ANY candidate; estimatedCostSpecific behind a contract (an uninterpreted function of the candidate)
    ec = slice_func(MP, r'^double AStarPathPrivate::estimatedCost\(ConnRef \*lineRef, const Point \*last,', "AStarPathPrivate::estimatedCost")
    ec_hdr, ec_body = body_of(ec.text)
    if not re.search(r'estimatedCost\(ConnRef \*lineRef, const Point \*last,\s*const Point& curr\) const\s*$', ec_hdr):
        raise Undecided("C05: signature of AStarPathPrivate::estimatedCost changed")
    ecs_sig = ecs.text[:ecs.text.index("{")]
    if not re.search(r'\(ConnRef \*lineRef, const Point \*last,\s*const Point& curr, const VertInf \*costTar,\s*const unsigned int costTarDirs\)\s*$', ecs_sig):
        raise Undecided("C05: signature of estimatedCostSpecific changed")
    astar_pre = ("namespace Avoid {\nclass ConnRef; class VertInf; class ANode;\n"
                 "// data members of the file-local class AStarPathPrivate in the real order (layout cross-checked against makepath.cpp)\n"
                 "class AStarPathPrivate { public:\n    double verif_estimatedCost();\n"
                 "    std::vector<ANode *> m_available_nodes; size_t m_available_array_size; size_t m_available_array_index; size_t m_available_node_index;\n"
                 "    std::vector<VertInf *> m_cost_targets; std::vector<unsigned int> m_cost_targets_directions; std::vector<double> m_cost_targets_displacements;\n};\n}\n")
    layout.check_layout("avoid_astar", "#include <vector>\n" + pre + astar_pre.replace("    double verif_estimatedCost();\n", ""), ["libavoid/makepath.cpp"],
                        [("Avoid::AStarPathPrivate", ["m_available_nodes", "m_available_array_size", "m_available_array_index", "m_available_node_index",
                                                      "m_cost_targets", "m_cost_targets_directions", "m_cost_targets_displacements"])], sizes=["Avoid::AStarPathPrivate"])
    # abstraction: `double` retyped as a machine integer (wrap-around add, total order): the claim uses nothing about `+` but that it is a
    # function of its operands, and nothing about `<` but that it is a total order -- true of doubles when no NaN arises
    cxx4 = ("#define double long long\n#define VERIF_INT_MODE\n#include <verif_base.h>\n#include <vector>\n#include <cfloat>\n#include <algorithm>\n" + pre +
            'extern "C" { double w_specific(void *lineRef, void *last, void *curr, void *tar, unsigned int dirs); void *verif_g_lineRef, *verif_g_last, *verif_g_curr; }\n' +
            astar_pre + "namespace Avoid {\n" + ecs_sig + "{ return w_specific((void *)lineRef, (void *)last, (void *)&curr, (void *)costTar, costTarDirs); }\n"
            "// the function body under its real parameter names (a parameterless member: loop-contract symbols must not contain commas)\n"
            "double AStarPathPrivate::verif_estimatedCost()\n{ ConnRef *lineRef = (ConnRef *)verif_g_lineRef; const Point *last = (const Point *)verif_g_last; "
            "const Point& curr = *(const Point *)verif_g_curr;\n" + ec_body + "\n}\n}\n"
            'extern "C" double w_estimatedCost(void *self, void *lineRef, void *last, void *curr, size_t K) { verif_g_lineRef = lineRef; verif_g_last = last; '
            'verif_g_curr = curr; return ((Avoid::AStarPathPrivate *)self)->verif_estimatedCost(); }\n')
    this5 = ("((struct{void*a;unsigned long b;unsigned long c;unsigned long d;unsigned long e;unsigned long f;void*tg;unsigned long n;unsigned long tc;"
             "void*dr;unsigned long dn;unsigned long dc;long long*dp;unsigned long pn;unsigned long pc;}__attribute__((packed))*)this)")
    js.append(Job("estimatedCost_min_over_targets", "D", spec, "h_estimatedCost", cxx=cxx4, enforce="w_estimatedCost", replace=["w_specific"],
                  defines=["JOB_estimatedCost_min", "INT_MODE"], extra_checks=False, slices=[ec, ecs], replay=replay_estcost, flags=["--sat-solver", "cadical", "--no-signed-overflow-check"], backend="sat:cadical",
                  loops=loops_file([loop_contract("Avoid::AStarPathPrivate::verif_estimatedCost(this)", 0,
                                                  "i <= {T}->n && estimate == estimate && (verif_K_idx < i ==> estimate <= verif_Kspec + {T}->dp[verif_K_idx])".replace("{T}", this5),
                                                  "i, estimate", "{T}->n - i".replace("{T}", this5), {"i": "1::1::i", "estimate": "1::estimate", "this": "this"})]),
                  domain="every number of arrival candidates up to 10^6, ghost candidate index K; estimatedCostSpecific behind a contract; costs as 64-bit machine integers "
                         "(`+` any function of its operands, `<` a total order; no signed-overflow check on purpose): transfers to doubles when no NaN arises",
                  expect=[r'w_estimatedCost\.postcondition', r'loop_invariant_base', r'loop_invariant_step', r'loop_decreases']))
    # ---- fixConnectionPointVisibilityOnOutsideOfVisibilityGraph: connection points on the leading AND the trailing edge of the sweep get the
    #      extra visibility (without it an endpoint that may only leave outwards stays isolated and the router falls back to a straight, slanted line)
    OCF = "libavoid/orthogonal.cpp"
    fx = slice_func(OCF, r'^void fixConnectionPointVisibilityOnOutsideOfVisibilityGraph\(Event \*\*events,', "fixConnectionPointVisibilityOnOutsideOfVisibilityGraph")
    vi_pre = open(os.path.join(VERIF, "prelude", "avoid_vertinf.h")).read()
    evt = slice_region("libavoid/scanline.h", r'^// Note: Open must come first\.\ntypedef enum \{', r'\} EventType;', "EventType (scanline.h)")
    ev_pre = ("namespace Avoid {\nclass Obstacle; class ShiftSegment;\n" + evt.text + "\n// scanline.h: data members the function reaches, in the real order (layout cross-checked)\n"
              "class Node { public: void *_verif_vptr; Obstacle *v; VertInf *c; ShiftSegment *ss; double pos; };\n"
              "struct Event { EventType type; Node *v; double pos; };\n}\n")
    layout.check_layout("avoid_scanline_event", pre + vi_pre + ev_pre, ["libavoid/vertices.h", "libavoid/scanline.h"],
                        [("Avoid::Event", ["type", "v", "pos"]), ("Avoid::Node", ["v", "c", "ss", "pos"]), ("Avoid::VertInf", ["visDirections"])], sizes=["Avoid::Event"])
    fx_cxx = ("#include <verif_base.h>\n" + pre + vi_pre + ev_pre + "namespace Avoid {\n" + fx.text + "\n}\n"
              "// scene objects live on the C++ side (no C mirror of VertInf needed); the C harness sets and reads them through these accessors\n"
              "static Avoid::VertInf *verif_vip[4];   // allocated raw: VertInf has a Point member whose constructor is not part of this TU\n"
              "#define verif_vi(i) (verif_vip[i])\n"
              "static Avoid::Node verif_nd[4]; static Avoid::Event verif_ev[4]; static Avoid::Event *verif_evp[4];\n"
              'extern "C" void *malloc(size_t);\n'
              'extern "C" void verif_setup(int i, bool has, double pos, unsigned vis) { verif_vip[i] = (Avoid::VertInf *)malloc(sizeof(Avoid::VertInf)); __CPROVER_assume(verif_vip[i] != 0); verif_vi(i)->visDirections = vis; verif_nd[i].c = has ? verif_vi(i) : 0; verif_ev[i].v = &verif_nd[i]; '
              'verif_ev[i].pos = pos; verif_evp[i] = &verif_ev[i]; }\n'
              'extern "C" unsigned verif_vis(int i) { return verif_vi(i)->visDirections; }\n'
              'extern "C" void w_fixvis(size_t total, unsigned added) { Avoid::fixConnectionPointVisibilityOnOutsideOfVisibilityGraph(verif_evp, total, added); }\n')
    js.append(Job("outer_edge_visibility_fix", "B", spec, "h_fixvis", cxx=fx_cxx, defines=["JOB_fixvis"], slices=[fx, evt], unwind=6, flags=["--sat-solver", "cadical"], backend="sat:cadical",
                  bound="0 to 4 sweep events sorted by position (loops unwound 6 times with unwinding assertions)",
                  domain="every sorted sequence of up to 4 events (ties included), each with or without a connection point, every visibility flag word",
                  expect=[r'h_fixvis\.assertion'], replay=replay_fixvis))
    # ---- Polygon::simplify: the decision to drop a route point (expression fragment), vecDir behind a contract that demands tolerance 0
    simp = slice_func("libavoid/geomtypes.cpp", r'^Polygon Polygon::simplify\(void\) const', "Polygon::simplify")
    hdr_, sbody = fragment_loop(simp, r'for \(size_t j = 2; j < simplified\.size\(\); \)', "Polygon::simplify [loop body]")
    cond = fragment_condition(sbody, 0, "Polygon::simplify [condition under which a point is dropped]")
    vd_decl = slice_func("libavoid/geometry.h", r'^static inline int vecDir\(const Point& a, const Point& b, const Point& c,', "vecDir (signature and default argument only)")
    poly_pre = prelude("avoid_polygon.h")
    layout.check_layout("avoid_polygon05", pre + poly_pre, ["libavoid/geomtypes.h"], [("Avoid::Polygon", ["_id", "ps", "ts", "checkpointsOnRoute"])], sizes=["Avoid::Polygon"])
    # vecDir's real signature (with its default tolerance) in front of a one-line shim body
    sig = vd_decl.text[:vd_decl.text.index("{")]
    cxx3 = ("#include <verif_base.h>\n#include <cfloat>\n" + pre + poly_pre + 'extern "C" int w_vecDir(void *a, void *b, void *c, double maybeZero);\n'
            "namespace Avoid {\n" + sig + "{ return w_vecDir((void *)&a, (void *)&b, (void *)&c, maybeZero); }\n"
            "static bool verif_simplify_drops(Polygon& simplified, size_t j)\n{\n" +
            # closure: scalar locals declared before the loop are carried along verbatim (a tolerance introduced there must reach vecDir's contract)
            "".join("    " + d.replace("std::numeric_limits<double>::epsilon()", "DBL_EPSILON") + "\n"
                    for d in scalar_local_decls(simp, r'for \(size_t j = 2; j < simplified\.size\(\); \)') if "checkpoints" not in d) +
            "    return (" + cond.text + ");\n}\n}\n"
            'extern "C" bool w_simplify_drops(void *poly, size_t j) { return Avoid::verif_simplify_drops(*(Avoid::Polygon *)poly, j); }\n')
    js.append(Job("simplify_drop_condition", "U", spec, "h_simplify_cond", cxx=cxx3, enforce="w_simplify_drops", replace=["w_vecDir"], defines=["JOB_simplify_cond"],
                  slices=[simp, sbody, cond, vd_decl], replay=replay_simplify,
                  domain="all doubles, every route length, every index j; vecDir replaced by its contract over an uninterpreted orientation, tolerance 0 demanded at the call site",
                  expect=[r'w_simplify_drops\.postcondition', r'w_vecDir\.precondition|precondition']))
    return js


LEVEL = "proof"
TRUSTED = [
    "cbmc/goto-cc/goto-instrument 6.11.0; MiniSat and CaDiCaL back ends",
    "tools/minb.py: the search oracle for the true minimum number of bends (13x13 grid; sign-class invariance asserted at two offsets)",
    "extraction: verbatim function text from cola/libavoid/makepath.cpp and geomtypes.cpp; COLA_ASSERT mapped to __CPROVER_assert; middle fragment of estimatedCostSpecific "
    "(its free variables become parameters); expression fragment of Polygon::simplify (the condition of the if inside its loop, closed under the scalar locals declared before the loop)",
    "prelude/avoid_geomtypes.h, avoid_polygon.h (layout cross-checked on every run)",
]
ASSUMPTIONS = [
    "bends() is only called with single-bit directions and curr != dest: checked as call-site preconditions in the estimatedCost_bendcount job",
    "estimatedCostSpecific: the last two lines (cost = distance + bendCount x segmentPenalty) are not restated; the claim is about the bend count it charges",
    "estimatedCost (minimum over the arrival candidates): proved with costs retyped as 64-bit machine integers and estimatedCostSpecific behind an assumed contract "
    "(within one call a function of the candidate and its directions); the argument uses only that `+` is a function of its operands and `<` a total order, "
    "which holds for doubles when no NaN arises (finite estimates and displacements) -- the floating-point version of the same obligation did not finish on any back end",
    "Polygon::simplify: only the decision to drop a point is under contract (exact collinearity, tolerance 0 at the call site); vector erase and checkpoint renumbering are not",
    "outer_edge_visibility_fix is a BOUNDED stand-in (up to 4 sorted sweep events): connection points at the first and at the last scan position, and only those, get the "
    "added visibility; the events' sortedness is a precondition (they come out of qsort in generateStaticOrthogonalVisGraph)",
    "NOT decided (residue): the visibility graph contains an optimal path, turn pruning never loses it (its transposition symmetry is an obligation of the C20 check), "
    "every raw route segment is axis-parallel, agreement with a grid-search oracle on scenes",
]
EXPLANATION = ("Contracts on the real libavoid bend estimator: Avoid::bends (helpers inlined) never exceeds the true free-space minimum number of bends from an independent search "
               "oracle, for all non-NaN doubles and all 16 direction pairs; the bend count charged by estimatedCostSpecific (bends behind its contract, call-site preconditions "
               "checked) is admissible for every set of permitted arrival directions; estimatedCost never exceeds the estimate through ANY of its arrival candidates (loop contract, any number of "
               "candidates); Polygon::simplify drops a route point iff it is exactly collinear (no tolerance), so "
               "orthogonal bends survive into the display route.")
