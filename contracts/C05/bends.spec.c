/* C05: the bend-count estimate never exceeds the true minimum number of bends.
 * Contract on the real Avoid::bends (cola/libavoid/makepath.cpp), verified with
 * orthogonalDirection/dirLeft/dirRight/dirReverse inlined (they are mechanism, DESIGN 1.1).
 * MINB is generated on every run by tools/minb.py (independent search, not from the code). */
#define PACKED __attribute__((packed))
struct __attribute__((packed)) Point { double x; double y; unsigned int id; unsigned short vn; };   /* packed: CBMC's C++ layout */

@MINB@

#define DIX(d) ((d) == 1u ? 0 : (d) == 2u ? 1 : (d) == 4u ? 2 : 3)
/* sign of (b - a) without a subtraction */
#define SGN(a, b) ((b) > (a) ? 1 : ((b) < (a) ? -1 : 0))
#define PX(p) (((struct Point *)(p))->x)
#define PY(p) (((struct Point *)(p))->y)
#define ONEBIT(d) ((d) == 1u || (d) == 2u || (d) == 4u || (d) == 8u)

int w_bends(void *curr, unsigned int currDir, void *dest, unsigned int destDir)
__CPROVER_requires(__CPROVER_is_fresh(curr, sizeof(struct Point)))
__CPROVER_requires(__CPROVER_is_fresh(dest, sizeof(struct Point)))
/* call-site facts (estimatedCostSpecific): single-direction currDir and destDir, dist > 0 */
__CPROVER_requires(ONEBIT(currDir) && ONEBIT(destDir))
__CPROVER_requires(!IS_NAN(PX(curr)) && !IS_NAN(PY(curr)) && !IS_NAN(PX(dest)) && !IS_NAN(PY(dest)))
__CPROVER_requires(!(PX(curr) == PX(dest) && PY(curr) == PY(dest)))
__CPROVER_ensures(__CPROVER_return_value >= 0)
__CPROVER_ensures(__CPROVER_return_value <=
    MINB[DIX(destDir)][DIX(currDir)][SGN(PY(curr), PY(dest)) + 1][SGN(PX(curr), PX(dest)) + 1])
__CPROVER_assigns()
;

#if defined(JOB_bends)
void h_bends(void)
{
    void *curr, *dest;
    unsigned int currDir, destDir;
    w_bends(curr, currDir, dest, destDir);
    VERIF_CANARY;
}
#endif

/* ------------------------------------------------------------------------------------------------
 * estimatedCostSpecific, orthogonal branch: the bend count it charges (middle fragment from `int bendCount = 0;`
 * to the line that multiplies it by the segment penalty) never exceeds the true minimum number of bends over the
 * permitted arrival directions.  `bends` is replaced by its contract above; its requires clauses are obligations at
 * each of the four call sites. */
#if defined(JOB_bendcount)
/* spec helpers over scalars (each pointer is dereferenced once in the contract, not once per macro expansion) */
static int sgn_of(double a, double b) { return b > a ? 1 : (b < a ? -1 : 0); }
static int dix_of(unsigned int d) { return d == 1u ? 0 : d == 2u ? 1 : d == 4u ? 2 : 3; }
/* minimum of MINB over the permitted arrival directions (10 if none is permitted: then every estimate is admissible) */
static int minb_over(unsigned int dirs, unsigned int currDir, double cx, double cy, double tx, double ty)
{
    int best = 10, sy = sgn_of(cy, ty) + 1, sx = sgn_of(cx, tx) + 1, c = dix_of(currDir);
    if ((dirs & 1u) && MINB[0][c][sy][sx] < best) best = MINB[0][c][sy][sx];
    if ((dirs & 2u) && MINB[1][c][sy][sx] < best) best = MINB[1][c][sy][sx];
    if ((dirs & 4u) && MINB[2][c][sy][sx] < best) best = MINB[2][c][sy][sx];
    if ((dirs & 8u) && MINB[3][c][sy][sx] < best) best = MINB[3][c][sy][sx];
    return best;
}
/* direction of the last segment (last -> curr) as a single bit, or 0 if it is not axis-parallel / has zero length */
static unsigned int segdir(double lx, double ly, double cx, double cy)
{
    if (lx == cx && cy < ly) return 1u;
    if (ly == cy && cx > lx) return 2u;
    if (lx == cx && cy > ly) return 4u;
    if (ly == cy && cx < lx) return 8u;
    return 0u;
}
#define MINB_OVER(dirs, cd, c, d) minb_over(dirs, cd, PX(c), PY(c), PX(d), PY(d))
#define SEGDIR(l, c) segdir(PX(l), PY(l), PX(c), PY(c))
/* finite coordinates: with infinities inf - inf is NaN and 'xmove != 0' no longer means 'x differs' */
#define NOTNAN_PT(p) (IS_FINITE(PX(p)) && IS_FINITE(PY(p)))
int w_bendcount(void *last, void *curr, void *tar, double dist, unsigned int costTarDirs)
__CPROVER_requires(__CPROVER_is_fresh(curr, sizeof(struct Point)) && __CPROVER_is_fresh(tar, sizeof(struct Point)))
__CPROVER_requires(last == (void *)0 || __CPROVER_is_fresh(last, sizeof(struct Point)))
__CPROVER_requires(NOTNAN_PT(curr) && NOTNAN_PT(tar) && (last == (void *)0 || NOTNAN_PT(last)))
/* dist is the Manhattan distance curr -> target: zero exactly when the two points coincide */
__CPROVER_requires(dist >= 0.0 && ((dist == 0.0) == (PX(curr) == PX(tar) && PY(curr) == PY(tar))))
__CPROVER_ensures(__CPROVER_return_value >= 0)
/* first point of a path, heading still free: one bend is needed iff the target is in line in neither dimension */
__CPROVER_ensures(last == (void *)0 ==> __CPROVER_return_value <= ((PX(curr) != PX(tar) && PY(curr) != PY(tar)) ? 1 : 0))
/* arriving on an axis-parallel segment: at most the true minimum over the permitted arrival directions */
__CPROVER_ensures((last != (void *)0 && dist > 0.0 && SEGDIR(last, curr) != 0u) ==>
                  __CPROVER_return_value <= MINB_OVER(costTarDirs, SEGDIR(last, curr), curr, tar))
/* otherwise (at the target, or no usable heading) nothing is charged */
__CPROVER_ensures((last != (void *)0 && (dist == 0.0 || SEGDIR(last, curr) == 0u)) ==> __CPROVER_return_value == 0)
__CPROVER_assigns()
;
void h_bendcount(void) { void *last, *curr, *tar; double dist; unsigned int dirs; w_bendcount(last, curr, tar, dist, dirs); VERIF_CANARY; }
#endif

/* ------------------------------------------------------------------------------------------------
 * Polygon::simplify (which produces every connector's display route from the search's raw route): the decision to
 * drop a route point.  A bend of an orthogonal route must survive: a point is dropped iff it is EXACTLY collinear with
 * its neighbours -- so the orientation test must be called at tolerance 0 (call-site precondition) and the point is
 * dropped iff that orientation is 0.  (With any tolerance, a right-angle bend whose legs are short enough is "collinear"
 * and the display route gets a slanted segment: C05 "every segment is exactly horizontal or vertical".) */
#if defined(JOB_simplify_cond)
struct PACKED vec5 { void *d; size_t n; size_t cap; };
struct PACKED Polygon5 { void *vptr; int _id; struct vec5 ps; struct vec5 ts; struct vec5 checkpointsOnRoute; };
int __CPROVER_uninterpreted_ori3(double, double, double, double, double, double);
#define PT5(poly, k) (&((struct Point *)((struct Polygon5 *)(poly))->ps.d)[k])
#define ORI3(a, b, c) __CPROVER_uninterpreted_ori3(PX(a), PY(a), PX(b), PY(b), PX(c), PY(c))
int w_vecDir(void *a, void *b, void *c, double maybeZero)
__CPROVER_requires(maybeZero == 0.0)                       /* exact test: no tolerance at this call site */
__CPROVER_ensures(__CPROVER_return_value == ORI3(a, b, c))
__CPROVER_ensures(__CPROVER_return_value >= -1 && __CPROVER_return_value <= 1)
__CPROVER_assigns()
;
_Bool w_simplify_drops(void *poly, size_t j)
__CPROVER_requires(__CPROVER_is_fresh(poly, sizeof(struct Polygon5)))
__CPROVER_requires(((struct Polygon5 *)poly)->ps.n >= 3 && ((struct Polygon5 *)poly)->ps.n <= 1000000 && j >= 2 && j < ((struct Polygon5 *)poly)->ps.n)
__CPROVER_requires(__CPROVER_is_fresh(((struct Polygon5 *)poly)->ps.d, ((struct Polygon5 *)poly)->ps.n * sizeof(struct Point)))
__CPROVER_ensures(__CPROVER_return_value == (ORI3(PT5(poly, j - 2), PT5(poly, j - 1), PT5(poly, j)) == 0))
__CPROVER_assigns()
;
void h_simplify_cond(void) { void *poly; size_t j; w_simplify_drops(poly, j); VERIF_CANARY; }
#endif

/* ------------------------------------------------------------------------------------------------
 * AStarPathPrivate::estimatedCost: with several possible arrival points ("cost targets", each with a displacement to the real
 * target) the heuristic must not exceed the estimate through ANY of them -- it is their minimum.  An estimate above the cost
 * through the candidate the optimal route uses makes A* return a non-minimal route. */
#if defined(JOB_estimatedCost_min)
typedef long long num;   /* INT_MODE: see the job's domain */
struct PACKED vec6 { void *d; size_t n; size_t cap; };
struct PACKED AStar { struct vec6 nodes; size_t a, b, c; struct vec6 targets; struct vec6 dirs; struct vec6 disp; };
#define AS(p) ((struct AStar *)(p))
num __CPROVER_uninterpreted_spec(void *, unsigned int);
extern void *verif_g_lineRef, *verif_g_last, *verif_g_curr;
size_t verif_K_idx;      /* ghost: the arrival candidate the postcondition speaks about */
num verif_Kspec;         /* ghost: the specific estimate through that candidate */
/* assumed: within one call of estimatedCost (lineRef, last, curr fixed) the specific estimate is a function of the candidate
 * and its permitted directions, and it is a number (a Manhattan/Euclidean distance plus a penalty) */
num w_specific(void *lineRef, void *last, void *curr, void *tar, unsigned int dirs)
__CPROVER_requires(1)
__CPROVER_ensures(__CPROVER_return_value == __CPROVER_uninterpreted_spec(tar, dirs))
__CPROVER_assigns()
;
num w_estimatedCost(void *self, void *lineRef, void *last, void *curr, size_t K)
__CPROVER_requires(__CPROVER_is_fresh(self, sizeof(struct AStar)) && AS(self)->targets.n >= 1 && AS(self)->targets.n <= 1000000)
__CPROVER_requires(AS(self)->dirs.n == AS(self)->targets.n && AS(self)->disp.n == AS(self)->targets.n)
__CPROVER_requires(__CPROVER_is_fresh(AS(self)->targets.d, AS(self)->targets.n * sizeof(void *)) &&
                   __CPROVER_is_fresh(AS(self)->dirs.d, AS(self)->targets.n * sizeof(unsigned int)) &&
                   __CPROVER_is_fresh(AS(self)->disp.d, AS(self)->targets.n * sizeof(num)))
__CPROVER_requires(K < AS(self)->targets.n && verif_K_idx == K)
__CPROVER_requires(verif_Kspec == __CPROVER_uninterpreted_spec(((void **)AS(self)->targets.d)[K], ((unsigned int *)AS(self)->dirs.d)[K]))
__CPROVER_ensures(__CPROVER_return_value <= verif_Kspec + ((num *)AS(self)->disp.d)[K])
__CPROVER_assigns(verif_g_lineRef, verif_g_last, verif_g_curr)
;
void h_estimatedCost(void) { void *self, *l, *a, *c; size_t K; w_estimatedCost(self, l, a, c, K); VERIF_CANARY; }
#endif

/* ------------------------------------------------------------------------------------------------
 * fixConnectionPointVisibilityOnOutsideOfVisibilityGraph: every connection point among the events at the FIRST scan position and among
 * those at the LAST scan position gets the extra visibility directions; nothing else is touched.  BOUNDED: up to 4 events. */
#if defined(JOB_fixvis)
void verif_setup(int i, _Bool has, double pos, unsigned vis); unsigned verif_vis(int i); void w_fixvis(size_t total, unsigned added);
void h_fixvis(void)
{
  double pos[4]; unsigned before[4]; _Bool has[4]; size_t n; unsigned added;
  __CPROVER_assume(n <= 4);
  for (int i = 0; i < 4; ++i) { __CPROVER_assume(!IS_NAN(pos[i])); verif_setup(i, has[i], pos[i], before[i]); }
  for (int i = 1; i < 4; ++i) if ((size_t)i < n) __CPROVER_assume(pos[i - 1] <= pos[i]);      /* events arrive sorted by position */
  w_fixvis(n, added);
  for (size_t i = 0; i < 4; ++i) if (i < n && has[i]) {
    _Bool outer = pos[i] == pos[0] || pos[i] == pos[n - 1];
    __CPROVER_assert(verif_vis(i) == (outer ? (before[i] | added) : before[i]),
                     "SPEC a connection point gets the added visibility iff it sits at the first or the last scan position");
  }
  VERIF_CANARY;
}
#endif
