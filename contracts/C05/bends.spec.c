/* C05: the bend-count estimate never exceeds the true minimum number of bends.
 * Contract on the real Avoid::bends (cola/libavoid/makepath.cpp), verified with
 * orthogonalDirection/dirLeft/dirRight/dirReverse inlined (they are mechanism, DESIGN 1.1).
 * MINB is generated on every run by tools/minb.py (independent search, not from the code). */
struct Point { double x; double y; unsigned int id; unsigned short vn; };

@MINB@

#define DIX(d) ((d) == 1u ? 0 : (d) == 2u ? 1 : (d) == 4u ? 2 : 3)
/* sign of (b - a) without a subtraction */
#define SGN(a, b) ((b) > (a) ? 1 : ((b) < (a) ? -1 : 0))
#define PX(p) (((struct Point *)(p))->x)
#define PY(p) (((struct Point *)(p))->y)
#define ONEBIT(d) ((d) == 1u || (d) == 2u || (d) == 4u || (d) == 8u)

int w_bends(void *curr, unsigned int currDir, void *dest, unsigned int destDir)
__CPROVER_requires(__CPROVER_is_fresh(curr, sizeof(struct Point)))
__CPROVER_requires(__CPROVER_is_fresh(dest, sizeof(struct Point)))
/* call-site facts (estimatedCostSpecific): single-direction currDir and destDir, dist > 0 */
__CPROVER_requires(ONEBIT(currDir) && ONEBIT(destDir))
__CPROVER_requires(!IS_NAN(PX(curr)) && !IS_NAN(PY(curr)) && !IS_NAN(PX(dest)) && !IS_NAN(PY(dest)))
__CPROVER_requires(!(PX(curr) == PX(dest) && PY(curr) == PY(dest)))
__CPROVER_ensures(__CPROVER_return_value >= 0)
__CPROVER_ensures(__CPROVER_return_value <=
    MINB[DIX(destDir)][DIX(currDir)][SGN(PY(curr), PY(dest)) + 1][SGN(PX(curr), PX(dest)) + 1])
__CPROVER_assigns()
;

void h_bends(void)
{
    void *curr, *dest;
    unsigned int currDir, destDir;
    w_bends(curr, currDir, dest, destDir);
    VERIF_CANARY;
}
