"""C07 jobs: the translation link of "layout output satisfies every user constraint" (see compound.spec.c header)."""
import os, sys, re
from vf import *
from common import *
import layout
sys.path.insert(0, os.path.join(VERIF, "contracts", "C01"))
import importlib.util
_spec = importlib.util.spec_from_file_location("c01jobs", os.path.join(VERIF, "contracts", "C01", "jobs.py"))
c01 = importlib.util.module_from_spec(_spec); _spec.loader.exec_module(c01)

HERE = os.path.dirname(os.path.abspath(__file__))
CC = "libcola/compound_constraints.cpp"

KINDS = [
    # key, class, info class, C mirror, loop header regex, body params (C++), names of (vars, cs) in the real signature
    ("boundary", "BoundaryConstraint", "Offset", "Boundary"),
    ("alignment", "AlignmentConstraint", "Offset", "Align"),
    ("multiseparation", "MultiSeparationConstraint", "AlignmentPair", "MultiSep"),
    ("distribution", "DistributionConstraint", "AlignmentPair", "Distrib"),
    ("fixedrelative", "FixedRelativeConstraint", "RelativeOffset", "FixedRel"),
]
LOOP_RE = r'for \(SubConstraintInfoList::iterator o = _subConstraintInfo\.begin\(\);\s*o != _subConstraintInfo\.end\(\); \+\+o\)'
NEW_HELPER = (
    "// goto-instrument --dfcc has no model of C++ operator new: `new vpsc::Constraint(args)` is substituted (must-fire) by this helper\n"
    "// = malloc + the REAL constructor on a temporary + field-wise copy; allocation is assumed to succeed (operator new throws otherwise)\n"
    'extern "C" void *malloc(size_t);\n'
    "static vpsc::Constraint *verif_copy_Constraint(const vpsc::Constraint &t) {\n"
    "  vpsc::Constraint *p = (vpsc::Constraint *)malloc(sizeof(vpsc::Constraint));\n"
    "  __CPROVER_assume(p != 0);\n"
    "  p->left = t.left; p->right = t.right; p->gap = t.gap; p->lm = t.lm; p->timeStamp = t.timeStamp; p->active = t.active;\n"
    "  *(bool *)&p->equality = t.equality; p->unsatisfiable = t.unsatisfiable; p->needsScaling = t.needsScaling; p->creator = t.creator; return p; }\n"
    "static vpsc::Constraint *verif_new_Constraint(vpsc::Variable *l, vpsc::Variable *r, double g, bool e) { vpsc::Constraint t(l, r, g, e); return verif_copy_Constraint(t); }\n"
    "static vpsc::Constraint *verif_new_Constraint(vpsc::Variable *l, vpsc::Variable *r, double g) { vpsc::Constraint t(l, r, g); return verif_copy_Constraint(t); }\n")
# exception model (DESIGN 2.5): a throw sets the ghost flag and returns; a call that may throw is followed by propagation
THROW_RULES_ASSERTVALID = [(r'throw InvalidVariableIndexException\(this, index\);', '{ verif_thrown = 1; return; }', 1)]


REPLAY_SRC = r'''
// Native replay for the C07 translation obligations: the REAL libcola classes (rebuilt from the working tree) are asked, through
// their public API, to generate VPSC constraints for one user constraint of each kind; what comes out must BE that constraint.
#include "libcola/cola.h"
#include "libcola/compound_constraints.h"
#include "libcola/exceptions.h"
#include <cstdio>
#include <valarray>
namespace cola { void project(vpsc::Variables& vs, vpsc::Constraints& cs, std::valarray<double>& coords); }
using namespace cola;
static int bad = 0;
static void expect(const char *what, vpsc::Constraint *c, vpsc::Variable *l, vpsc::Variable *r, double gap, bool eq, void *creator) {
  if (c->left != l || c->right != r || c->gap != gap || c->equality != eq || c->creator != creator) {
    printf("%s: generated  var%d + %g %s var%d (creator %s)   expected  var%d + %g %s var%d\n", what, c->left->id, c->gap, c->equality ? "==" : "<=", c->right->id,
           c->creator == creator ? "ok" : "WRONG", l->id, gap, eq ? "==" : "<=", r->id);
    bad++;
  }
}
int main() {
  for (int d = 0; d < 2; ++d) {
    vpsc::Dim dim = (vpsc::Dim)d, other = (vpsc::Dim)(1 - d);
    vpsc::Variables vs; vpsc::Constraints cs; vpsc::Rectangles bbs;
    for (int i = 0; i < 4; ++i) vs.push_back(new vpsc::Variable(i, 10.0 * i));
    for (int i = 0; i < 4; ++i) bbs.push_back(new vpsc::Rectangle(10.0 * i, 10.0 * i + 4, 7.0 * i, 7.0 * i + 4));
    // alignments (create their guide-line variables first, as setupVarsAndConstraints does)
    AlignmentConstraint a1(dim, 3.0), a2(dim, 50.0);
    a1.addShape(1, 5.0); a1.addShape(2, -3.0); a2.addShape(3, 0.0);
    a1.generateVariables(dim, vs); a2.generateVariables(dim, vs);
    if (vs.size() != 6 || a1.variable != vs[4] || a2.variable != vs[5] || a1.variable->id != 4 || a2.variable->id != 5) { printf("AlignmentConstraint::generateVariables: guide-line variable is not appended with its index as id\n"); bad++; }
    a1.generateSeparationConstraints(other, vs, cs, bbs);
    if (cs.size() != 0) { printf("AlignmentConstraint generates constraints in the other dimension\n"); bad++; }
    a1.generateSeparationConstraints(dim, vs, cs, bbs);
    if (cs.size() != 2) { printf("AlignmentConstraint with 2 shapes generated %zu constraints\n", cs.size()); bad++; }
    else { expect("alignment shape 1", cs[0], a1.variable, vs[1], 5.0, true, &a1); expect("alignment shape 2", cs[1], a1.variable, vs[2], -3.0, true, &a1); }
    cs.clear();
    // boundary
    BoundaryConstraint b(dim); b.addShape(0, -10.0); b.addShape(1, 7.0);
    b.generateVariables(dim, vs);
    b.generateSeparationConstraints(dim, vs, cs, bbs);
    if (cs.size() != 2) { printf("BoundaryConstraint with 2 shapes generated %zu constraints\n", cs.size()); bad++; }
    else { expect("boundary, shape before the line", cs[0], vs[0], b.variable, 10.0, false, &b); expect("boundary, shape after the line", cs[1], b.variable, vs[1], 7.0, false, &b); }
    cs.clear();
    // separation: node indices and alignment pair
    SeparationConstraint s1(dim, 0, 1, 25.0, false), s2(dim, &a1, &a2, 15.0, true);
    s1.generateSeparationConstraints(other, vs, cs, bbs);
    if (cs.size() != 0) { printf("SeparationConstraint generates constraints in the other dimension\n"); bad++; }
    s1.generateSeparationConstraints(dim, vs, cs, bbs); s2.generateSeparationConstraints(dim, vs, cs, bbs);
    if (cs.size() != 2) { printf("two SeparationConstraints generated %zu constraints\n", cs.size()); bad++; }
    else { expect("separation (nodes)", cs[0], vs[0], vs[1], 25.0, false, &s1); expect("separation (alignments)", cs[1], a1.variable, a2.variable, 15.0, true, &s2); }
    cs.clear();
    // multi-separation and distribution
    MultiSeparationConstraint ms(dim, 30.0, false); ms.addAlignmentPair(&a1, &a2);
    DistributionConstraint dc(dim); dc.addAlignmentPair(&a1, &a2); dc.setSeparation(40.0);
    ms.generateSeparationConstraints(dim, vs, cs, bbs); dc.generateSeparationConstraints(dim, vs, cs, bbs);
    if (cs.size() != 2) { printf("MultiSeparation + Distribution generated %zu constraints\n", cs.size()); bad++; }
    else { expect("multi-separation", cs[0], a1.variable, a2.variable, 30.0, false, &ms); expect("distribution", cs[1], a1.variable, a2.variable, 40.0, true, &dc); }
    cs.clear();
    { // a distribution whose pairs are not in chain order: two pieces first, then the pair that joins them -- every pair gets its equality
      AlignmentConstraint g0(dim, 0.0), g1(dim, 100.0), g2(dim, 200.0), g3(dim, 300.0); vpsc::Variables gv;
      g0.generateVariables(dim, gv); g1.generateVariables(dim, gv); g2.generateVariables(dim, gv); g3.generateVariables(dim, gv);
      DistributionConstraint dj(dim); dj.setSeparation(100.0); dj.addAlignmentPair(&g0, &g1); dj.addAlignmentPair(&g2, &g3); dj.addAlignmentPair(&g1, &g2);
      vpsc::Constraints dcs; dj.generateSeparationConstraints(dim, gv, dcs, bbs);
      if (dcs.size() != 3) { printf("distribution with pairs (g0,g1),(g2,g3),(g1,g2) generated %zu equalities (expected 3)\n", dcs.size()); bad++; }
      else { expect("distribution pair 1", dcs[0], g0.variable, g1.variable, 100.0, true, &dj); expect("distribution pair 2", dcs[1], g2.variable, g3.variable, 100.0, true, &dj);
             expect("distribution joining pair", dcs[2], g1.variable, g2.variable, 100.0, true, &dj); }
    }
    MultiSeparationConstraint mse(dim, 60.0, true); mse.addAlignmentPair(&a1, &a2);
    mse.generateSeparationConstraints(dim, vs, cs, bbs);
    if (cs.size() != 1) { printf("exact MultiSeparation generated %zu constraints\n", cs.size()); bad++; }
    else expect("multi-separation (exact)", cs[0], a1.variable, a2.variable, 60.0, true, &mse);
    cs.clear();
    // fixed-relative
    std::vector<unsigned> ids; ids.push_back(0); ids.push_back(2); ids.push_back(3);
    FixedRelativeConstraint fr(bbs, ids, false);
    fr.generateSeparationConstraints(dim, vs, cs, bbs);
    double off2 = d == 0 ? bbs[2]->getCentreX() - bbs[0]->getCentreX() : bbs[2]->getCentreY() - bbs[0]->getCentreY();
    double off3 = d == 0 ? bbs[3]->getCentreX() - bbs[0]->getCentreX() : bbs[3]->getCentreY() - bbs[0]->getCentreY();
    if (cs.size() != 2) { printf("FixedRelativeConstraint on 3 shapes generated %zu constraints in one dimension\n", cs.size()); bad++; }
    else { expect("fixed-relative 0-2", cs[0], vs[0], vs[2], off2, true, &fr); expect("fixed-relative 0-3", cs[1], vs[0], vs[3], off3, true, &fr); }
    cs.clear();
    // an index outside the variable list is reported
    SeparationConstraint s3(dim, 0, 99, 1.0, false);
    bool thrown = false;
    try { s3.generateSeparationConstraints(dim, vs, cs, bbs); } catch (InvalidVariableIndexException &e) { thrown = true; }
    if (!thrown || cs.size() != 0) { printf("SeparationConstraint with an invalid index is not reported\n"); bad++; }
  }
  {
    // project(): the coordinates handed back are the solver's result (so they satisfy the constraint it was given)
    vpsc::Variables vs; vpsc::Constraints cs; std::valarray<double> coords(2);
    vs.push_back(new vpsc::Variable(0, 0.0)); vs.push_back(new vpsc::Variable(1, 0.0));
    cs.push_back(new vpsc::Constraint(vs[0], vs[1], 10.0));
    coords[0] = coords[1] = 0.0;
    cola::project(vs, cs, coords);
    if (!(coords[1] - coords[0] >= 10.0 - 1e-4) || coords[0] != vs[0]->finalPosition || coords[1] != vs[1]->finalPosition) {
      printf("project(): coordinates (%g, %g) handed back for solver result (%g, %g) under v0 + 10 <= v1\n", coords[0], coords[1], vs[0]->finalPosition, vs[1]->finalPosition); bad++; }
  }
  {
    // makeFeasible(): a non-overlap alternative that contradicts an earlier user constraint which is currently slack -- VPSC then flags the
    // EARLIER constraint; the alternative must be rolled back.  Several placements of the second node relative to the first.
    for (int k = 0; k < 4; ++k) {
      const double W = 100, H = 60; double cx[3] = { 60.0 - 10 * k, 0, 0 }, cy[3] = { 0, 0, 1000 };
      vpsc::Rectangles rs; for (int i = 0; i < 3; ++i) rs.push_back(new vpsc::Rectangle(cx[i] - W / 2, cx[i] + W / 2, cy[i] - H / 2, cy[i] + H / 2));
      std::vector<cola::Edge> es; es.push_back(cola::Edge(0, 1)); es.push_back(cola::Edge(0, 2));
      CompoundConstraints ccs; ccs.push_back(new SeparationConstraint(vpsc::XDIM, 0, 1, 10, false)); ccs.push_back(new SeparationConstraint(vpsc::XDIM, 0, 2, 100, false));
      ConstrainedFDLayout alg(rs, es, 100); alg.setConstraints(ccs); alg.setAvoidNodeOverlaps(true);
      UnsatisfiableConstraintInfos ux, uy; alg.setUnsatisfiableConstraintInfo(&ux, &uy);
      alg.makeFeasible();
      double x0 = rs[0]->getCentreX(), x1 = rs[1]->getCentreX(), x2 = rs[2]->getCentreX();
      if (ux.empty() && uy.empty() && (!(x0 + 10 <= x1 + 1e-4) || !(x0 + 100 <= x2 + 1e-4))) {
        printf("makeFeasible (start x0=%g): x = (%g, %g, %g) violates x0+10<=x1 or x0+100<=x2 and nothing is reported unsatisfiable\n", cx[0], x0, x1, x2); bad++; }
      alg.freeAssociatedObjects();
    }
  }
  {
    // run(): every user constraint violated by the final positions must be in the unsatisfiable-constraint lists -- also when two of them
    // speak about the same pair of nodes
    vpsc::Rectangles rs; rs.push_back(new vpsc::Rectangle(0, 10, 0, 10)); rs.push_back(new vpsc::Rectangle(100, 110, 50, 60));
    std::vector<cola::Edge> es; es.push_back(cola::Edge(0, 1));
    CompoundConstraints ccs;
    AlignmentConstraint *al = new AlignmentConstraint(vpsc::XDIM); al->addShape(0, 0); al->addShape(1, 0); ccs.push_back(al);
    const double gaps[2] = { 40, 15 };
    for (int k = 0; k < 2; ++k) ccs.push_back(new SeparationConstraint(vpsc::XDIM, 0, 1, gaps[k], false));
    ConstrainedFDLayout alg(rs, es, 50); alg.setConstraints(ccs);
    UnsatisfiableConstraintInfos ux, uy; alg.setUnsatisfiableConstraintInfo(&ux, &uy);
    alg.run();
    double x0 = rs[0]->getCentreX(), x1 = rs[1]->getCentreX();
    for (int k = 0; k < 2; ++k) if (!(x0 + gaps[k] <= x1 + 1e-4)) {
      bool reported = false;
      for (size_t i = 0; i < ux.size(); ++i) if (ux[i]->leftVarIndex == 0 && ux[i]->rightVarIndex == 1 && ux[i]->separation == gaps[k]) reported = true;
      if (!reported) { printf("run(): x0 + %g <= x1 is violated by the result (x0=%g, x1=%g) and is not in the unsatisfiable-constraint list (%zu entries)\n", gaps[k], x0, x1, ux.size()); bad++; }
    }
    alg.freeAssociatedObjects();
  }
  {
    // a separation stated with a NEGATIVE gap ("r may be at most |g| before l") must reach the solver as stated
    vpsc::Variables vs; vpsc::Constraints cs; vpsc::Rectangles bbs; for (int i = 0; i < 2; ++i) vs.push_back(new vpsc::Variable(i, 0));
    SeparationConstraint neg(vpsc::XDIM, 0, 1, -30.0, false);
    neg.generateSeparationConstraints(vpsc::XDIM, vs, cs, bbs);
    if (cs.size() != 1 || cs[0]->left != vs[0] || cs[0]->right != vs[1] || cs[0]->gap != -30.0 || cs[0]->equality) {
      printf("SeparationConstraint(XDIM, 0, 1, -30): generated var%d + %g %s var%d\n", cs.empty() ? -1 : cs[0]->left->id, cs.empty() ? 0.0 : cs[0]->gap, (!cs.empty() && cs[0]->equality) ? "==" : "<=", cs.empty() ? -1 : cs[0]->right->id); bad++; }
  }
  {
    // the same constraint objects go through makeFeasible() twice (second layout over the same rectangles and constraints after a node was dragged)
    vpsc::Rectangles rs; rs.push_back(new vpsc::Rectangle(0, 10, 0, 10)); rs.push_back(new vpsc::Rectangle(60, 70, 0, 10));
    std::vector<cola::Edge> es; es.push_back(cola::Edge(0, 1));
    CompoundConstraints ccs; ccs.push_back(new SeparationConstraint(vpsc::XDIM, 0, 1, 40, false));
    { ConstrainedFDLayout first(rs, es, 50); first.setConstraints(ccs); first.makeFeasible(); }
    rs[1]->moveCentreX(rs[0]->getCentreX() - 25);                      // drag node 1 to the wrong side
    { ConstrainedFDLayout second(rs, es, 50); second.setConstraints(ccs); UnsatisfiableConstraintInfos ux, uy; second.setUnsatisfiableConstraintInfo(&ux, &uy); second.makeFeasible();
      double x0 = rs[0]->getCentreX(), x1 = rs[1]->getCentreX();
      if (ux.empty() && !(x0 + 40 <= x1 + 1e-4)) { printf("second makeFeasible() over the same constraint objects: x0 + 40 <= x1 violated (x0=%g, x1=%g), nothing reported\n", x0, x1); bad++; } }
  }
  if (bad) { printf("REPRODUCED: %d generated constraint(s) / projected coordinate(s) differ from the user constraint\n", bad); return 1; }
  printf("not reproduced\n"); return 0;
}
'''


def replay_c07(job, obl, inputs, workdir):
    libs = [build_lib(l, workdir) for l in ("libcola", "libvpsc")]
    rc, out = native_run(REPLAY_SRC, workdir, "replay_c07", extra=["-I", COLA], libs=libs, timeout=600)
    if rc is None:
        return False, out
    return rc == 1, out


def _sig_names(func):
    hdr, _ = body_of(func.text)
    m = re.search(r'const vpsc::Dim (\w+),\s*vpsc::Variables& (\w+),\s*vpsc::Constraints& (\w+),\s*vpsc::Rectangles& (\w+)\)', hdr)
    if not m:
        raise Undecided("C07: signature of %s no longer matches (dim, vars, cs, bbs)" % func.name)
    return m.groups()


def jobs(tier):
    js = []
    spec = spec_header() + rd(HERE, "compound.spec.c")
    base = "#include <verif_base.h>\n#include <vector>\n"
    dim = slice_block("libvpsc/rectangle.h", r'^enum Dim \{', "enum vpsc::Dim")
    cctor = slice_func("libvpsc/constraint.cpp", r'^Constraint::Constraint\(Variable \*left, Variable \*right, double gap, bool equality\)', "vpsc::Constraint::Constraint")
    # the default argument the 3-argument constructions rely on is read from the real header (must be present verbatim)
    cdecl = slice_region("libvpsc/constraint.h", r'^\tConstraint\(Variable \*left, Variable \*right, double gap,', r'\);', "Constraint ctor declaration")
    if re.sub(r'\s+', ' ', cdecl.text).strip() != "Constraint(Variable *left, Variable *right, double gap, bool equality = false);":
        raise Undecided("C07: the constructor declaration in constraint.h changed (default argument?): " + cdecl.text)
    vp = c01.fill(prelude("vpsc.h"), "", "", "")
    if "Constraint(Variable *left, Variable *right, double gap, bool equality = false);" not in vp:
        raise Undecided("C07: prelude/vpsc.h constructor declaration differs from the one sliced from constraint.h")
    rect = prelude("vpsc_rectangle.h").replace("@RECT_INLINES@", "")
    vpsc_part = vp + "namespace vpsc {\n" + dim.text + "\n}\n" + rect + "namespace vpsc {\n" + cctor.text + "\n}\n"
    pre0 = prelude("cola_compound.h")
    av = slice_func(CC, r'^void CompoundConstraint::assertValidVariableIndex\(const vpsc::Variables& vars,', "CompoundConstraint::assertValidVariableIndex")
    av_text = subst(av, THROW_RULES_ASSERTVALID)
    ixl = slice_func(CC, r'^        unsigned indexL\(void\) const', "VarIndexPair::indexL")
    ixr = slice_func(CC, r'^        unsigned indexR\(void\) const', "VarIndexPair::indexR")

    def pre(members):
        t = pre0
        for k in ("Boundary", "Alignment", "MultiSeparation", "Distribution", "FixedRelative", "VarIndexPair"):
            t = t.replace("@MEMBERS:%s@" % k, members.get(k, ""))
        return t

    # layout: prelude vs the real header and the real .cpp (file-local info classes)
    layout.check_layout("cola_compound", vp + "namespace vpsc {\n" + dim.text + "\n}\n" + rect + pre({}),
                        ["libcola/compound_constraints.cpp"],
                        [("cola::SubConstraintInfo", ["varIndex", "satisfied"]),
                         ("cola::CompoundConstraint", ["_primaryDim", "_secondaryDim", "_priority", "_combineSubConstraints", "_subConstraintInfo", "_currSubConstraintIndex"]),
                         ("cola::BoundaryConstraint", ["position", "variable"]),
                         ("cola::AlignmentConstraint", ["indicator", "variable", "_position", "_isFixed"]),
                         ("cola::SeparationConstraint", ["gap", "equality", "vpscConstraint"]),
                         ("cola::MultiSeparationConstraint", ["cs", "indicator", "sep", "equality"]),
                         ("cola::DistributionConstraint", ["cs", "indicator", "sep"]),
                         ("cola::FixedRelativeConstraint", ["m_fixed_position", "m_shape_vars"]),
                         ("cola::Offset", ["distOffset"]),
                         ("cola::VarIndexPair", ["lConstraint", "rConstraint", "varIndex2"]),
                         ("cola::AlignmentPair", ["alignment1", "alignment2"]),
                         ("cola::RelativeOffset", ["varIndex2", "dim", "distOffset"]),
                         ("cola::UnsatisfiableConstraintInfo", ["leftVarIndex", "rightVarIndex", "separation", "equality", "cc"])],
                        sizes=["cola::SubConstraintInfo", "cola::CompoundConstraint", "cola::AlignmentConstraint", "cola::SeparationConstraint",
                               "cola::Offset", "cola::VarIndexPair", "cola::AlignmentPair", "cola::RelativeOffset", "cola::UnsatisfiableConstraintInfo"])
    CF = ["_primaryDim", "_secondaryDim", "_priority", "_combineSubConstraints", "_subConstraintInfo", "_currSubConstraintIndex"]
    mirror = [("vpsc::Variable", "struct Variable", ["id", "desiredPosition", "finalPosition", "weight", "scale", "offset", "block", "visited", "fixedDesiredPosition", "in", "out"]),
              ("vpsc::Constraint", "struct Constraint", ["left", "right", "gap", "lm", "timeStamp", "active", "equality", "unsatisfiable", "needsScaling", "creator"]),
              ("cola::CompoundConstraint", "struct Compound", CF),
              ("cola::BoundaryConstraint", "struct Boundary", CF + ["position", "variable"]),
              ("cola::AlignmentConstraint", "struct Align", CF + ["indicator", "variable", "_position", "_isFixed"]),
              ("cola::SeparationConstraint", "struct SepC", CF + ["gap", "equality", "vpscConstraint"]),
              ("cola::MultiSeparationConstraint", "struct MultiSep", CF + ["cs", "indicator", "sep", "equality"]),
              ("cola::DistributionConstraint", "struct Distrib", CF + ["cs", "indicator", "sep"]),
              ("cola::FixedRelativeConstraint", "struct FixedRel", CF + ["m_fixed_position", "m_shape_vars"]),
              ("cola::Offset", "struct OffsetI", ["varIndex", "satisfied", "distOffset"]),
              ("cola::VarIndexPair", "struct VarPair", ["varIndex", "satisfied", "lConstraint", "rConstraint", "varIndex2"]),
              ("cola::AlignmentPair", "struct AlignPair", ["varIndex", "satisfied", "alignment1", "alignment2"]),
              ("cola::RelativeOffset", "struct RelOff", ["varIndex", "satisfied", "varIndex2", "dim", "distOffset"]),
              ("cola::UnsatisfiableConstraintInfo", "struct UInfo", ["leftVarIndex", "rightVarIndex", "separation", "equality", "cc"])]
    js.append(c01.mirror_job("#include <vector>\n" + vp + "namespace vpsc {\n" + dim.text + "\n}\n" + rect + pre({}), spec, mirror))

    def tu(members, code, wrappers):
        return (base + vpsc_part + pre(members) + NEW_HELPER + "namespace cola {\n" + av_text + "\n" + code + "\n}\n" + wrappers)

    # ---------------- SeparationConstraint::generateSeparationConstraints, whole function
    sg = slice_func(CC, r'^void SeparationConstraint::generateSeparationConstraints\(const vpsc::Dim dim,', "SeparationConstraint::generateSeparationConstraints")
    sg_text = subst(sg, [(r'new vpsc::Constraint\(', 'verif_new_Constraint(', 1),
                         (r'(assertValidVariableIndex\([^;]*\);)', r'\1 if (verif_thrown) return;', 2)])
    js.append(Job("separation", "U", spec, "h_sep_generate",
                  cxx=tu({"VarIndexPair": ixl.text + "\n" + ixr.text}, sg_text,
                         'extern "C" void w_sep_generate(void *sc, int dim, void *vs, void *cs) { vpsc::Rectangles bbs; '
                         '((cola::SeparationConstraint *)sc)->generateSeparationConstraints((vpsc::Dim)dim, *(vpsc::Variables *)vs, *(vpsc::Constraints *)cs, bbs); }\n'),
                  enforce="w_sep_generate", defines=["JOB_separation"], replay=replay_c07, slices=[sg, av, ixl, ixr, cctor, cdecl, dim], flags=["--object-bits", "12", "--sat-solver", "cadical"], backend="sat:cadical",
                  domain="every SeparationConstraint (node-index and alignment-pair forms), both dimensions, every gap (all doubles), variable lists of up to 64 entries",
                  expect=[r'w_sep_generate\.postcondition']))

    # ---------------- the five looped kinds: one job for the body (one arbitrary sub-constraint), one for the loop shell
    for key, cls, info, cm in KINDS:
        f = slice_func(CC, r'^void %s::generateSeparationConstraints\(\s*const vpsc::Dim dim,' % cls, "%s::generateSeparationConstraints" % cls)
        pdim, pvars, pcs, pbbs = _sig_names(f)
        hdr, body = fragment_loop(f, LOOP_RE, "%s::generateSeparationConstraints [loop body]" % cls)
        rules = [(r'new vpsc::Constraint\(', 'verif_new_Constraint(', 2 if key == "boundary" else 1)]
        nav = len(re.findall(r'assertValidVariableIndex\(', strip_comments(body.text)))
        if nav:
            rules.append((r'(assertValidVariableIndex\([^;]*\);)', r'\1 if (verif_thrown) return;', nav))
        nth = len(re.findall(r'throw InvalidConstraint\(this\);', strip_comments(body.text)))
        if nth:
            rules.append((r'throw InvalidConstraint\(this\);', '{ verif_thrown = 1; return; }', nth))
        body_orig = body.text
        body.text = subst(body, rules)
        mk = {"boundary": "Boundary", "alignment": "Alignment", "multiseparation": "MultiSeparation", "distribution": "Distribution", "fixedrelative": "FixedRelative"}[key]
        decl = "        void verif_body(SubConstraintInfoList::iterator o, const vpsc::Dim %s, vpsc::Variables& %s, vpsc::Constraints& %s);\n" % (pdim, pvars, pcs)
        code = ("void %s::verif_body(SubConstraintInfoList::iterator o, const vpsc::Dim %s, vpsc::Variables& %s, vpsc::Constraints& %s)\n" % (cls, pdim, pvars, pcs) +
                body_continue_to_return(body))
        wr = ('extern "C" void w_body(void *self, void *slot, int dim, void *vars, void *cs) { ((cola::%s *)self)->verif_body('
              '(cola::SubConstraintInfo **)slot, (vpsc::Dim)dim, *(vpsc::Variables *)vars, *(vpsc::Constraints *)cs); }\n' % cls)
        js.append(Job("%s_body" % key, "U", spec, "h_body", cxx=tu({mk: decl}, code, wr), enforce="w_body", replay=replay_c07,
                      defines=["JOB_%s_body" % key, "JOB_BODY"], slices=[f, body, av, cctor, cdecl], flags=["--object-bits", "12", "--sat-solver", "cadical"], backend="sat:cadical",
                      domain="one arbitrary sub-constraint of one arbitrary %s, every offset/gap (all doubles), variable lists of up to 64 entries" % cls,
                      expect=[r'w_body\.postcondition']))
        # ---- loop shell: the body is replaced textually (exactly one occurrence) by a counting visit behind a contract
        if f.text.count(body_orig) != 1:
            raise Undecided("C07: loop body of %s not found exactly once in its function" % cls)
        _, fbody = body_of(f.text.replace(body_orig, "{ w_visit((void *)this, (void *)o); }"))
        sdecl = "        void verif_shell();\n"
        scode = ("void %s::verif_shell()\n{ const vpsc::Dim %s = (vpsc::Dim)verif_g_dim; vpsc::Variables& %s = *(vpsc::Variables *)verif_g_vars; "
                 "vpsc::Constraints& %s = *(vpsc::Constraints *)verif_g_cs; vpsc::Rectangles verif_bbs; vpsc::Rectangles& %s = verif_bbs;\n" % (cls, pdim, pvars, pcs, pbbs) +
                 fbody + "\n}\n")
        swr = ('extern "C" void w_shell(void *self, int dim, void *vars, void *cs) { verif_g_dim = dim; verif_g_vars = vars; verif_g_cs = cs; ((cola::%s *)self)->verif_shell(); }\n' % cls)
        this_vec = "((struct{void*vptr;int a;int b;unsigned c;_Bool e;void*d;unsigned long n;unsigned long cap;}__attribute__((packed))*)this)"
        sym = "cola::%s::verif_shell(this)" % cls
        inv = ("__CPROVER_same_object(o, {T}->d) && verif_visited <= {T}->n && "
               "(char *)o == (char *){T}->d + 8 * verif_visited").replace("{T}", this_vec)
        active = "1" if key == "fixedrelative" else "dim == CC(self)->_primaryDim"
        req = {"boundary": "((struct Boundary *)self)->variable != (void *)0", "alignment": "((struct Align *)self)->variable != (void *)0"}.get(key, "1")
        # the member list `cs` of the two kinds that keep one may be emptied before the loop (Distribution does; doing so in MultiSeparation is harmless)
        extra_assigns = {"distribution": ", ((struct Distrib *)self)->cs.n", "multiseparation": ", ((struct MultiSep *)self)->cs.n"}.get(key, "")
        js.append(Job("%s_shell" % key, "U", spec, "h_shell",
                      cxx=(base + 'extern "C" { int verif_g_dim; void *verif_g_vars; void *verif_g_cs; void w_visit(void *, void *); }\n' +
                           vpsc_part + pre({mk: sdecl}) + "namespace cola {\n" + scode + "\n}\n" + swr),
                      enforce="w_shell", replace=["w_visit"], replay=replay_c07,
                      defines=["JOB_SHELL", "SHELL_SIZE=sizeof(struct %s)" % cm, "SHELL_ACTIVE=(%s)" % active, "SHELL_EXTRA_REQ=(%s)" % req,
                               "SHELL_EXTRA_ASSIGNS=%s" % extra_assigns],
                      slices=[f, body], flags=["--object-bits", "12", "--sat-solver", "cadical"], backend="sat:cadical",
                      loops=loops_file([loop_contract(sym, 0, inv, "o, verif_visited, verif_last_slot", "%s->n - verif_visited" % this_vec,
                                                      {"o": "1::1::1::o" if key != "fixedrelative" else "1::1::o", "this": "this"})]),
                      domain="every %s with up to 10^6 sub-constraints, both dimensions" % cls,
                      expect=[r'w_shell\.postcondition', r'loop_invariant_base', r'loop_invariant_step', r'loop_decreases', r'precondition']))
    # ---------------- generateVariables of the two kinds that own a guide-line variable: it is appended with its index as id
    # (SeparationConstraint between alignments and the Multi/Distribution kinds find the guide lines through that id / pointer)
    vctor = slice_func("libvpsc/variable.h", r'^\s*inline Variable\(const int id, const double desiredPos=-1\.0,', "vpsc::Variable::Variable")
    fw = slice_lines("libcola/compound_constraints.h", r'^static const double freeWeight = [0-9.eE+-]+;', 1, "freeWeight")
    vp_ctor = c01.fill(prelude("vpsc.h"), vctor.text, "", "")
    vpsc_ctor_part = vp_ctor + "namespace vpsc {\n" + dim.text + "\n}\n" + rect + "namespace vpsc {\n" + cctor.text + "\n}\n"
    NEWV = ("// `new vpsc::Variable(args)` substituted (must-fire) by malloc + the REAL inline constructor on a temporary + field-wise copy\n"
            "static vpsc::Variable *verif_new_Variable(const int id, const double pos, const double w) { vpsc::Variable t(id, pos, w);\n"
            "  vpsc::Variable *p = (vpsc::Variable *)malloc(sizeof(vpsc::Variable)); __CPROVER_assume(p != 0);\n"
            "  p->id = t.id; p->desiredPosition = t.desiredPosition; p->finalPosition = t.finalPosition; p->weight = t.weight; p->scale = t.scale; p->offset = t.offset;\n"
            "  p->block = t.block; p->visited = t.visited; p->fixedDesiredPosition = t.fixedDesiredPosition; return p; }\n")
    for key, cls, cm, mk in (("alignment", "AlignmentConstraint", "Align", "Alignment"), ("boundary", "BoundaryConstraint", "Boundary", "Boundary")):
        gv = slice_func(CC, r'^void %s::generateVariables\(const vpsc::Dim dim,' % cls, "%s::generateVariables" % cls)
        gv_text = subst(gv, [(r'new vpsc::Variable\(', 'verif_new_Variable(', 1)])
        gcxx = (base + vpsc_ctor_part + pre({mk: "        void generateVariables(const vpsc::Dim dim, vpsc::Variables& vars);\n"}) + 'extern "C" void *malloc(size_t);\n' + NEWV +
                "namespace cola {\n" + fw.text + "\n" + gv_text + "\n}\n"
                'extern "C" void w_genvars(void *self, int dim, void *vars) { ((cola::%s *)self)->generateVariables((vpsc::Dim)dim, *(vpsc::Variables *)vars); }\n' % cls)
        js.append(Job("%s_generateVariables" % key, "U", spec, "h_genvars", cxx=gcxx, enforce="w_genvars", replay=replay_c07,
                      defines=["JOB_genvars", "GV_%s" % cm], slices=[gv, vctor, fw], flags=["--object-bits", "12", "--sat-solver", "cadical"], backend="sat:cadical",
                      domain="every %s, both dimensions, every position (all doubles), variable lists of up to 63 entries" % cls,
                      expect=[r'w_genvars\.postcondition']))
    # ---------------- project(): the coordinates handed back are the solver's final positions, read AFTER solve() (C01 carries the rest)
    CF_ = "libcola/colafd.cpp"
    pj = slice_func(CF_, r'^void project\(vpsc::Variables& vs, vpsc::Constraints& cs, valarray<double>& coords\)', "project")
    _, pj_body = body_of(pj.text)
    standin = ("// stand-in for vpsc::IncSolver: construction and solve() forward to contracts (C01 is the property about what solve() achieves)\n"
               "class IncSolver { public: char _opaque[256];\n"
               "    IncSolver(Variables const &vs, Constraints const &cs) { w_IncSolver_ctor((void *)this, (void *)&vs, (void *)&cs); }\n"
               "    bool solve() { return w_IncSolver_solve((void *)this); } };\n")
    vp_pj = (prelude("vpsc.h").replace("@SOLVER_CLASSES@", standin).replace("@SLICE:Variable::position@", "").replace("@SLICE:Variable::unscaledPosition@", "")
             .replace("@SLICE:Constraint::slack@", "").replace("@BLOCK_EXTRA@", ""))
    pj_cxx = (base + "#include <valarray>\nusing std::valarray;\n"
              'extern "C" { void w_IncSolver_ctor(void *s, void *vs, void *cs); bool w_IncSolver_solve(void *s); void *verif_g_vars, *verif_g_cs, *verif_g_coords; }\n' + vp_pj +
              "namespace cola {\n// the body of project() under its real parameter names (parameterless: loop-contract symbols must not contain commas)\n"
              "void verif_project()\n{ vpsc::Variables& vs = *(vpsc::Variables *)verif_g_vars; vpsc::Constraints& cs = *(vpsc::Constraints *)verif_g_cs; "
              "valarray<double>& coords = *(valarray<double> *)verif_g_coords;\n" + pj_body + "\n}\n}\n"
              'extern "C" void w_project(void *vs, void *cs, void *coords, size_t K) { verif_g_vars = vs; verif_g_cs = cs; verif_g_coords = coords; cola::verif_project(); }\n')
    pj_hdr, pj_loop = fragment_loop(pj, r'for\(unsigned i=0;i<n;\+\+i\)', "project [copy-back loop body]")
    if pj.text.count(pj_loop.text) != 1:
        raise Undecided("C07: project(): loop body not found exactly once")
    _, pj_shell_body = body_of(pj.text.replace(pj_loop.text, "{ w_copy_visit(i); }"))
    def pj_tu(fn_text, wrapper):
        return (base + "#include <valarray>\nusing std::valarray;\n"
                'extern "C" { void w_IncSolver_ctor(void *s, void *vs, void *cs); bool w_IncSolver_solve(void *s); void w_copy_visit(unsigned i); '
                'void *verif_g_vars, *verif_g_cs, *verif_g_coords; }\n' + vp_pj + "namespace cola {\n" + fn_text + "\n}\n" + wrapper)
    shell_fn = ("// the body of project() under its real parameter names (parameterless: loop-contract symbols must not contain commas);\n"
                "// the copy-back statement is replaced (exactly one occurrence) by a counting visit behind a contract that demands solve() has run\n"
                "void verif_project()\n{ vpsc::Variables& vs = *(vpsc::Variables *)verif_g_vars; vpsc::Constraints& cs = *(vpsc::Constraints *)verif_g_cs; "
                "valarray<double>& coords = *(valarray<double> *)verif_g_coords;\n" + pj_shell_body + "\n}\n")
    js.append(Job("project_shell", "U", spec, "h_project", enforce="w_project", replace=["w_IncSolver_ctor", "w_IncSolver_solve", "w_copy_visit"],
                  cxx=pj_tu(shell_fn, 'extern "C" void w_project(void *vs, void *cs, void *coords) { verif_g_vars = vs; verif_g_cs = cs; verif_g_coords = coords; cola::verif_project(); }\n'),
                  defines=["JOB_project"], slices=[pj, pj_loop], flags=["--object-bits", "12", "--sat-solver", "cadical"], backend="sat:cadical", replay=replay_c07,
                  loops=loops_file([loop_contract("cola::verif_project()", 0, "i <= n && verif_visited == i", "i, verif_visited", "n - i", {"i": "1::1::i", "n": "1::n"})]),
                  domain="every number of coordinates up to 2^32-1; IncSolver construction and solve() behind contracts",
                  expect=[r'w_project\.postcondition', r'loop_invariant_base', r'loop_invariant_step', r'loop_decreases', r'precondition']))
    body_fn = ("static void verif_project_body(vpsc::Variables& vs, valarray<double>& coords, unsigned i)\n" + pj_loop.text + "\n")
    js.append(Job("project_body", "U", spec, "h_project_body", enforce="w_project_body",
                  cxx=pj_tu(body_fn, 'extern "C" void w_project_body(void *vs, void *coords, unsigned i) { cola::verif_project_body(*(vpsc::Variables *)vs, *(valarray<double> *)coords, i); }\n'),
                  defines=["JOB_project_body"], slices=[pj, pj_loop], flags=["--object-bits", "12", "--sat-solver", "cadical"], backend="sat:cadical", replay=replay_c07,
                  domain="one arbitrary index below the number of coordinates, every final position (all doubles)",
                  expect=[r'w_project_body\.postcondition']))
    # ---------------- checkUnsatisfiable(): every constraint the solver flagged is reported, as itself, with its maker
    cu = slice_func(CF_, r'^void checkUnsatisfiable\(const vpsc::Constraints& cs,', "checkUnsatisfiable")
    uctor = slice_func(CC, r'^UnsatisfiableConstraintInfo::UnsatisfiableConstraintInfo\(', "UnsatisfiableConstraintInfo::UnsatisfiableConstraintInfo")
    cu_hdr, cu_loop = fragment_loop(cu, r'for\(vpsc::Constraints::const_iterator c=cs\.begin\(\);c!=cs\.end\(\);\+\+c\)', "checkUnsatisfiable [loop body]")
    if cu.text.count(cu_loop.text) != 1:
        raise Undecided("C07: checkUnsatisfiable(): loop body not found exactly once")
    _, cu_shell_body = body_of(cu.text.replace(cu_loop.text, "{ w_visit((void *)0, (void *)c); }"))
    cu_body_text = subst(cu_loop, [(r'new UnsatisfiableConstraintInfo\(', 'verif_new_UInfo(', 1)])
    NEWU = ("// `new UnsatisfiableConstraintInfo(c)` substituted (must-fire) by malloc + the REAL constructor on a temporary + field-wise copy\n"
            "static cola::UnsatisfiableConstraintInfo *verif_new_UInfo(const vpsc::Constraint *c) { cola::UnsatisfiableConstraintInfo t(c);\n"
            "  cola::UnsatisfiableConstraintInfo *p = (cola::UnsatisfiableConstraintInfo *)malloc(sizeof(cola::UnsatisfiableConstraintInfo)); __CPROVER_assume(p != 0);\n"
            "  p->leftVarIndex = t.leftVarIndex; p->rightVarIndex = t.rightVarIndex; p->separation = t.separation; p->equality = t.equality; p->cc = t.cc; return p; }\n")
    cub_cxx = (base + vpsc_part + pre({}) + 'extern "C" void *malloc(size_t);\nnamespace cola {\n' + uctor.text + "\n}\n" + NEWU +
               "namespace cola {\n/*@CLOSURE@*/\nstatic void verif_checkUnsat_body(vpsc::Constraints::const_iterator c, UnsatisfiableConstraintInfos* unsatisfiable)\n" + cu_body_text + "\n}\n"
               'extern "C" void w_unsat_body(void *slot, void *out) { cola::verif_checkUnsat_body((vpsc::Constraint *const *)slot, (cola::UnsatisfiableConstraintInfos *)out); }\n')
    js.append(Job("checkUnsatisfiable_body", "U", spec, "h_unsat_body", cxx=cub_cxx, enforce="w_unsat_body", defines=["JOB_unsat_body"], slices=[cu, cu_loop, uctor], replay=replay_c07,
                  flags=["--object-bits", "12", "--sat-solver", "cadical"], backend="sat:cadical", closure_file=CF_, unwind=6,
                  note="report list with up to 3 earlier entries (capacity 4); the body has no loop of its own -- the unwinding bound only matters if a change under test adds one",
                  domain="one arbitrary constraint, flagged or not, every gap (all doubles), variable ids >= 0", expect=[r'w_unsat_body\.postcondition']))
    cus_cxx = (base + 'extern "C" { void *verif_g_cs, *verif_g_out; void w_visit(void *, void *); }\n' + vpsc_part + pre({}) +
               "namespace cola {\nvoid verif_checkUnsat_shell()\n{ const vpsc::Constraints& cs = *(const vpsc::Constraints *)verif_g_cs; "
               "UnsatisfiableConstraintInfos* unsatisfiable = (UnsatisfiableConstraintInfos *)verif_g_out;\n" + cu_shell_body + "\n}\n}\n"
               'extern "C" void w_unsat_shell(void *cs, void *out) { verif_g_cs = cs; verif_g_out = out; cola::verif_checkUnsat_shell(); }\n')
    vec_cs = "((struct{void*d;unsigned long n;unsigned long cap;}__attribute__((packed))*)verif_g_cs)"
    js.append(Job("checkUnsatisfiable_shell", "U", spec, "h_unsat_shell", cxx=cus_cxx, enforce="w_unsat_shell", replace=["w_visit"], defines=["JOB_unsat_shell"],
                  slices=[cu, cu_loop], flags=["--object-bits", "12", "--sat-solver", "cadical"], backend="sat:cadical", replay=replay_c07,
                  loops=loops_file([loop_contract("cola::verif_checkUnsat_shell()", 0,
                                                  "__CPROVER_same_object(c, {V}->d) && verif_visited <= {V}->n && (char *)c == (char *){V}->d + 8 * verif_visited".replace("{V}", vec_cs),
                                                  "c, verif_visited, verif_last_slot", "%s->n - verif_visited" % vec_cs, {"c": "1::1::c"})]),
                  domain="every constraint list of up to 10^6 entries", expect=[r'w_unsat_shell\.postcondition', r'loop_invariant_base', r'loop_invariant_step', r'loop_decreases']))
    # ---------------- the majorization path (gradient_projection.cpp): runSolver's copy-back after satisfy(), destroyVPSC's report of flagged constraints
    GP = "libcola/gradient_projection.cpp"
    rsv = slice_func(GP, r'^bool GradientProjection::runSolver\(valarray<double> & result\)', "GradientProjection::runSolver")
    rs_frag = fragment_between(rsv, r'activeConstraints = solver->satisfy\(\);', r'break;\s*case Inner:', "GradientProjection::runSolver [case Off: satisfy and copy back]")
    _, rs_loop = fragment_loop(rs_frag, r'for \(unsigned i=0;i<vars\.size\(\);i\+\+\)', "GradientProjection::runSolver [copy-back loop body]")
    if rs_frag.text.count(rs_loop.text) != 1:
        raise Undecided("C07: runSolver: loop body not found exactly once")
    standin2 = ("class IncSolver { public: char _opaque[256]; bool satisfy() { return w_IncSolver_solve((void *)this); } };\n")
    vp_gp = (prelude("vpsc.h").replace("@SOLVER_CLASSES@", standin2).replace("@SLICE:Variable::position@", "").replace("@SLICE:Variable::unscaledPosition@", "")
             .replace("@SLICE:Constraint::slack@", "").replace("@BLOCK_EXTRA@", ""))
    gp_head = (base + "#include <valarray>\nusing std::valarray;\n"
               'extern "C" { bool w_IncSolver_solve(void *s); void w_copy_visit(unsigned i); void w_visit(void *, void *); void *malloc(size_t); '
               'void *verif_g_vars, *verif_g_cs, *verif_g_coords, *verif_g_solver, *verif_g_out; }\n')
    rs_shell = ("namespace vpsc {\nvoid verif_runSolver_off()\n{ bool activeConstraints = false; IncSolver *solver = (IncSolver *)verif_g_solver; "
                "Variables& vars = *(Variables *)verif_g_vars; valarray<double>& result = *(valarray<double> *)verif_g_coords;\n" +
                rs_frag.text.replace(rs_loop.text, "{ w_copy_visit(i); }") + "\n}\n}\n"
                'extern "C" void w_runSolver_off(void *solver, void *vars, void *result) { verif_g_solver = solver; verif_g_vars = vars; verif_g_coords = result; vpsc::verif_runSolver_off(); }\n')
    VARSV = "((struct{void*d;unsigned long n;unsigned long cap;}__attribute__((packed))*)verif_g_vars)"
    js.append(Job("runSolver_shell", "U", spec, "h_runSolver", enforce="w_runSolver_off", replace=["w_IncSolver_solve", "w_copy_visit"], cxx=gp_head + vp_gp + rs_shell,
                  defines=["JOB_runSolver"], slices=[rsv, rs_frag, rs_loop], flags=["--object-bits", "12", "--sat-solver", "cadical"], backend="sat:cadical",
                  loops=loops_file([loop_contract("vpsc::verif_runSolver_off()", 0, "i <= %s->n && verif_visited == i" % VARSV, "i, verif_visited", "%s->n - i" % VARSV, {"i": "1::1::i"})]),
                  domain="every number of variables up to 2^32-1; IncSolver::satisfy behind a contract",
                  expect=[r'w_runSolver_off\.postcondition', r'loop_invariant_base', r'loop_invariant_step', r'loop_decreases', r'precondition']))
    rs_body = ("namespace vpsc {\nstatic void verif_runSolver_body(Variables& vars, valarray<double>& result, unsigned i)\n" + rs_loop.text + "\n}\n"
               'extern "C" void w_project_body(void *vs, void *coords, unsigned i) { vpsc::verif_runSolver_body(*(vpsc::Variables *)vs, *(valarray<double> *)coords, i); }\n')
    js.append(Job("runSolver_body", "U", spec, "h_project_body", enforce="w_project_body", cxx=gp_head + vp_gp + rs_body, defines=["JOB_project_body"], slices=[rsv, rs_loop],
                  flags=["--object-bits", "12", "--sat-solver", "cadical"], backend="sat:cadical",
                  domain="one arbitrary index, every final position (all doubles)", expect=[r'w_project_body\.postcondition']))
    dv = slice_func(GP, r'^void GradientProjection::destroyVPSC\(IncSolver \*vpsc\)', "GradientProjection::destroyVPSC")
    dv_frag = fragment_between(dv, r'if\(unsatisfiableConstraints\) \{\s*unsatisfiableConstraints->clear\(\);', r'if\(clusterHierarchy\) \{', "GradientProjection::destroyVPSC [report of unsatisfiable constraints]")
    _, dv_loop = fragment_loop(dv_frag, r'for\(Constraints::iterator i=cs\.begin\(\);i!=cs\.end\(\);i\+\+\)', "GradientProjection::destroyVPSC [report loop body]")
    if dv_frag.text.count(dv_loop.text) != 1:
        raise Undecided("C07: destroyVPSC: loop body not found exactly once")
    gp_cola = vpsc_part + pre({})
    dv_shell = ("namespace vpsc {\nusing cola::UnsatisfiableConstraintInfo; using cola::UnsatisfiableConstraintInfos;\nvoid verif_destroy_report()\n{ Constraints& cs = *(Constraints *)verif_g_cs; "
                "UnsatisfiableConstraintInfos *unsatisfiableConstraints = (UnsatisfiableConstraintInfos *)verif_g_out;\n" +
                dv_frag.text.replace(dv_loop.text, "{ w_visit((void *)0, (void *)i); }") + "\n}\n}\n"
                'extern "C" void w_unsat_shell(void *cs, void *out) { verif_g_cs = cs; verif_g_out = out; vpsc::verif_destroy_report(); }\n')
    js.append(Job("destroyVPSC_report_shell", "U", spec, "h_unsat_shell", cxx=gp_head + gp_cola + dv_shell, enforce="w_unsat_shell", replace=["w_visit"],
                  defines=["JOB_unsat_shell", "UNSAT_GP"], slices=[dv, dv_frag, dv_loop], flags=["--object-bits", "12", "--sat-solver", "cadical"], backend="sat:cadical",
                  loops=loops_file([loop_contract("vpsc::verif_destroy_report()", 0,
                                                  "__CPROVER_same_object(i, {V}->d) && verif_visited <= {V}->n && (char *)i == (char *){V}->d + 8 * verif_visited".replace("{V}", vec_cs),
                                                  "i, verif_visited, verif_last_slot", "%s->n - verif_visited" % vec_cs, {"i": "1::1::1::i"})]),
                  domain="every constraint list of up to 10^6 entries; with and without a report list",
                  expect=[r'w_unsat_shell\.postcondition', r'loop_invariant_base', r'loop_invariant_step', r'loop_decreases']))
    dv_body_text = subst(dv_loop, [(r'new UnsatisfiableConstraintInfo\(', 'verif_new_UInfo(', 1)])
    dv_body = ("namespace cola {\n" + uctor.text + "\n}\n" + NEWU + "namespace vpsc {\nusing cola::UnsatisfiableConstraintInfo; using cola::UnsatisfiableConstraintInfos;\n"
               "static void verif_destroy_body(Constraints::iterator i, UnsatisfiableConstraintInfos *unsatisfiableConstraints)\n" + dv_body_text + "\n}\n"
               'extern "C" void w_unsat_body(void *slot, void *out) { vpsc::verif_destroy_body((vpsc::Constraint **)slot, (cola::UnsatisfiableConstraintInfos *)out); }\n')
    js.append(Job("destroyVPSC_report_body", "U", spec, "h_unsat_body", cxx=gp_head + gp_cola + dv_body, enforce="w_unsat_body", defines=["JOB_unsat_body"],
                  slices=[dv, dv_loop, uctor], flags=["--object-bits", "12", "--sat-solver", "cadical"], backend="sat:cadical",
                  domain="one arbitrary constraint, flagged or not, every gap (all doubles), variable ids >= 0", expect=[r'w_unsat_body\.postcondition']))
    # ---------------- makeFeasible: after each tentative alternative, a flag on ANY constraint of the valid set means "roll this alternative back"
    mf = slice_func(CF_, r'^void ConstrainedFDLayout::makeFeasible\(double xBorder, double yBorder\)', "ConstrainedFDLayout::makeFeasible")
    _, mf_while = fragment_loop(mf, r'while \(!alternatives\.empty\(\)\)', "makeFeasible [body of the loop over alternatives]")
    scan = items_between(mf_while, r'^catch \(char \*str\)', r'^if \(!subConstraintSatisfiable\)',
                         "makeFeasible [between the solve attempt and the roll-back decision: scan of the valid set for unsatisfiable flags]")
    scan_cxx = (base + vpsc_part + "namespace cola {\n// the fragment's free variables with the types they have in makeFeasible\n"
                "static bool verif_flag_scan(vpsc::Constraints valid[], vpsc::Dim& dim, bool subConstraintSatisfiable)\n{\n" + scan.text + "\n    return subConstraintSatisfiable;\n}\n}\n"
                'extern "C" int w_flag_scan(void *valid, int *dim, int sat) { return cola::verif_flag_scan((vpsc::Constraints *)valid, *(vpsc::Dim *)dim, sat != 0) ? 1 : 0; }\n')
    js.append(Job("makeFeasible_flag_scan", "B", spec, "h_flag_scan", cxx=scan_cxx, defines=["JOB_flag_scan"], slices=[mf, mf_while, scan], unwind=5,
                  flags=["--sat-solver", "cadical"], backend="sat:cadical", replay=replay_c07,
                  bound="valid sets of 1 to 4 constraints in the dimension at hand (loops unwound 5 times with unwinding assertions); every combination of flags",
                  domain="both dimensions, every combination of unsatisfiable flags, with and without an earlier failure (exception path)",
                  expect=[r'h_flag_scan\.assertion'],
                  note="anchored on the neighbouring statements (the catch block before, the roll-back `if` after), so a rewritten scan is still extracted"))
    # the same scan for ANY size of the valid set: loop contract with a ghost constraint index.  "Element i of the valid set is object i of a pool of
    # distinct live constraints" is a quantified precondition; it is instantiated at each element access through the stub vector's element hook.
    # This job needs the scan to still be one loop; the bounded job above does not.
    scan0_cxx = ("#define VERIF_VECTOR_ELEMENT_HOOK\n" + base + 'extern "C" { void *verif_g_valid; int verif_g_dim; int verif_g_sat; void *verif_pool; }\n' + vpsc_part +
                 "// instantiation of: for all i, valid[dim][i] == &pool[i]\n"
                 'extern "C" void verif_vector_element_hook(const void *vec, size_t i, const void *slot) {\n'
                 "  if (vec == (const void *)((vpsc::Constraints *)verif_g_valid + verif_g_dim)) {\n"
                 "    __CPROVER_assume(*(vpsc::Constraint *const *)slot == (vpsc::Constraint *)verif_pool + i);\n"
                 "    // CBMC resolves a dereference through its points-to sets, which an assumption does not extend: store the value the slot is assumed to hold\n"
                 "    *(vpsc::Constraint **)slot = (vpsc::Constraint *)verif_pool + i; } }\n"
                 "namespace cola {\nint verif_flag_scan0()\n{ vpsc::Constraints *valid = (vpsc::Constraints *)verif_g_valid; vpsc::Dim verif_dim = (vpsc::Dim)verif_g_dim; vpsc::Dim& dim = verif_dim; "
                 "bool subConstraintSatisfiable = verif_g_sat != 0;\n" + scan.text + "\n    return subConstraintSatisfiable ? 1 : 0;\n}\n}\n"
                 'extern "C" int w_flag_scan0(void *valid, int dim, int sat, unsigned long K) { verif_g_valid = valid; verif_g_dim = dim; verif_g_sat = sat; return cola::verif_flag_scan0(); }\n')
    VD = "((struct{void*d;unsigned long n;unsigned long cap;}__attribute__((packed))*)verif_g_valid)[verif_g_dim]"
    KF = "((struct{void*l;void*r;double g;double lm;long ts;_Bool a;_Bool e;_Bool unsat;_Bool ns;void*cr;}__attribute__((packed))*)verif_pool)[verif_K_idx].unsat"
    js.append(Job("makeFeasible_flag_scan_any_size", "U", spec, "h_flag_scan0", cxx=scan0_cxx, enforce="w_flag_scan0", defines=["JOB_flag_scan0"], slices=[mf, mf_while, scan],
                  flags=["--sat-solver", "cadical"], backend="sat:cadical", replay=replay_c07,
                  loops=loops_file([loop_contract("cola::verif_flag_scan0()", 0,
                                                  ("i <= %s.n && (verif_K_idx < i ==> !%s) && (verif_K_idx >= i ==> ((%s != 0) == (verif_K_flag0 != 0))) && "
                                                   "((verif_K_idx < i && verif_K_flag0) ==> !subConstraintSatisfiable) && (!verif_g_sat ==> !subConstraintSatisfiable)") % (VD, KF, KF),
                                                  "i, subConstraintSatisfiable, __CPROVER_object_whole(verif_pool), __CPROVER_object_whole(%s.d)" % VD, "%s.n - i" % VD,
                                                  {"i": "1::1::i", "subConstraintSatisfiable": "1::subConstraintSatisfiable"})]),
                  domain="valid sets of up to 1000 constraints (a pool of distinct live objects), both dimensions, ghost constraint index K",
                  expect=[r'w_flag_scan0\.postcondition', r'loop_invariant_base', r'loop_invariant_step', r'loop_decreases']))
    # ---------------- SeparationConstraint: what the user states when CONSTRUCTING it is what generateSeparationConstraints hands to VPSC
    # (both constructor forms; the constructor's body runs on an object whose members hold what the initialiser list -- checked textually -- gives them)
    vip = slice_block(CC, r'^class VarIndexPair : public SubConstraintInfo', "class VarIndexPair")
    sci2 = slice_func("libcola/compound_constraints.h", r'^\s*SubConstraintInfo\(unsigned ind\) :', "SubConstraintInfo::SubConstraintInfo")
    pre_ctor2 = pre({}).replace("class SubConstraintInfo {\n    public:\n", "class SubConstraintInfo {\n    public:\n" + sci2.text +
                                "\n        SubConstraintInfo() {}   // only so that the other prelude classes derived from it still compile; never called\n")
    a_ = pre_ctor2.index("class VarIndexPair : public SubConstraintInfo {"); b_ = pre_ctor2.index("};", a_) + 2
    pre_ctor2 = (pre_ctor2[:a_] + "class VariableIDMap { public: unsigned mappingForVariable(const unsigned index, bool forward) const; };\n" + vip.text + ";\n" + pre_ctor2[b_:]).replace("class VariableIDMap;\n", "", 1)
    ctor_jobs = []
    for form, sigre, params, ltype in (("nodes", r'^SeparationConstraint::SeparationConstraint\(const vpsc::Dim dim,\s*unsigned l, unsigned r, double g, bool equality\)',
                                        "const vpsc::Dim dim, unsigned l, unsigned r, double g, bool equality", "unsigned"),
                                       ("alignments", r'^SeparationConstraint::SeparationConstraint\(const vpsc::Dim dim,\s*AlignmentConstraint \*l, AlignmentConstraint \*r, double g,\s*bool equality\)',
                                        "const vpsc::Dim dim, AlignmentConstraint *l, AlignmentConstraint *r, double g, bool equality", "AlignmentConstraint *")):
        sc_ctor = slice_func(CC, sigre, "SeparationConstraint::SeparationConstraint [%s form]" % form)
        chdr, cbody_ = body_of(sc_ctor.text)
        if not (re.search(r'\bgap\(g\)', chdr) and re.search(r'\bequality\(equality\)', chdr) and re.search(r':\s*CompoundConstraint\(dim\)', chdr)):
            raise Undecided("C07: initialiser list of SeparationConstraint's constructor (%s form) changed: %s" % (form, chdr.strip()[-200:]))
        ctor_jobs.append((form, sc_ctor, params, cbody_))
    members = "".join("        void verif_ctor_body_%s(%s);\n" % (f_, p_) for f_, _, p_, _ in ctor_jobs)
    pre_ctor3 = pre_ctor2.replace("        vpsc::Constraint *vpscConstraint;\n};", "        vpsc::Constraint *vpscConstraint;\n" + members + "};", 1)
    if pre_ctor3 == pre_ctor2:
        raise Undecided("C07: prelude/cola_compound.h: end of class SeparationConstraint not found")
    sgc = slice_func(CC, r'^void SeparationConstraint::generateSeparationConstraints\(const vpsc::Dim dim,', "SeparationConstraint::generateSeparationConstraints")
    sgc_text = subst(sgc, [(r'(assertValidVariableIndex\([^;]*\);)', r'\1 if (verif_thrown) return;', 2)])
    ct_cxx = (base + "#include <algorithm>\n" + vpsc_part + pre_ctor3 + 'extern "C" void *malloc(size_t);\nnamespace cola {\n' + av_text + "\n" + sgc_text + "\n" +
              "".join("void SeparationConstraint::verif_ctor_body_%s(%s)\n{%s}\n" % (f_, p_, b_) for f_, _, p_, b_ in ctor_jobs) + "}\n"
              "// the scene lives on the C++ side; the C harness drives it through these functions\n"
              "static cola::SeparationConstraint *verif_sc; static vpsc::Variable *verif_var[6]; static vpsc::Variables verif_vs; static vpsc::Constraints verif_cs; static cola::AlignmentConstraint *verif_al[2];\n"
              'extern "C" void verif_scene(int dim, double g, int eq) {\n'
              "  verif_sc = (cola::SeparationConstraint *)malloc(sizeof(cola::SeparationConstraint)); __CPROVER_assume(verif_sc != 0);\n"
              "  verif_sc->_primaryDim = (vpsc::Dim)dim; verif_sc->gap = g; verif_sc->equality = eq != 0; verif_sc->vpscConstraint = 0;      // as the initialiser list leaves them\n"
              "  verif_sc->_subConstraintInfo._d = (cola::SubConstraintInfo **)malloc(4 * sizeof(void *)); verif_sc->_subConstraintInfo._n = 0; verif_sc->_subConstraintInfo._cap = 4;\n"
              "  for (int i = 0; i < 6; ++i) { verif_var[i] = (vpsc::Variable *)malloc(sizeof(vpsc::Variable)); verif_var[i]->id = i; }\n"
              "  verif_vs._d = verif_var; verif_vs._n = 6; verif_vs._cap = 6; verif_cs._d = (vpsc::Constraint **)malloc(4 * sizeof(void *)); verif_cs._n = 0; verif_cs._cap = 4;\n"
              "  for (int k = 0; k < 2; ++k) { verif_al[k] = (cola::AlignmentConstraint *)malloc(sizeof(cola::AlignmentConstraint)); verif_al[k]->variable = verif_var[4 + k]; } }\n"
              'extern "C" void w_ctor_nodes(int dim, unsigned l, unsigned r, double g, int eq) { verif_sc->verif_ctor_body_nodes((vpsc::Dim)dim, l, r, g, eq != 0); }\n'
              'extern "C" void w_ctor_alignments(int dim, int swapped, double g, int eq) { verif_sc->verif_ctor_body_alignments((vpsc::Dim)dim, verif_al[swapped ? 1 : 0], verif_al[swapped ? 0 : 1], g, eq != 0); }\n'
              'extern "C" void w_generate(int dim) { vpsc::Rectangles bbs; verif_sc->generateSeparationConstraints((vpsc::Dim)dim, verif_vs, verif_cs, bbs); }\n'
              'extern "C" unsigned long verif_ncs(void) { return verif_cs._n; }\n'
              'extern "C" int verif_c_left(void) { return verif_cs._d[0]->left->id; }\nextern "C" int verif_c_right(void) { return verif_cs._d[0]->right->id; }\n'
              'extern "C" double verif_c_gap(void) { return verif_cs._d[0]->gap; }\nextern "C" int verif_c_eq(void) { return verif_cs._d[0]->equality ? 1 : 0; }\n')
    # `new vpsc::Constraint(` / `new VarIndexPair(` stay as they are: this is a plain harness (cbmc models operator new itself)
    js.append(Job("separation_ctor_then_generate", "U", spec, "h_ctor_roundtrip", cxx=ct_cxx, defines=["JOB_ctor_roundtrip"], slices=[s_ for _, s_, _, _ in ctor_jobs] + [sgc, vip, sci2, av],
                  flags=["--sat-solver", "cadical", "--no-malloc-may-fail"], backend="sat:cadical", unwind=8, replay=replay_c07, timeout=600,
                  domain="both constructor forms, every gap (all doubles, compared bit for bit, negative included), equality or not, every pair of distinct node indices below 4 / both orders of two guide lines, both dimensions",
                  expect=[r'h_ctor_roundtrip\.assertion']))
    # ---------------- makeFeasible's cursor over a compound constraint's sub-constraints: markAllSubConstraintsAsInactive REWINDS it, so that every
    #                  later makeFeasible() (second call, or a new layout over the same constraint objects) considers every sub-constraint again
    mai = slice_func(CC, r'^void CompoundConstraint::markAllSubConstraintsAsInactive\(void\)', "CompoundConstraint::markAllSubConstraintsAsInactive")
    scr = slice_func(CC, r'^bool CompoundConstraint::subConstraintsRemaining\(void\) const', "CompoundConstraint::subConstraintsRemaining")
    mca = slice_func(CC, r'^void CompoundConstraint::markCurrSubConstraintAsActive\(const bool satisfiable\)', "CompoundConstraint::markCurrSubConstraintAsActive")
    cur_pre = pre({}).replace("        void assertValidVariableIndex(const vpsc::Variables& vars, const unsigned index);\n",
                              "        void assertValidVariableIndex(const vpsc::Variables& vars, const unsigned index);\n        void markAllSubConstraintsAsInactive(void);\n"
                              "        bool subConstraintsRemaining(void) const;\n        void markCurrSubConstraintAsActive(const bool satisfiable);\n", 1)
    if cur_pre == pre({}):
        raise Undecided("C07: prelude/cola_compound.h: CompoundConstraint declaration anchor not found")
    cur_cxx = (base + vpsc_part + cur_pre + "namespace cola {\n" + mai.text + "\n" + scr.text + "\n" + mca.text + "\n}\n"
               "static cola::CompoundConstraint verif_cc; static cola::SubConstraintInfo verif_info[3]; static cola::SubConstraintInfo *verif_infop[3];\n"
               'extern "C" void verif_cursor_scene(unsigned n, unsigned long cursor, int s0, int s1, int s2) { int S[3] = {s0, s1, s2};\n'
               "  for (int k = 0; k < 3; ++k) { verif_info[k].satisfied = S[k] != 0; verif_infop[k] = &verif_info[k]; }\n"
               "  verif_cc._subConstraintInfo._d = verif_infop; verif_cc._subConstraintInfo._n = n; verif_cc._subConstraintInfo._cap = 3; verif_cc._currSubConstraintIndex = cursor; }\n"
               'extern "C" void w_mark_all_inactive(void) { verif_cc.markAllSubConstraintsAsInactive(); }\n'
               'extern "C" int w_remaining(void) { return verif_cc.subConstraintsRemaining() ? 1 : 0; }\n'
               'extern "C" void w_mark_curr(int sat) { verif_cc.markCurrSubConstraintAsActive(sat != 0); }\n'
               'extern "C" unsigned long verif_cursor(void) { return verif_cc._currSubConstraintIndex; }\nextern "C" int verif_satisfied(unsigned k) { return verif_info[k].satisfied ? 1 : 0; }\n')
    js.append(Job("subconstraint_cursor_rewinds", "B", spec, "h_cursor", cxx=cur_cxx, defines=["JOB_cursor"], slices=[mai, scr, mca], unwind=6, replay=replay_c07,
                  flags=["--sat-solver", "cadical"], backend="sat:cadical",
                  bound="compound constraints with 0 to 3 sub-constraints (loops unwound 6 times with unwinding assertions), every earlier cursor position and flag pattern",
                  domain="every such constraint state", expect=[r'h_cursor\.assertion']))
    # ---------------- DistributionConstraint::generateSeparationConstraints, WHOLE function on short pair lists (bounded): every alignment pair -- whatever
    #                  its position in the list and whatever pairs came before -- yields its own equality; complements distribution_body/_shell, which need the
    #                  loop body to be self-contained
    dg = slice_func(CC, r'^void DistributionConstraint::generateSeparationConstraints\(\s*const vpsc::Dim dim,', "DistributionConstraint::generateSeparationConstraints")
    nth = len(re.findall(r'throw InvalidConstraint\(this\);', strip_comments(dg.text)))
    dg_text = subst(dg, [(r'throw InvalidConstraint\(this\);', '{ verif_thrown = 1; return; }', nth)]) if nth else dg.text
    dg_cxx = ("#include <set>\n" + tu({}, dg_text, "") +
              "// objects of classes that hold (bounded-stub) vectors are carved out of raw memory and their vector members set by hand: goto-cc cannot generate the implicit\n"
              "// constructor of a class whose member is a class-template instance with user constructors\n"
              'extern "C" void *malloc(size_t);\n'
              "static cola::DistributionConstraint *verif_dcp; static cola::AlignmentConstraint *verif_al; static cola::AlignmentPair verif_pair[3]; static cola::SubConstraintInfo *verif_infop[3];\n"
              "#define verif_dc (*verif_dcp)\n"
              "static vpsc::Constraints verif_gcs; static vpsc::Variables verif_vs; static char verif_varmem[4][8];\n"
              'extern "C" void verif_dist_scene(unsigned n, int primary, double sep, unsigned a0, unsigned b0, unsigned a1, unsigned b1, unsigned a2, unsigned b2, unsigned nullmask) {\n'
              "  unsigned A[3] = {a0, a1, a2}, B[3] = {b0, b1, b2};\n"              "  verif_dcp = (cola::DistributionConstraint *)malloc(sizeof(cola::DistributionConstraint)); verif_al = (cola::AlignmentConstraint *)malloc(4 * sizeof(cola::AlignmentConstraint));\n"
              "  static vpsc::Constraint *own[4], *out[4]; verif_dc.cs._d = own; verif_dc.cs._n = 0; verif_dc.cs._cap = 4; verif_gcs._d = out; verif_gcs._n = 0; verif_gcs._cap = 4;\n"
              "  for (unsigned k = 0; k < 4; ++k) verif_al[k].variable = ((nullmask >> k) & 1u) ? (vpsc::Variable *)0 : (vpsc::Variable *)(void *)verif_varmem[k];\n"
              "  for (unsigned k = 0; k < 3; ++k) { verif_pair[k].alignment1 = &verif_al[A[k]]; verif_pair[k].alignment2 = &verif_al[B[k]]; verif_infop[k] = &verif_pair[k]; }\n"
              "  verif_dc._primaryDim = (vpsc::Dim)primary; verif_dc.sep = sep; verif_dc._subConstraintInfo._d = verif_infop; verif_dc._subConstraintInfo._n = n; verif_dc._subConstraintInfo._cap = 3; }\n"
              'extern "C" void w_dist_generate(int dim) { vpsc::Rectangles bbs; verif_dc.generateSeparationConstraints((vpsc::Dim)dim, verif_vs, verif_gcs, bbs); }\n'
              'extern "C" unsigned long verif_ngcs(void) { return verif_gcs._n; }\nextern "C" unsigned long verif_ncs(void) { return verif_dc.cs._n; }\n'
              'extern "C" int verif_var_of(void *v) { for (int k = 0; k < 4; ++k) if (v == (void *)verif_varmem[k]) return k; return -1; }\n'
              'extern "C" int verif_g_left(unsigned k) { return verif_var_of((void *)verif_gcs._d[k]->left); }\nextern "C" int verif_g_right(unsigned k) { return verif_var_of((void *)verif_gcs._d[k]->right); }\n'
              'extern "C" double verif_g_gap(unsigned k) { return verif_gcs._d[k]->gap; }\nextern "C" int verif_g_eq(unsigned k) { return verif_gcs._d[k]->equality ? 1 : 0; }\n'
              'extern "C" int verif_g_own(unsigned k) { return (verif_gcs._d[k]->creator == (void *)&verif_dc && verif_dc.cs._d[k] == verif_gcs._d[k]) ? 1 : 0; }\n')
    js.append(Job("distribution_every_pair_gets_its_equality", "B", spec, "h_dist", cxx=dg_cxx, defines=["JOB_dist_whole"], slices=[dg, cctor, cdecl], stub_variant="bounded_set", unwind=6,
                  flags=["--sat-solver", "cadical", "--no-malloc-may-fail"], backend="sat:cadical", replay=replay_c07, timeout=600,
                  bound="0 to 3 alignment pairs over 4 guidelines in every pattern (repeats, pairs joining earlier pieces), any guideline without a variable; loops unwound 6 times with unwinding assertions",
                  domain="every such distribution, both dimensions, every separation (all doubles but NaN)",
                  expect=[r'h_dist\.assertion']))
    return js


LEVEL = "other"
TRUSTED = [
    "cbmc/goto-cc/goto-instrument 6.11.0; CaDiCaL back end",
    "prelude/cola_compound.h and prelude/vpsc.h (data members only; layout cross-checked on every run against libcola/compound_constraints.cpp -- which also defines the "
    "file-local info classes Offset, VarIndexPair, AlignmentPair, RelativeOffset -- and against the libvpsc headers); C mirror structs proved equal to CBMC's layout (job mirror_layout)",
    "`new vpsc::Constraint(..)`, `new vpsc::Variable(..)`, `new UnsatisfiableConstraintInfo(..)` substituted (must-fire) by malloc + the REAL constructor on a temporary + "
    "field-wise copy (goto-instrument --dfcc has no model of operator new); allocation assumed to succeed",
    "exception model: `throw X;` sets the ghost flag verif_thrown and returns; a call of assertValidVariableIndex is followed by propagation of the flag (must-fire substitutions)",
    "loop shells: the loop body is replaced textually (exactly one occurrence, checked) by a call behind a counting contract; what one iteration does is the separate *_body job",
    "vpsc::IncSolver in project(): construction and solve() behind contracts (what solve() achieves is property C01); the default argument `equality = false` of "
    "vpsc::Constraint's constructor is compared with the declaration sliced from constraint.h on every run",
]
ASSUMPTIONS = [
    "PARTIAL CLAIM: the end-to-end statement of C07 is NOT decided. Not under any obligation: that ConstrainedFDLayout::run()/makeFeasible() end in a projection "
    "(applyForcesAndConstraints takes a further descent step AFTER project(): coords = old - stepsize*(old - projected), stepsize in [0,1]; feasibility of the result needs "
    "convexity plus feasibility of the previous iterate), makeFeasible's priority/rollback logic, the 1e-4 tolerance after unscaling, rectangle sizes unchanged, absence of "
    "NaN/inf, GradientProjection::solve's descent loop (its last step is `result = previous + beta*(projected - previous)`, again a convex combination, not a projection; "
    "only runSolver's copy-back after satisfy() and destroyVPSC's report loop are under contract), PageBoundaryConstraints and OrthogonalEdgeConstraint, cluster containment and non-overlap constraints (C08)",
    "makeFeasible: only the scan between a solve attempt and the roll-back decision is under contract (a flag on ANY constraint of the valid set is cleared and vetoes the "
    "alternative; bounded job anchored on the neighbouring statements + loop-contract job for any size, where 'element i of the valid set is object i of a pool of distinct "
    "live constraints' is instantiated at each access through the stub vector's element hook); priorities, alternatives' order and the restore of positions are not",
    "separation_ctor_then_generate runs the constructors' BODIES on an object whose members hold what the initialiser lists (checked textually: gap(g), equality(equality), "
    "CompoundConstraint(dim)) give them; CompoundConstraint's own constructor is not under contract",
    "distribution_every_pair_gets_its_equality is a BOUNDED stand-in (0 to 3 alignment pairs over 4 guidelines, whole function): every pair, whatever came before it in the list, yields its own equality "
    "(complements distribution_body/_shell, which need a self-contained loop body); std::set, should the function use one, is the array-backed stub with a default constructor (stubs/bounded_set)",
    "subconstraint_cursor_rewinds is a BOUNDED stand-in (up to 3 sub-constraints) for the cursor protocol makeFeasible relies on (markAllSubConstraintsAsInactive / subConstraintsRemaining / markCurrSubConstraintAsActive)",
    "virtual dispatch from setupVarsAndConstraints/setupExtraConstraints to the generate* members is not modelled (CBMC's C++ front end; the classes are checked one by one)",
    "variable ids are assumed non-negative (they are positions in the variable list: established for guide lines by the *_generateVariables jobs, for nodes by "
    "setupVarsAndConstraints' `new vpsc::Variable(i, coords[i])` which is not under contract)",
    "machine arithmetic: no arithmetic is involved except Boundary's negation of the offset; gaps are compared bit for bit",
]
EXPLANATION = ("Contracts on the real libcola translation routines: each kind of compound constraint generates, per sub-constraint and only in its own dimension, exactly the VPSC "
               "constraint that states it, with the creator back-pointer that lets an unsatisfiable one be reported; project() hands back the solver's final positions read after "
               "solve(); checkUnsatisfiable (and, on the majorization path, GradientProjection::runSolver / destroyVPSC) read positions back after the solver ran and report every "
               "flagged constraint with its maker. Together with C01 this decides the per-constraint half of C07 for ONE projection; "
               "the descent loop around it is not decided.")
