/* C07 -- the translation link only: the VPSC constraints libcola generates for each kind of user constraint ARE that
 * constraint (same two variables, same gap bit for bit, equality where the kind demands it, creator back-pointer set so
 * an unsatisfiable one can be reported), one per sub-constraint, none skipped, and only in the constraint's dimension.
 * Together with C01 (a solver that returns normally leaves every unflagged constraint satisfied) this is the per-constraint
 * half of "layout output satisfies every user constraint or reports it"; the descent loop that must END in a projection,
 * makeFeasible's rollback and the 1e-4 tolerance after unscaling are NOT decided here (see ASSUMPTIONS in jobs.py). */
#define PACKED __attribute__((packed))
struct PACKED vec { void *d; size_t n; size_t cap; };
struct PACKED Variable { int id; double desiredPosition, finalPosition, weight, scale, offset; void *block; _Bool visited; _Bool fixedDesiredPosition; struct vec in; struct vec out; };
struct PACKED Constraint { void *left, *right; double gap, lm; long timeStamp; _Bool active; _Bool equality; _Bool unsatisfiable; _Bool needsScaling; void *creator; };
#define COMPOUND_FIELDS void *vptr; int _primaryDim; int _secondaryDim; unsigned _priority; _Bool _combineSubConstraints; struct vec _subConstraintInfo; size_t _currSubConstraintIndex;
struct PACKED Compound { COMPOUND_FIELDS };
struct PACKED Boundary { COMPOUND_FIELDS double position; struct Variable *variable; };
struct PACKED Align { COMPOUND_FIELDS void *indicator; struct Variable *variable; double _position; _Bool _isFixed; };
struct PACKED SepC { COMPOUND_FIELDS double gap; _Bool equality; struct Constraint *vpscConstraint; };
struct PACKED MultiSep { COMPOUND_FIELDS struct vec cs; void *indicator; double sep; _Bool equality; };
struct PACKED Distrib { COMPOUND_FIELDS struct vec cs; void *indicator; double sep; };
struct PACKED FixedRel { COMPOUND_FIELDS _Bool m_fixed_position; struct vec m_shape_vars; };
#define SUBINFO_FIELDS void *vptr; unsigned varIndex; _Bool satisfied;
struct PACKED OffsetI { SUBINFO_FIELDS double distOffset; };
struct PACKED VarPair { SUBINFO_FIELDS struct Align *lConstraint; struct Align *rConstraint; unsigned varIndex2; };
struct PACKED AlignPair { SUBINFO_FIELDS struct Align *alignment1; struct Align *alignment2; };
struct PACKED RelOff { SUBINFO_FIELDS unsigned varIndex2; int dim; double distOffset; };
struct PACKED UInfo { unsigned leftVarIndex; unsigned rightVarIndex; double separation; _Bool equality; void *cc; };
static unsigned long long bits(double d) { union { double d; unsigned long long u; } c; c.d = d; return c.u; }
#define VS(v) ((struct vec *)(v))
#define AT(v, i) (((void **)VS(v)->d)[i])
#define LASTC(cs) ((struct Constraint *)AT(cs, VS(cs)->n - 1))
#define FRESH_VEC(v, maxn) (__CPROVER_is_fresh(v, sizeof(struct vec)) && VS(v)->n <= (maxn) && __CPROVER_is_fresh(VS(v)->d, VS(v)->n * sizeof(void *)))
#define FRESH_OUT(v) (__CPROVER_is_fresh(v, sizeof(struct vec)) && VS(v)->n < VS(v)->cap && VS(v)->cap <= 64 && __CPROVER_is_fresh(VS(v)->d, VS(v)->cap * sizeof(void *)))
/* the generated constraint C says  left + gap <= right  (== when eq) and names its maker */
static _Bool is_constraint(struct Constraint *c, void *left, void *right, double gap, _Bool eq, void *creator) {
  return c->left == left && c->right == right && bits(c->gap) == bits(gap) && c->equality == eq && c->creator == creator &&
         !c->unsatisfiable && !c->active;
}

#if defined(JOB_mirror_layout)
@MIRROR_CHECKS@
#endif

/* ------------------------------------------------------------ SeparationConstraint: the whole function */
#if defined(JOB_separation)
#define SC(p) ((struct SepC *)(p))
#define VP(p) ((struct VarPair *)AT(&SC(p)->_subConstraintInfo, 0))
#define VALID_ALIGN_OR_NULL(a) ((a) == (void *)0 || (__CPROVER_is_fresh(a, sizeof(struct Align)) && __CPROVER_is_fresh((a)->variable, sizeof(struct Variable)) && (a)->variable->id >= 0))   /* ids are positions in the variable list */
/* the two variables the user's constraint is about: node indices, or the guide-line variables of two alignments */
static unsigned idxL(void *p) { return VP(p)->lConstraint ? (unsigned)VP(p)->lConstraint->variable->id : VP(p)->varIndex; }
static unsigned idxR(void *p) { return VP(p)->rConstraint ? (unsigned)VP(p)->rConstraint->variable->id : VP(p)->varIndex2; }
void w_sep_generate(void *sc, int dim, void *vs, void *cs)
__CPROVER_requires(__CPROVER_is_fresh(sc, sizeof(struct SepC)) && (dim == 0 || dim == 1))
__CPROVER_requires(SC(sc)->_subConstraintInfo.n >= 1 && SC(sc)->_subConstraintInfo.n <= 4 &&
                   __CPROVER_is_fresh(SC(sc)->_subConstraintInfo.d, SC(sc)->_subConstraintInfo.n * sizeof(void *)))
__CPROVER_requires(__CPROVER_is_fresh(AT(&SC(sc)->_subConstraintInfo, 0), sizeof(struct VarPair)))
__CPROVER_requires(VALID_ALIGN_OR_NULL(VP(sc)->lConstraint) && VALID_ALIGN_OR_NULL(VP(sc)->rConstraint))
__CPROVER_requires(FRESH_VEC(vs, 64) && FRESH_OUT(cs) && verif_thrown == 0)
/* in the constraint's own dimension, with both variables present: exactly one constraint is appended, and it is the user's */
__CPROVER_ensures((!verif_thrown && dim == SC(sc)->_primaryDim) ==> (VS(cs)->n == __CPROVER_old(VS(cs)->n) + 1 &&
    is_constraint(LASTC(cs), AT(vs, idxL(sc)), AT(vs, idxR(sc)), SC(sc)->gap, SC(sc)->equality, sc) && SC(sc)->vpscConstraint == LASTC(cs)))
/* an index outside the variable list is reported (exception) and never used; valid indices never throw */
__CPROVER_ensures(dim == SC(sc)->_primaryDim ==> ((verif_thrown != 0) == (idxL(sc) >= VS(vs)->n || idxR(sc) >= VS(vs)->n)))
/* in the other dimension nothing is generated */
__CPROVER_ensures(dim != SC(sc)->_primaryDim ==> (VS(cs)->n == __CPROVER_old(VS(cs)->n) && !verif_thrown))
__CPROVER_assigns(VS(cs)->n, __CPROVER_object_whole(VS(cs)->d), SC(sc)->vpscConstraint, verif_thrown)
;
void h_sep_generate(void) { void *sc, *vs, *cs; int dim; w_sep_generate(sc, dim, vs, cs); VERIF_CANARY; }
#endif

/* ------------------------------------------------------------ loop bodies: ONE arbitrary sub-constraint of each kind */
#define INFO(slot, T) ((struct T *)*(void **)(slot))
#define REQ_BODY(T, IT) \
  __CPROVER_requires(__CPROVER_is_fresh(self, sizeof(struct T))) \
  __CPROVER_requires(__CPROVER_is_fresh(slot, sizeof(void *)) && __CPROVER_is_fresh(*(void **)slot, sizeof(struct IT))) \
  __CPROVER_requires(FRESH_VEC(vars, 64) && FRESH_OUT(cs) && verif_thrown == 0)

#if defined(JOB_alignment_body)
#define ME ((struct Align *)self)
void w_body(void *self, void *slot, int dim, void *vars, void *cs)
REQ_BODY(Align, OffsetI)
__CPROVER_requires(__CPROVER_is_fresh(ME->variable, sizeof(struct Variable)))
/* the node is held at exactly its offset from the guide line:  guide + offset == node */
__CPROVER_ensures(!verif_thrown ==> (VS(cs)->n == __CPROVER_old(VS(cs)->n) + 1 &&
    is_constraint(LASTC(cs), ME->variable, AT(vars, INFO(slot, OffsetI)->varIndex), INFO(slot, OffsetI)->distOffset, 1, self)))
__CPROVER_ensures((verif_thrown != 0) == (INFO(slot, OffsetI)->varIndex >= VS(vars)->n))
__CPROVER_assigns(VS(cs)->n, __CPROVER_object_whole(VS(cs)->d), verif_thrown)
;
#endif

#if defined(JOB_boundary_body)
#define ME ((struct Boundary *)self)
void w_body(void *self, void *slot, int dim, void *vars, void *cs)
REQ_BODY(Boundary, OffsetI)
__CPROVER_requires(__CPROVER_is_fresh(ME->variable, sizeof(struct Variable)))
/* negative offset: the node stays at least |offset| before the boundary line;  otherwise at least offset after it */
__CPROVER_ensures((!verif_thrown && INFO(slot, OffsetI)->distOffset < 0) ==> (VS(cs)->n == __CPROVER_old(VS(cs)->n) + 1 &&
    is_constraint(LASTC(cs), AT(vars, INFO(slot, OffsetI)->varIndex), ME->variable, -INFO(slot, OffsetI)->distOffset, 0, self)))
__CPROVER_ensures((!verif_thrown && !(INFO(slot, OffsetI)->distOffset < 0)) ==> (VS(cs)->n == __CPROVER_old(VS(cs)->n) + 1 &&
    is_constraint(LASTC(cs), ME->variable, AT(vars, INFO(slot, OffsetI)->varIndex), INFO(slot, OffsetI)->distOffset, 0, self)))
__CPROVER_ensures((verif_thrown != 0) == (INFO(slot, OffsetI)->varIndex >= VS(vars)->n))
__CPROVER_assigns(VS(cs)->n, __CPROVER_object_whole(VS(cs)->d), verif_thrown)
;
#endif

#if defined(JOB_multiseparation_body) || defined(JOB_distribution_body)
#if defined(JOB_multiseparation_body)
#define ME ((struct MultiSep *)self)
#define MET MultiSep
#define EQ ME->equality
#else
#define ME ((struct Distrib *)self)
#define MET Distrib
#define EQ 1
#endif
#define A1 (INFO(slot, AlignPair)->alignment1)
#define A2 (INFO(slot, AlignPair)->alignment2)
void w_body(void *self, void *slot, int dim, void *vars, void *cs)
REQ_BODY(MET, AlignPair)
__CPROVER_requires(__CPROVER_is_fresh(A1, sizeof(struct Align)) && __CPROVER_is_fresh(A2, sizeof(struct Align)))
__CPROVER_requires((A1->variable == (void *)0 || __CPROVER_is_fresh(A1->variable, sizeof(struct Variable))) &&
                   (A2->variable == (void *)0 || __CPROVER_is_fresh(A2->variable, sizeof(struct Variable))))
__CPROVER_requires(ME->cs.n < ME->cs.cap && ME->cs.cap <= 64 && __CPROVER_is_fresh(ME->cs.d, ME->cs.cap * sizeof(void *)))
/* consecutive guide lines are held sep apart (exactly, for a distribution / an equality multi-separation) */
__CPROVER_ensures(!verif_thrown ==> (VS(cs)->n == __CPROVER_old(VS(cs)->n) + 1 &&
    is_constraint(LASTC(cs), A1->variable, A2->variable, ME->sep, EQ, self) &&
    ME->cs.n == __CPROVER_old(ME->cs.n) + 1 && AT(&ME->cs, ME->cs.n - 1) == (void *)LASTC(cs)))
/* a guide line without a variable is reported, never dereferenced */
__CPROVER_ensures((verif_thrown != 0) == (A1->variable == (void *)0 || A2->variable == (void *)0))
__CPROVER_assigns(VS(cs)->n, __CPROVER_object_whole(VS(cs)->d), ME->cs.n, __CPROVER_object_whole(ME->cs.d), verif_thrown)
;
#endif

#if defined(JOB_fixedrelative_body)
#define ME ((struct FixedRel *)self)
#define RO INFO(slot, RelOff)
void w_body(void *self, void *slot, int dim, void *vars, void *cs)
REQ_BODY(FixedRel, RelOff)
__CPROVER_requires(dim == 0 || dim == 1)
/* in the offset's dimension the two nodes keep exactly their recorded relative offset; in the other dimension nothing */
__CPROVER_ensures((!verif_thrown && dim == RO->dim) ==> (VS(cs)->n == __CPROVER_old(VS(cs)->n) + 1 &&
    is_constraint(LASTC(cs), AT(vars, RO->varIndex), AT(vars, RO->varIndex2), RO->distOffset, 1, self)))
__CPROVER_ensures(dim != RO->dim ==> (VS(cs)->n == __CPROVER_old(VS(cs)->n) && !verif_thrown))
__CPROVER_ensures(dim == RO->dim ==> ((verif_thrown != 0) == (RO->varIndex >= VS(vars)->n || RO->varIndex2 >= VS(vars)->n)))
__CPROVER_assigns(VS(cs)->n, __CPROVER_object_whole(VS(cs)->d), verif_thrown)
;
#endif

#if defined(JOB_BODY)
void h_body(void) { void *self, *slot, *vars, *cs; int dim; w_body(self, slot, dim, vars, cs); VERIF_CANARY; }
#endif

/* ------------------------------------------------------------ loop shells: every sub-constraint is visited exactly once, in the
 * constraint's own dimension only.  The loop body is replaced (must-fire, textually) by a call to w_visit, which is behind a
 * contract that counts; the loop carries the invariant  visited == o - begin. */
#if defined(JOB_SHELL)
unsigned long verif_visited;
void *verif_last_slot;
extern int verif_g_dim; extern void *verif_g_vars; extern void *verif_g_cs;
void w_visit(void *self, void *slot)
__CPROVER_requires(1)
__CPROVER_ensures(verif_visited == __CPROVER_old(verif_visited) + 1 && verif_last_slot == slot)
__CPROVER_assigns(verif_visited, verif_last_slot)
;
#define CC(p) ((struct Compound *)(p))
void w_shell(void *self, int dim, void *vars, void *cs)
__CPROVER_requires(__CPROVER_is_fresh(self, SHELL_SIZE) && (dim == 0 || dim == 1) && verif_visited == 0)
__CPROVER_requires(CC(self)->_subConstraintInfo.n <= 1000000 &&
                   __CPROVER_is_fresh(CC(self)->_subConstraintInfo.d, CC(self)->_subConstraintInfo.n * sizeof(void *)))
__CPROVER_requires(SHELL_EXTRA_REQ)
__CPROVER_requires(__CPROVER_is_fresh(vars, sizeof(struct vec)) && __CPROVER_is_fresh(cs, sizeof(struct vec)))
__CPROVER_ensures(SHELL_ACTIVE ==> verif_visited == CC(self)->_subConstraintInfo.n)
__CPROVER_ensures(!(SHELL_ACTIVE) ==> verif_visited == 0)
__CPROVER_assigns(verif_visited, verif_last_slot, verif_g_dim, verif_g_vars, verif_g_cs SHELL_EXTRA_ASSIGNS)
;
void h_shell(void) { void *self, *vars, *cs; int dim; w_shell(self, dim, vars, cs); VERIF_CANARY; }
#endif

/* ------------------------------------------------------------ generateVariables: the guide-line variable */
#if defined(JOB_genvars)
#if defined(GV_Align)
#define ME ((struct Align *)self)
#define MET Align
#define MYPOS ME->_position
#define MYFIXED ME->_isFixed
#else
#define ME ((struct Boundary *)self)
#define MET Boundary
#define MYPOS ME->position
#define MYFIXED 0
#endif
#define NEWVAR ((struct Variable *)AT(vars, VS(vars)->n - 1))
void w_genvars(void *self, int dim, void *vars)
__CPROVER_requires(__CPROVER_is_fresh(self, sizeof(struct MET)) && (dim == 0 || dim == 1) && FRESH_OUT(vars))
/* in its own dimension: one variable appended, its id is its index, it sits at the recorded position, and it is the one the
 * constraint remembers; a fixed guide line is pinned (fixedDesiredPosition, weight 100000), a free one floats (weight 0.0001) */
__CPROVER_ensures(dim == ME->_primaryDim ==> (VS(vars)->n == __CPROVER_old(VS(vars)->n) + 1 && (void *)NEWVAR == (void *)ME->variable &&
    NEWVAR->id == (int)__CPROVER_old(VS(vars)->n) && bits(NEWVAR->desiredPosition) == bits(MYPOS) && NEWVAR->scale == 1.0 &&
    (MYFIXED ? (NEWVAR->fixedDesiredPosition && NEWVAR->weight == 100000.0) : (!NEWVAR->fixedDesiredPosition && NEWVAR->weight == 0.0001))))
__CPROVER_ensures(dim != ME->_primaryDim ==> VS(vars)->n == __CPROVER_old(VS(vars)->n))
__CPROVER_assigns(VS(vars)->n, __CPROVER_object_whole(VS(vars)->d), ME->variable)
;
void h_genvars(void) { void *self, *vars; int dim; w_genvars(self, dim, vars); VERIF_CANARY; }
#endif

/* ------------------------------------------------------------ project() (libcola/colafd.cpp): the coordinates handed back are the
 * solver's final positions, every one of them, read AFTER solve() has run over the list project() was given */
struct PACKED valarr { size_t n; double *d; };
#if defined(JOB_project)
extern void *verif_g_vars, *verif_g_cs, *verif_g_coords;
unsigned long verif_visited;
void *verif_solver_vs, *verif_solver_cs;   /* ghost: what the solver was constructed over */
_Bool verif_solved;
void w_IncSolver_ctor(void *s, void *vs, void *cs)
__CPROVER_requires(1)
__CPROVER_ensures(verif_solver_vs == vs && verif_solver_cs == cs && !verif_solved)
__CPROVER_assigns(verif_solver_vs, verif_solver_cs, verif_solved)
;
_Bool w_IncSolver_solve(void *s)
__CPROVER_requires(verif_solver_vs == verif_g_vars && verif_solver_cs == verif_g_cs)   /* the variables and constraints project() was given */
__CPROVER_ensures(verif_solved)
__CPROVER_assigns(verif_solved)
;
void w_copy_visit(unsigned i)
__CPROVER_requires(verif_solved && i == verif_visited)       /* a coordinate is read back only after solve(), in order, none skipped */
__CPROVER_ensures(verif_visited == __CPROVER_old(verif_visited) + 1)
__CPROVER_assigns(verif_visited)
;
void w_project(void *vs, void *cs, void *coords)
__CPROVER_requires(__CPROVER_is_fresh(vs, sizeof(struct vec)) && __CPROVER_is_fresh(cs, sizeof(struct vec)))
__CPROVER_requires(__CPROVER_is_fresh(coords, sizeof(struct valarr)) && ((struct valarr *)coords)->n <= 0xffffffffUL && verif_visited == 0 && !verif_solved)
__CPROVER_ensures(verif_solved && verif_visited == ((struct valarr *)coords)->n)
__CPROVER_assigns(verif_g_vars, verif_g_cs, verif_g_coords, verif_solver_vs, verif_solver_cs, verif_solved, verif_visited)
;
void h_project(void) { void *vs, *cs, *co; w_project(vs, cs, co); VERIF_CANARY; }
#endif
#if defined(JOB_project_body)
void w_project_body(void *vs, void *coords, unsigned i)
__CPROVER_requires(FRESH_VEC(vs, 1000000) && __CPROVER_is_fresh(coords, sizeof(struct valarr)) && ((struct valarr *)coords)->n <= VS(vs)->n &&
                   __CPROVER_is_fresh(((struct valarr *)coords)->d, ((struct valarr *)coords)->n * sizeof(double)))
__CPROVER_requires(i < ((struct valarr *)coords)->n && __CPROVER_is_fresh(AT(vs, i), sizeof(struct Variable)))
__CPROVER_ensures(bits(((struct valarr *)coords)->d[i]) == bits(((struct Variable *)AT(vs, i))->finalPosition))
__CPROVER_assigns(((struct valarr *)coords)->d[i])
;
void h_project_body(void) { void *vs, *co; unsigned i; w_project_body(vs, co, i); VERIF_CANARY; }
#endif

/* ------------------------------------------------------------ checkUnsatisfiable() (libcola/colafd.cpp): "or reports it unsatisfiable" */
#if defined(JOB_unsat_body)
#define CK ((struct Constraint *)*(void **)slot)
#define LASTU ((struct UInfo *)AT(out, VS(out)->n - 1))
void w_unsat_body(void *slot, void *out)
/* the report list may already hold entries (up to 3 here), each a live info record */
#define OUT_ENTRY_OK(k) (VS(out)->n <= (k) || __CPROVER_is_fresh(AT(out, k), sizeof(struct UInfo)))
__CPROVER_requires(__CPROVER_is_fresh(slot, sizeof(void *)) && __CPROVER_is_fresh(*(void **)slot, sizeof(struct Constraint)))
__CPROVER_requires(__CPROVER_is_fresh(out, sizeof(struct vec)) && VS(out)->n < VS(out)->cap && VS(out)->cap == 4 && __CPROVER_is_fresh(VS(out)->d, 4 * sizeof(void *)))
__CPROVER_requires(OUT_ENTRY_OK(0) && OUT_ENTRY_OK(1) && OUT_ENTRY_OK(2))
__CPROVER_requires(__CPROVER_is_fresh(CK->left, sizeof(struct Variable)) && __CPROVER_is_fresh(CK->right, sizeof(struct Variable)))
__CPROVER_requires(((struct Variable *)CK->left)->id >= 0 && ((struct Variable *)CK->right)->id >= 0)
/* a constraint the solver flagged is reported exactly once, as itself, together with the compound constraint that made it */
__CPROVER_ensures(CK->unsatisfiable ==> (VS(out)->n == __CPROVER_old(VS(out)->n) + 1 &&
    LASTU->leftVarIndex == (unsigned)((struct Variable *)CK->left)->id && LASTU->rightVarIndex == (unsigned)((struct Variable *)CK->right)->id &&
    bits(LASTU->separation) == bits(CK->gap) && LASTU->equality == CK->equality && LASTU->cc == CK->creator))
/* one that was not flagged is not reported */
__CPROVER_ensures(!CK->unsatisfiable ==> VS(out)->n == __CPROVER_old(VS(out)->n))
__CPROVER_assigns(VS(out)->n, __CPROVER_object_whole(VS(out)->d))
;
void h_unsat_body(void) { void *slot, *out; w_unsat_body(slot, out); VERIF_CANARY; }
#endif
#if defined(JOB_unsat_shell)
unsigned long verif_visited;
void *verif_last_slot;
extern void *verif_g_cs, *verif_g_out;
void w_visit(void *self, void *slot)
__CPROVER_requires(1)
__CPROVER_ensures(verif_visited == __CPROVER_old(verif_visited) + 1 && verif_last_slot == slot)
__CPROVER_assigns(verif_visited, verif_last_slot)
;
void w_unsat_shell(void *cs, void *out)
#if defined(UNSAT_GP)
/* GradientProjection::destroyVPSC: the report list is optional; when present it is emptied first, then every constraint is examined */
__CPROVER_requires(FRESH_VEC(cs, 1000000) && (out == (void *)0 || __CPROVER_is_fresh(out, sizeof(struct vec))) && verif_visited == 0)
__CPROVER_ensures(out != (void *)0 ==> (verif_visited == VS(cs)->n && VS(out)->n == 0))
__CPROVER_ensures(out == (void *)0 ==> verif_visited == 0)
__CPROVER_assigns(verif_visited, verif_last_slot, verif_g_cs, verif_g_out; out != (void *)0: VS(out)->n)
#else
__CPROVER_requires(FRESH_VEC(cs, 1000000) && __CPROVER_is_fresh(out, sizeof(struct vec)) && verif_visited == 0)
__CPROVER_ensures(verif_visited == VS(cs)->n)            /* every constraint is examined, none skipped */
__CPROVER_assigns(verif_visited, verif_last_slot, verif_g_cs, verif_g_out)
#endif
;
void h_unsat_shell(void) { void *cs, *out; w_unsat_shell(cs, out); VERIF_CANARY; }
#endif

/* ------------------------------------------------------------ GradientProjection::runSolver, case Off (libcola/gradient_projection.cpp) */
#if defined(JOB_runSolver)
extern void *verif_g_vars, *verif_g_coords, *verif_g_solver;
unsigned long verif_visited;
_Bool verif_solved;
_Bool w_IncSolver_solve(void *s)
__CPROVER_requires(s == verif_g_solver)
__CPROVER_ensures(verif_solved)
__CPROVER_assigns(verif_solved)
;
void w_copy_visit(unsigned i)
__CPROVER_requires(verif_solved && i == verif_visited)       /* positions are read back only after satisfy(), in order, none skipped */
__CPROVER_ensures(verif_visited == __CPROVER_old(verif_visited) + 1)
__CPROVER_assigns(verif_visited)
;
void w_runSolver_off(void *solver, void *vars, void *result)
__CPROVER_requires(__CPROVER_is_fresh(vars, sizeof(struct vec)) && VS(vars)->n <= 0xffffffffUL && __CPROVER_is_fresh(result, sizeof(struct valarr)))
__CPROVER_requires(verif_visited == 0 && !verif_solved)
__CPROVER_ensures(verif_solved && verif_visited == VS(vars)->n)
__CPROVER_assigns(verif_g_vars, verif_g_coords, verif_g_solver, verif_solved, verif_visited)
;
void h_runSolver(void) { void *s, *v, *r; w_runSolver_off(s, v, r); VERIF_CANARY; }
#endif

/* ------------------------------------------------------------ makeFeasible (libcola/colafd.cpp): the roll-back decision.
 * VPSC flags whichever constraint it could not satisfy -- not necessarily the one added last.  After a tentative alternative is
 * added and satisfy() has run, a flag on ANY constraint of the valid set must (a) be cleared and (b) make the alternative be
 * rolled back; otherwise an earlier user constraint stays flagged, the solver ignores it from then on, and nothing reports it.
 * BOUNDED: valid sets of 1..4 constraints. */
#if defined(JOB_flag_scan)
int w_flag_scan(void *valid, int *dim, int sat);
void h_flag_scan(void)
{
  struct Constraint c[2][4]; void *d[2][4]; struct vec valid[2]; _Bool f0[4]; int dim; _Bool sat0; size_t n[2];
  __CPROVER_assume((dim == 0 || dim == 1) && n[0] <= 4 && n[1] <= 4 && n[dim] >= 1);     /* the alternative just added is in the set */
  for (int k = 0; k < 2; ++k) { for (int i = 0; i < 4; ++i) d[k][i] = &c[k][i]; valid[k].d = d[k]; valid[k].n = n[k]; valid[k].cap = 4; }
  for (int i = 0; i < 4; ++i) f0[i] = c[dim][i].unsatisfiable;
  _Bool any = 0;
  for (size_t i = 0; i < 4; ++i) if (i < n[dim] && f0[i]) any = 1;
  int r = w_flag_scan(valid, &dim, sat0 ? 1 : 0);
  __CPROVER_assert((r != 0) == (sat0 && !any), "SPEC the alternative counts as satisfiable iff nothing failed before and NO constraint of the valid set is flagged");
  for (size_t i = 0; i < 4; ++i) if (i < n[dim]) __CPROVER_assert(!c[dim][i].unsatisfiable, "SPEC every flag in the valid set is cleared before the next attempt");
  VERIF_CANARY;
}
#endif

#if defined(JOB_flag_scan0)
extern void *verif_g_valid; extern int verif_g_dim; extern int verif_g_sat;
extern void *verif_pool;                         /* ghost: the constraints of the valid set, element i of the set being object i of the pool */
size_t verif_K_idx; _Bool verif_K_flag0;          /* ghost: one index into the set, and that constraint's flag on entry */
#define VALID(v, dim) (&((struct vec *)(v))[dim])
#define POOL ((struct Constraint *)verif_pool)
int w_flag_scan0(void *valid, int dim, int sat, unsigned long K)
__CPROVER_requires((dim == 0 || dim == 1) && (sat == 0 || sat == 1) && __CPROVER_is_fresh(valid, 2 * sizeof(struct vec)))
__CPROVER_requires(VALID(valid, dim)->n >= 1 && VALID(valid, dim)->n <= 1000 && __CPROVER_is_fresh(VALID(valid, dim)->d, VALID(valid, dim)->n * sizeof(void *)))
__CPROVER_requires(__CPROVER_is_fresh(verif_pool, VALID(valid, dim)->n * sizeof(struct Constraint)))
__CPROVER_requires(K < VALID(valid, dim)->n && verif_K_idx == K && verif_K_flag0 == POOL[K].unsatisfiable)
/* whichever constraint K of the valid set was flagged: the flag is cleared and the alternative does not count as satisfiable */
__CPROVER_ensures(!POOL[K].unsatisfiable)
__CPROVER_ensures(verif_K_flag0 ==> __CPROVER_return_value == 0)
__CPROVER_ensures(sat == 0 ==> __CPROVER_return_value == 0)
__CPROVER_assigns(verif_g_valid, verif_g_dim, verif_g_sat, __CPROVER_object_whole(verif_pool), __CPROVER_object_whole(VALID(valid, dim)->d))
;
void h_flag_scan0(void) { void *v; int d, s; unsigned long K; w_flag_scan0(v, d, s, K); VERIF_CANARY; }
#endif

/* ------------------------------------------------------------ SeparationConstraint: constructed as (l, r, g, equality), generated as  l + g <= r  (== if equality) */
#if defined(JOB_ctor_roundtrip)
void verif_scene(int dim, double g, int eq); void w_ctor_nodes(int dim, unsigned l, unsigned r, double g, int eq); void w_ctor_alignments(int dim, int swapped, double g, int eq);
void w_generate(int dim); unsigned long verif_ncs(void); int verif_c_left(void); int verif_c_right(void); double verif_c_gap(void); int verif_c_eq(void);
void h_ctor_roundtrip(void)
{
  int dim, eq, form, swapped; unsigned l, r; double g;
  __CPROVER_assume((dim == 0 || dim == 1) && (eq == 0 || eq == 1) && (form == 0 || form == 1) && (swapped == 0 || swapped == 1) && l < 4 && r < 4 && l != r);
  verif_thrown = 0;
  verif_scene(dim, g, eq);
  int wantL, wantR;
  if (form == 0) { w_ctor_nodes(dim, l, r, g, eq); wantL = (int)l; wantR = (int)r; }
  else { w_ctor_alignments(dim, swapped, g, eq); wantL = swapped ? 5 : 4; wantR = swapped ? 4 : 5; }      /* the guide lines' variables have ids 4 and 5 */
  w_generate(dim);
  __CPROVER_assert(!verif_thrown && verif_ncs() == 1, "SPEC one VPSC constraint for the separation");
  __CPROVER_assert(verif_c_left() == wantL && verif_c_right() == wantR, "SPEC the constraint runs from the user's left operand to the user's right operand");
  __CPROVER_assert(bits(verif_c_gap()) == bits(g) && verif_c_eq() == eq, "SPEC gap and relation are the user's");
  VERIF_CANARY;
}
#endif

/* ------------------------------------------------------------ makeFeasible's cursor: mark-all-inactive clears every flag AND rewinds, so that afterwards
 * "remaining" is true exactly as often as there are sub-constraints, each marking advancing by one.  BOUNDED: up to 3 sub-constraints. */
#if defined(JOB_cursor)
void verif_cursor_scene(unsigned n, unsigned long cursor, int s0, int s1, int s2); void w_mark_all_inactive(void); int w_remaining(void); void w_mark_curr(int sat);
unsigned long verif_cursor(void); int verif_satisfied(unsigned k);
void h_cursor(void)
{
  unsigned n; unsigned long cur; int s[3];
  __CPROVER_assume(n <= 3 && cur <= n);
  verif_cursor_scene(n, cur, s[0], s[1], s[2]);
  w_mark_all_inactive();
  __CPROVER_assert(verif_cursor() == 0, "SPEC markAllSubConstraintsAsInactive rewinds the cursor");
  for (unsigned k = 0; k < 3; ++k) if (k < n) __CPROVER_assert(!verif_satisfied(k), "SPEC markAllSubConstraintsAsInactive clears every sub-constraint's flag");
  unsigned seen = 0;
  for (unsigned k = 0; k < 4; ++k) if (w_remaining()) { int sat; w_mark_curr(sat); seen++; }
  __CPROVER_assert(seen == n && !w_remaining(), "SPEC after rewinding, makeFeasible's loop sees each sub-constraint exactly once");
  VERIF_CANARY;
}
#endif

/* ------------------------------------------------------------------------------------------------
 * DistributionConstraint::generateSeparationConstraints, whole function, BOUNDED (0 to 3 pairs over 4 guidelines):
 * in its primary dimension EVERY alignment pair (g1, g2) of the list yields the equality  g1.variable + sep == g2.variable, in list order, owned by the
 * constraint and mirrored in its own list `cs`; a pair with a guideline that has no variable is an InvalidConstraint; the other dimension yields nothing. */
#if defined(JOB_dist_whole)
void verif_dist_scene(unsigned n, int primary, double sep, unsigned a0, unsigned b0, unsigned a1, unsigned b1, unsigned a2, unsigned b2, unsigned nullmask);
void w_dist_generate(int dim); unsigned long verif_ngcs(void); unsigned long verif_ncs(void); int verif_g_left(unsigned k); int verif_g_right(unsigned k);
double verif_g_gap(unsigned k); int verif_g_eq(unsigned k); int verif_g_own(unsigned k);
void h_dist(void)
{
  unsigned n, a[3], b[3], nullmask; int primary, dim; double sep;
  __CPROVER_assume(n <= 3 && nullmask < 16 && (primary == 0 || primary == 1) && (dim == 0 || dim == 1) && !__CPROVER_isnand(sep));
  for (int k = 0; k < 3; ++k) __CPROVER_assume(a[k] < 4 && b[k] < 4);
  verif_dist_scene(n, primary, sep, a[0], b[0], a[1], b[1], a[2], b[2], nullmask);
  verif_thrown = 0;
  w_dist_generate(dim);
  if (dim != primary) __CPROVER_assert(verif_ngcs() == 0 && !verif_thrown, "SPEC a distribution yields nothing in the other dimension");
  else {
    unsigned good = n;                                   /* number of pairs before the first invalid one */
    for (unsigned k = 0; k < 3; ++k) if (k < n && good == n && (((nullmask >> a[k]) & 1u) || ((nullmask >> b[k]) & 1u))) good = k;
    __CPROVER_assert((verif_thrown != 0) == (good < n), "SPEC InvalidConstraint exactly when some pair names a guideline without a variable");
    __CPROVER_assert(verif_ngcs() == good && verif_ncs() == good, "SPEC one equality per alignment pair (up to the first invalid pair), none skipped, none added");
    for (unsigned k = 0; k < 3; ++k) if (k < good && k < verif_ngcs())
      __CPROVER_assert(verif_g_left(k) == (int)a[k] && verif_g_right(k) == (int)b[k] && verif_g_gap(k) == sep && verif_g_eq(k) && verif_g_own(k),
                       "SPEC pair k yields  g1.variable + sep == g2.variable, owned by the distribution and mirrored in its own list");
  }
  VERIF_CANARY;
}
#endif
