"""C01 jobs: VPSC -- satisfied on return or reported (DESIGN.md section 5, C01)."""
import os, importlib.util
from vf import *
from common import *
import layout

HERE = os.path.dirname(os.path.abspath(__file__))
SV, VH, CH = "libvpsc/solve_VPSC.cpp", "libvpsc/variable.h", "libvpsc/constraint.h"

EXTERN = '''extern "C" {
double w_position(void *v); double w_unscaledPosition(void *v); double w_slack(void *c);
void w_blocks_cleanup(void *bs); double w_blocks_cost(void *bs); size_t w_blocks_size(void *bs);
void w_copyResult(void *s); bool w_satisfy(void *s); void w_refine(void *s);
}
'''
SHIM_POSITION = "\tdouble position(void) const { return w_position((void *)this); }\n"
SHIM_UPOSITION = "\tdouble unscaledPosition(void) const { return w_unscaledPosition((void *)this); }\n"
SHIM_SLACK = "\tdouble slack(void) const { return w_slack((void *)this); }\n"

LAYOUT_FIELDS = [
    ("vpsc::Variable", ["id", "desiredPosition", "finalPosition", "weight", "scale", "offset", "block", "visited",
                        "fixedDesiredPosition", "in", "out"]),
    ("vpsc::Constraint", ["left", "right", "gap", "lm", "timeStamp", "active", "equality", "unsatisfiable",
                          "needsScaling", "creator"]),
    ("vpsc::Block", ["vars", "posn", "ps", "deleted", "timeStamp", "in", "out", "blocks"]),
    ("vpsc::PositionStats", ["scale", "AB", "AD", "A2"]),
    ("vpsc::Solver", ["bs", "m", "n", "needsScaling"]),
    ("vpsc::IncSolver", ["splitCnt", "inactive", "violated"]),
    ("vpsc::Blocks", ["blockTimeCtr", "m_blocks", "nvs"]),
]
LAYOUT_SIZES = ["vpsc::Variable", "vpsc::Constraint", "vpsc::Block", "vpsc::Solver", "vpsc::IncSolver", "vpsc::Blocks"]

# C mirror  <->  CBMC's layout of the prelude classes
MIRROR = [
    ("vpsc::Variable", "struct Variable", ["id", "desiredPosition", "finalPosition", "weight", "scale", "offset", "block",
                                           "visited", "fixedDesiredPosition", "in", "out"]),
    ("vpsc::Constraint", "struct Constraint", ["left", "right", "gap", "lm", "timeStamp", "active", "equality",
                                               "unsatisfiable", "needsScaling", "creator"]),
    ("vpsc::Block", "struct Block", ["vars", "posn", "ps", "deleted", "timeStamp", "in", "out", "blocks"]),
    ("vpsc::IncSolver", "struct IncSolver", ["bs", "m", "n", "needsScaling", "splitCnt", "inactive", "violated"]),
]


def mirror_job(pre_filled, spec_text, mirror, name="mirror_layout"):
    """Job asserting that CBMC's layout of the C++ prelude classes (field offsets, array stride) equals the
    layout of the (packed) C mirror structs the contracts are written over."""
    cxx = "#include <verif_base.h>\n" + pre_filled + 'extern "C" {\n'
    checks = "void h_mirror(void) {\n"
    decl = ""
    for cxt, ct, fields in mirror:
        tag = re.sub(r'\W', '_', cxt)
        cxx += "size_t verif_stride_%s(void) { return (size_t)((char *)(((%s *)64) + 1) - (char *)((%s *)64)); }\n" % (tag, cxt, cxt)
        decl += "size_t verif_stride_%s(void);\n" % tag
        checks += '  __CPROVER_assert(verif_stride_%s() == sizeof(%s), "SPEC mirror: array stride of %s");\n' % (tag, ct, cxt)
        for f in fields:
            cxx += "size_t verif_off_%s_%s(void) { return (size_t)((char *)&(((%s *)64)->%s) - (char *)64); }\n" % (tag, f, cxt, f)
            decl += "size_t verif_off_%s_%s(void);\n" % (tag, f)
            checks += '  __CPROVER_assert(verif_off_%s_%s() == __builtin_offsetof(%s, %s), "SPEC mirror: offsetof(%s, %s)");\n' % (
                tag, f, ct, f, cxt, f)
    cxx += "}\n"
    checks += "  VERIF_CANARY;\n}\n"
    spec = spec_text.replace("@MIRROR_CHECKS@", decl + checks)
    return Job(name, "U", spec, "h_mirror", cxx=cxx, defines=["JOB_mirror_layout"], expect=[r'h_mirror\.assertion'],
               domain="layout facts (no inputs)", extra_checks=False, no_pointer_check=True,
               note="C mirror structs used in the contracts have the same field offsets and stride as CBMC's layout of the C++ prelude classes")


def fill(pre, position=None, uposition=None, slack=None, solver_extra="", inc_extra="", block_extra="", flavour="libvpsc"):
    pre = pre.replace("@SOLVER_CLASSES@", prelude("vpsc_solver_%s.h" % flavour))
    return (pre.replace("@SLICE:Variable::position@", position)
               .replace("@SLICE:Variable::unscaledPosition@", uposition)
               .replace("@SLICE:Constraint::slack@", slack)
               .replace("@BLOCK_EXTRA@", block_extra).replace("@SOLVER_EXTRA@", solver_extra).replace("@INCSOLVER_EXTRA@", inc_extra))


def struct_cast(fields_c, ptr="this"):
    """Anonymous-struct cast usable inside loop invariants (DESIGN 2.8)."""
    return "((struct{%s}*)%s)" % (fields_c, ptr)


INC_ANON = "void*vptr;void*bs;unsigned long m;"
THIS_M = "((struct{%s}__attribute__((packed))*)this)->m" % INC_ANON
THIS_M_AVOID = "((struct{unsigned splitCnt;void*bs;unsigned long m;}__attribute__((packed))*)this)->m"


REPLAY_SRC = r'''
// Native replay for C01 scan/addConstraint obligations: drives the REAL libvpsc (rebuilt from the working tree)
// into the class of states the failed obligation speaks about and checks the property on normal return:
// every constraint is flagged unsatisfiable or satisfied by the final positions to 1e-6.
#include "libvpsc/solve_VPSC.h"
#include "libvpsc/variable.h"
#include "libvpsc/constraint.h"
#include <cstdio>
#include <vector>
using namespace vpsc;
static int bad = 0;
static void check(const char *name, Constraints &cs) {
  for (size_t i = 0; i < cs.size(); ++i) {
    Constraint *c = cs[i];
    double s = c->right->scale * c->right->finalPosition - c->gap - c->left->scale * c->left->finalPosition;
    if (!c->unsatisfiable && !(s >= -1e-6)) {
      printf("%s: constraint %zu (var%d + %g <= var%d) returned unflagged with slack %g at final positions %g, %g\n",
             name, i, c->left->id, c->gap, c->right->id, s, c->left->finalPosition, c->right->finalPosition);
      bad++;
    }
  }
}
template <class SOLVER> static void stale_active(const char *name, bool viaAdd) {
  Variables vs; Constraints cs;
  vs.push_back(new Variable(0, 0.0)); vs.push_back(new Variable(1, 0.0)); vs.push_back(new Variable(2, 10.0));
  cs.push_back(new Constraint(vs[0], vs[2], 1.0));
  Constraint *k = new Constraint(vs[0], vs[1], 5.0);
  try {
    if (viaAdd) {
      IncSolver s(vs, cs); s.solve();
      k->active = true;            // a constraint object that has been active in an earlier solver
      cs.push_back(k); s.addConstraint(k); s.solve();
    } else {
      cs.push_back(k);
      SOLVER s(vs, cs);
      k->active = true;            // stale flag left by the (unverified) merge/split machinery
      s.satisfy();
    }
    check(name, cs);
  } catch (...) { printf("%s: exception (abnormal return: property not engaged)\n", name); }
}
int main() {
  stale_active<IncSolver>("IncSolver::satisfy with a stale active flag", false);
  stale_active<IncSolver>("addConstraint of a previously active constraint, then solve", true);
  stale_active<Solver>("Solver::satisfy with a stale active flag", false);
  if (bad) { printf("REPRODUCED: %d constraint(s) neither satisfied nor reported\n", bad); return 1; }
  printf("not reproduced by the replay scenarios\n"); return 0;
}
'''


def replay_scan(job, obl, inputs, workdir):
    lib = build_lib("libvpsc", workdir)
    rc, out = native_run(REPLAY_SRC, workdir, "replay_vpsc", extra=["-I", COLA], libs=[lib])
    if rc is None:
        return False, out
    return rc == 1, out


REPLAY_FLAG = r'''
// Native replay for "flags only on evidence": feasible inequality-only systems (acyclic constraint graphs with a known
// witness) must come back from IncSolver::solve() with NO constraint flagged unsatisfiable and every constraint satisfied.
#include "libvpsc/solve_VPSC.h"
#include "libvpsc/variable.h"
#include "libvpsc/constraint.h"
#include <cstdio>
using namespace vpsc;
static int run(const char *name, int groups, int len, int span) {
  Variables vs; Constraints cs;
  for (int g = 0; g < groups; ++g) for (int i = 0; i < len; ++i) vs.push_back(new Variable(g * len + i, 0.0));
  // v_i + (3s - 0.05 s^2) <= v_j for s = j - i = 1..span : a DAG, satisfied by x_i = 3 i
  for (int g = 0; g < groups; ++g) for (int i = 0; i < len; ++i) for (int s = 1; s <= span && i + s < len; ++s)
    cs.push_back(new Constraint(vs[g * len + i], vs[g * len + i + s], 3.0 * s - 0.05 * s * s));
  int flagged = 0, violated = 0;
  try {
    IncSolver solver(vs, cs); solver.solve();
    for (size_t k = 0; k < cs.size(); ++k) {
      if (cs[k]->unsatisfiable) flagged++;
      else if (cs[k]->right->finalPosition - cs[k]->gap - cs[k]->left->finalPosition < -1e-6) violated++;
    }
  } catch (...) { printf("%s: exception\n", name); return 0; }
  if (flagged || violated) printf("%s: %d constraint(s) flagged unsatisfiable and %d violated in a feasible system (%zu variables, %zu constraints)\n", name, flagged, violated, vs.size(), cs.size());
  return flagged + violated;
}
// two inequalities on the same ordered pair; the tighter one is added to the LIVE solver after the looser one has become the active tree
// edge: feasible, so nothing may be flagged and both must hold
static int parallel(double g1, double g2, double da, double db) {
  Variables vs; Constraints cs; vs.push_back(new Variable(0, da)); vs.push_back(new Variable(1, db));
  cs.push_back(new Constraint(vs[0], vs[1], g1));
  int bad = 0;
  try {
    IncSolver solver(vs, cs); solver.solve();
    Constraint *c2 = new Constraint(vs[0], vs[1], g2); cs.push_back(c2);
    solver.addConstraint(c2); solver.solve();
    for (size_t k = 0; k < cs.size(); ++k)
      if (cs[k]->unsatisfiable || cs[k]->right->finalPosition - cs[k]->gap - cs[k]->left->finalPosition < -1e-6) {
        printf("parallel constraints a+%g<=b then a+%g<=b added to the live solver (desired %g, %g): constraint %zu %s; a=%g b=%g\n", g1, g2, da, db, k,
               cs[k]->unsatisfiable ? "flagged unsatisfiable" : "violated", vs[0]->finalPosition, vs[1]->finalPosition); bad++; }
  } catch (...) { printf("parallel constraints: exception in a feasible system\n"); bad++; }
  return bad;
}
// an equality added to the live solver on top of a tight inequality with the same gap, then the desired positions change: the equality must
// hold (or be flagged) after the next solve()
static int live_equality(void) {
  Variables vs; Constraints cs; vs.push_back(new Variable(0, 5.0)); vs.push_back(new Variable(1, 5.0));
  cs.push_back(new Constraint(vs[0], vs[1], 3.0));
  int bad = 0;
  try {
    IncSolver solver(vs, cs); solver.solve();
    Constraint *eq = new Constraint(vs[0], vs[1], 3.0, true); cs.push_back(eq);
    solver.addConstraint(eq); solver.satisfy();
    vs[0]->desiredPosition = 0.0; vs[1]->desiredPosition = 10.0;
    solver.solve();
    double sl = vs[1]->finalPosition - 3.0 - vs[0]->finalPosition;
    if (!eq->unsatisfiable && (sl > 1e-6 || sl < -1e-6)) { printf("equality a+3==b added to the live solver: returned unflagged with slack %g (a=%g, b=%g)\n", sl, vs[0]->finalPosition, vs[1]->finalPosition); bad++; }
  } catch (...) { printf("live equality: exception in a feasible system\n"); bad++; }
  return bad;
}
// a constraint whose two ends are one variable, x + 3 <= x: false at every position, so it must come back flagged (or the solver must throw)
static int same_variable(void) {
  Variables vs; Constraints cs; vs.push_back(new Variable(0, 5.0)); vs.push_back(new Variable(1, 7.0));
  cs.push_back(new Constraint(vs[0], vs[1], 1.0)); Constraint *self = new Constraint(vs[0], vs[0], 3.0); cs.push_back(self);
  int bad = 0;
  try { IncSolver solver(vs, cs); solver.solve();
    if (!self->unsatisfiable) { printf("x + 3 <= x: returned unflagged (x=%g)\n", vs[0]->finalPosition); bad++; }
  } catch (...) { }
  return bad;
}
int main() {
  int bad = 0;
  bad += live_equality();
  bad += same_variable();
  bad += parallel(1, 3, 0, 0); bad += parallel(1, 3, 5, 0); bad += parallel(2, 7, 0, 1); bad += parallel(0, 1, 3, 3);
  bad += run("one chain of 20", 1, 20, 4);
  bad += run("one group of 100", 1, 100, 10);
  bad += run("fifty groups of 100", 50, 100, 10);
  if (bad) { printf("REPRODUCED: feasible constraints were flagged or left violated\n"); return 1; }
  printf("not reproduced by the replay scenarios\n"); return 0;
}
'''


def _avoid_src(src):
    """The same replay scenarios against libavoid's private copy of the solver (namespace Avoid, IncSolver only)."""
    src = src.replace('#include "libvpsc/solve_VPSC.h"\n#include "libvpsc/variable.h"\n#include "libvpsc/constraint.h"', '#include "libavoid/vpsc.h"')
    src = src.replace("using namespace vpsc;", "using namespace Avoid;")
    src = src.replace('  stale_active<Solver>("Solver::satisfy with a stale active flag", false);\n', '')
    return src


def replay_scan_avoid(job, obl, inputs, workdir):
    lib = build_lib("libavoid", workdir)
    rc, out = native_run(_avoid_src(REPLAY_SRC), workdir, "replay_vpsc_avoid", extra=["-I", COLA], libs=[lib])
    if rc is None:
        return False, out
    return rc == 1, out


def replay_flag_avoid(job, obl, inputs, workdir):
    lib = build_lib("libavoid", workdir, extra=("-O1",))
    rc, out = native_run(_avoid_src(REPLAY_FLAG), workdir, "replay_flag_avoid", extra=["-I", COLA, "-O1"], libs=[lib], timeout=600)
    if rc is None:
        return False, out
    return rc == 1, out


def replay_flag(job, obl, inputs, workdir):
    lib = build_lib("libvpsc", workdir, extra=("-O1",))
    rc, out = native_run(REPLAY_FLAG, workdir, "replay_flag", extra=["-I", COLA, "-O1"], libs=[lib], timeout=600)
    if rc is None:
        return False, out
    return rc == 1, out


def _jobs(tier, fl):
    AV = (fl == "libavoid")
    SV = "libavoid/vpsc.cpp" if AV else "libvpsc/solve_VPSC.cpp"
    VH = CH = "libavoid/vpsc.h" if AV else None
    if not AV:
        VH, CH = "libvpsc/variable.h", "libvpsc/constraint.h"
    js = []
    pre = prelude("vpsc.h").replace("@SOLVER_CLASSES@", prelude("vpsc_solver_%s.h" % fl))
    S = {}
    S["position"] = slice_func(VH, r'^\s*inline double position\(void\) const', "Variable::position")
    S["uposition"] = slice_func(VH, r'^\s*inline double unscaledPosition\(void\) const', "Variable::unscaledPosition")
    S["slack"] = slice_func(CH, r'^\s*inline double slack\(void\) const', "Constraint::slack")
    S["zero"] = slice_lines(SV, r'^static const double ZERO_UPPERBOUND=-1e-10;', 1, "ZERO_UPPERBOUND")
    S["using"] = slice_lines(SV, r'^using namespace std;', 1, "using namespace std")
    S["copyResult"] = slice_func(SV, r'^void %s::copyResult\(\)' % ("IncSolver" if AV else "Solver"), ("IncSolver" if AV else "Solver") + "::copyResult")
    S["incsatisfy"] = slice_func(SV, r'^bool IncSolver::satisfy\(\)', "IncSolver::satisfy")
    if not AV:
        S["satisfy"] = slice_func(SV, r'^bool Solver::satisfy\(\)', "Solver::satisfy")
        S["refine"] = slice_func(SV, r'^void Solver::refine\(\)', "Solver::refine")
        S["solve"] = slice_func(SV, r'^bool Solver::solve\(\)', "Solver::solve")
    S["incsolve"] = slice_func(SV, r'^bool IncSolver::solve\(\)', "IncSolver::solve")
    S["addConstraint"] = slice_func(SV, r'^void IncSolver::addConstraint\(Constraint \*c\)', "IncSolver::addConstraint")

    real_filled = fill(pre, S["position"].text, S["uposition"].text, S["slack"].text)
    if AV:
        tr = lambda t: t.replace("vpsc::", "Avoid::")
        layout.check_layout("avoid_vpsc", real_filled.replace("namespace vpsc", "namespace Avoid"), ["libavoid/vpsc.h"],
                            [(tr(t), f) for t, f in LAYOUT_FIELDS if t not in ("vpsc::Solver", "vpsc::Blocks")] + [("Avoid::IncSolver", ["bs", "m", "n", "needsScaling"])],
                            sizes=[tr(t) for t in LAYOUT_SIZES if t not in ("vpsc::Solver", "vpsc::Blocks")])
    else:
        layout.check_layout("vpsc", real_filled,
                            ["libvpsc/variable.h", "libvpsc/constraint.h", "libvpsc/block.h", "libvpsc/blocks.h", "libvpsc/solve_VPSC.h"],
                            LAYOUT_FIELDS, sizes=LAYOUT_SIZES)
    spec = spec_header() + rd(HERE, "vpsc.spec.c")
    base = "#include <verif_base.h>\n"
    js.append(mirror_job(real_filled, spec, MIRROR))

    # ---- position / unscaledPosition: real bodies
    wpos = ('extern "C" double w_position(void *v) { return ((vpsc::Variable *)v)->position(); }\n'
            'extern "C" double w_unscaledPosition(void *v) { return ((vpsc::Variable *)v)->unscaledPosition(); }\n')
    js.append(Job("position", "U", spec, "h_position", cxx=base + real_filled + wpos, enforce="w_position",
                  defines=["JOB_position"], slices=[S["position"]], domain="all doubles, any valid variable/block",
                  expect=[r'pointer_dereference']))
    js.append(Job("unscaledPosition", "U", spec, "h_unscaledPosition", cxx=base + real_filled + wpos,
                  enforce="w_unscaledPosition", defines=["JOB_unscaledPosition"], slices=[S["uposition"]],
                  domain="all doubles, scale == 1", expect=[r'postcondition', r'assertion']))
    # ---- slack: real body, position()/unscaledPosition() behind shims
    slack_filled = fill(pre, SHIM_POSITION, SHIM_UPOSITION, S["slack"].text)
    slack_cxx = base + EXTERN + slack_filled + 'extern "C" double w_slack(void *c) { return ((vpsc::Constraint *)c)->slack(); }\n'
    js.append(Job("slack_exact", "D", spec, "h_slack", cxx="#define double long long\n#define VERIF_INT_MODE\n" + slack_cxx,
                  enforce="w_slack", replace=["w_position", "w_unscaledPosition"], defines=["JOB_slack", "INT_MODE"],
                  slices=[S["slack"]], timeout=600,
                  domain="scaled-integer mode (double retyped long long, overflow-checked): gap and positions integers with |v| <= 2^20, scales in [1,4]; "
                         "IEEE floating-point equality of two sub/mul chains is out of reach of every installed back end (DESIGN 3)",
                  expect=[r'w_slack\.postcondition', r'precondition', r'assertion']))
    # the same contract when both ends are ONE variable (x + g <= x): separately fresh ends exclude that shape
    js.append(Job("slack_exact_same_variable", "D", spec, "h_slack", cxx="#define double long long\n#define VERIF_INT_MODE\n" + slack_cxx,
                  enforce="w_slack", replace=["w_position", "w_unscaledPosition"], defines=["JOB_slack", "INT_MODE", "SLACK_SAME_VARIABLE"],
                  slices=[S["slack"]], timeout=600, replay=replay_flag,
                  domain="as slack_exact, with left and right the same variable",
                  expect=[r'w_slack\.postcondition', r'precondition', r'assertion']))
    # ---- scan tails
    shim_filled = fill(pre, SHIM_POSITION, SHIM_UPOSITION, SHIM_SLACK,
                       solver_extra="" if AV else "\tbool verif_satisfy_tail();\n\tvoid verif_refine_tail();\n",
                       inc_extra="\tbool verif_incsatisfy_tail();\n")
    callee_shims = ("void Blocks::cleanup() { w_blocks_cleanup((void *)this); }\n"
                    "double Blocks::cost() { return w_blocks_cost((void *)this); }\n"
                    "size_t Blocks::size() const { return w_blocks_size((void *)this); }\n")
    cr_shim = "void %s::copyResult() { w_copyResult((void *)this); }\n" % ("IncSolver" if AV else "Solver")

    # "element i of the solver's constraint vector is object i of a pool of distinct live constraints": a quantified precondition, instantiated
    # at each cs[i] through the stub vector's element hook (assume AND store: an assumption does not extend CBMC's points-to sets)
    HOOK = ('extern "C" { void *verif_g_cs; void *verif_pool; }\n'
            'extern "C" void verif_vector_element_hook(const void *vec, size_t i, const void *slot) {\n'
            "  if (vec == (const void *)verif_g_cs) {\n"
            "    __CPROVER_assume(*(%s::Constraint *const *)slot == (%s::Constraint *)verif_pool + i);\n"
            "    *(%s::Constraint **)slot = (%s::Constraint *)verif_pool + i; } }\n") % (("Avoid",) * 4 if AV else ("vpsc",) * 4)
    CS_D = "((struct{void*d;unsigned long n;unsigned long cap;}__attribute__((packed))*)verif_g_cs)->d"
    def tail_tu(member, ret, locals_, tail_text, wrapper):
        return ("#define VERIF_VECTOR_ELEMENT_HOOK\n" + base + EXTERN + HOOK + shim_filled + S["using"].text + "\nnamespace vpsc {\n" + S["zero"].text + "\n" +
                callee_shims + cr_shim + "%s %s()\n{\n%s\n%s\n}\n" % (ret, member, locals_, tail_text) + "}\n" + wrapper)

    # IncSolver::satisfy: tail from `bs->cleanup();`
    t = fragment_tail(S["incsatisfy"], r'bs->cleanup\(\);', "IncSolver::satisfy [tail from bs->cleanup()]")
    ttext = subst(t, [(r'throw (?:\(char \*\) )?s\.str\(\)\.c_str\(\);', '{ verif_thrown = 1; return false; }', 1)])
    def scan_loop(sym, imap):
        return loops_file([loop_contract(sym, 0,
                                         "i <= %s && (verif_K_idx < i ==> !(verif_Kslack < -1e-10))" % (THIS_M_AVOID if AV else THIS_M),
                                         ", ".join(k for k in imap if k != "this") + ", __CPROVER_object_whole(%s)" % CS_D, "%s - i" % (THIS_M_AVOID if AV else THIS_M), imap)])
    js.append(Job("incsatisfy_tail", "U", spec, "h_incsatisfy_tail", replay=replay_scan,
                  cxx=tail_tu("IncSolver::verif_incsatisfy_tail", "bool", "    Constraint* v = nullptr;", ttext,
                              'extern "C" bool w_incsatisfy_tail(void *s, size_t K) { verif_g_cs = (void *)&((vpsc::IncSolver *)s)->cs; '
                              'return ((vpsc::IncSolver *)s)->verif_incsatisfy_tail(); }\n'),
                  enforce="w_incsatisfy_tail", replace=["w_slack", "w_blocks_cleanup", "w_copyResult"],
                  defines=["JOB_incsatisfy_tail", "CALLEES_GHOST"], slices=[S["incsatisfy"], t],
                  loops=scan_loop("vpsc::IncSolver::verif_incsatisfy_tail(this)",
                                  {"i": "1::1::i", "v": "1::v", "activeConstraints": "1::activeConstraints", "this": "this"}),
                  domain="every solver state, every m in [1,10^6] (the constraints a pool of distinct live objects), ghost constraint index K < m",
                  expect=[r'postcondition', r'loop_invariant_base', r'loop_invariant_step', r'loop_decreases']))
    if not AV:
        # Solver::satisfy: tail from `bs->cleanup();`  (the prefix's local list is deleted in the tail: dropped)
        t2 = fragment_tail(S["satisfy"], r'bs->cleanup\(\);', "Solver::satisfy [tail from bs->cleanup()]")
        t2text = subst(t2, [(r'throw UnsatisfiedConstraint\(\*cs\[i\]\);', '{ verif_thrown = 1; return false; }', 1),
                            (r'delete vList;', '/* delete vList; (local of the dropped prefix) */', 1)])
        js.append(Job("satisfy_tail", "U", spec, "h_satisfy_tail", replay=replay_scan,
                      cxx=tail_tu("Solver::verif_satisfy_tail", "bool", "", t2text,
                                  'extern "C" bool w_satisfy_tail(void *s, size_t K) { verif_g_cs = (void *)&((vpsc::Solver *)s)->cs; return ((vpsc::Solver *)s)->verif_satisfy_tail(); }\n'),
                      enforce="w_satisfy_tail", replace=["w_slack", "w_blocks_cleanup", "w_copyResult"],
                      defines=["JOB_satisfy_tail", "CALLEES_GHOST"], slices=[S["satisfy"], t2],
                      loops=scan_loop("vpsc::Solver::verif_satisfy_tail(this)",
                                      {"i": "1::1::i", "activeConstraints": "1::activeConstraints", "this": "this"}),
                      domain="every solver state, every m in [1,10^6] (the constraints a pool of distinct live objects), ghost constraint index K < m",
                      expect=[r'postcondition', r'loop_invariant_base', r'loop_invariant_step', r'loop_decreases']))
        # Solver::refine: tail = the final scan loop
        t3 = fragment_tail(S["refine"], r'for\(unsigned i=0;i<m;i\+\+\) \{\s*if\(cs\[i\]->slack\(\) < ZERO_UPPERBOUND\)', "Solver::refine [tail: final scan]")
        # the COLA_ASSERT inside the throwing branch restates the branch condition negated: it is the code's claim that
        # the branch is never reached (C01 completeness, undecided); reaching it is an abnormal exit like the throw
        t3text = subst(t3, [(r'COLA_ASSERT\(cs\[i\]->slack\(\)>ZERO_UPPERBOUND\);', '{ verif_thrown = 1; return; } /* assertion = abnormal exit */', 1),
                            (r'throw UnsatisfiedConstraint\(\*cs\[i\]\);', '{ verif_thrown = 1; return; }', 1)])
        js.append(Job("refine_tail", "U", spec, "h_refine_tail", replay=replay_scan,
                      cxx=tail_tu("Solver::verif_refine_tail", "void", "", t3text,
                                  'extern "C" void w_refine_tail(void *s, size_t K) { verif_g_cs = (void *)&((vpsc::Solver *)s)->cs; ((vpsc::Solver *)s)->verif_refine_tail(); }\n'),
                      enforce="w_refine_tail", replace=["w_slack"],
                      defines=["JOB_refine_tail", "CALLEES_GHOST"], slices=[S["refine"], t3],
                      loops=scan_loop("vpsc::Solver::verif_refine_tail(this)", {"i": "1::1::i", "this": "this"}),
                      domain="every solver state, every m in [1,10^6] (the constraints a pool of distinct live objects), ghost constraint index K < m",
                      expect=[r'postcondition', r'loop_invariant_base', r'loop_invariant_step', r'loop_decreases']))
    # ---- solve() drivers: satisfy/refine/copyResult/cost/size replaced by their contracts
    drv_filled = fill(pre, SHIM_POSITION, SHIM_UPOSITION, SHIM_SLACK)
    def drv_tu(extra_shims, sl, wrapper):
        return (base + EXTERN + drv_filled + S["using"].text + "\nnamespace vpsc {\n" + callee_shims + cr_shim + extra_shims +
                sl.text + "\n}\n" + wrapper)
    inc_sym = "vpsc::IncSolver::solve(this)"
    js.append(Job("incsolve", "U", spec, "h_incsolve",
                  cxx=drv_tu("bool IncSolver::satisfy() { return w_satisfy((void *)this); }\n", S["incsolve"],
                             'extern "C" bool w_incsolve(void *s) { return ((vpsc::IncSolver *)s)->solve(); }\n'),
                  enforce="w_incsolve", replace=["w_satisfy", "w_copyResult", "w_blocks_cost", "w_blocks_size"],
                  defines=["JOB_incsolve"], slices=[S["incsolve"]],
                  loops=loops_file([loop_contract(inc_sym, 0, "!verif_thrown ==> (!(verif_Kslack < -1e-10) && verif_final_ok)",
                                                  "lastcost, cost, verif_Kslack, verif_final_ok, verif_thrown", None,
                                                  {"lastcost": "1::lastcost", "cost": "1::cost"})]),
                  domain="every solver state; termination of the cost loop not claimed",
                  expect=[r'w_incsolve\.postcondition', r'loop_invariant_base', r'loop_invariant_step']))
    if not AV:
        js.append(Job("solve", "U", spec, "h_solve",
                      cxx=drv_tu("bool Solver::satisfy() { return w_satisfy((void *)this); }\nvoid Solver::refine() { w_refine((void *)this); }\n",
                                 S["solve"], 'extern "C" bool w_solve(void *s) { return ((vpsc::Solver *)s)->solve(); }\n'),
                      enforce="w_solve", replace=["w_satisfy", "w_refine", "w_copyResult", "w_blocks_size"],
                      defines=["JOB_solve"], slices=[S["solve"]], domain="every solver state",
                      expect=[r'w_solve\.postcondition']))
    # ---- copyResult: loop body fragment (unbounded, one arbitrary element) + whole loop (bounded)
    hdr, body = fragment_loop(S["copyResult"], r'for\(Variables::const_iterator i=vs\.begin\(\);i!=vs\.end\(\);\+\+i\)',
                              "Solver::copyResult [loop body]")
    body_cxx = (base + EXTERN + fill(pre, SHIM_POSITION, SHIM_UPOSITION, SHIM_SLACK) + "namespace vpsc {\n"
                "static void verif_copyResult_body(Variables::const_iterator i)\n" + body_continue_to_return(body) + "\n}\n"
                'extern "C" void w_copyResult_body(void *slot) { vpsc::verif_copyResult_body((vpsc::Variable *const *)slot); }\n')
    js.append(Job("copyResult_body", "U", spec, "h_copyResult_body", cxx=body_cxx, enforce="w_copyResult_body",
                  replace=["w_position"], defines=["JOB_copyResult_body"], slices=[S["copyResult"], body],
                  domain="one arbitrary valid variable, every position value that is a number",
                  expect=[r'postcondition', r'assigns', r'assertion']))
    nmax = 4 if tier == "quick" else 6
    loop_cxx = (base + real_filled + "namespace vpsc {\n" + S["copyResult"].text + "\n}\n"
                'extern "C" void w_copyResult(void *s) { ((vpsc::%s *)s)->copyResult(); }\n' % ("IncSolver" if AV else "Solver"))
    js.append(Job("copyResult_loop", "B", spec, "h_copyResult_loop", cxx=loop_cxx, defines=["JOB_copyResult_loop", "NMAX=%d" % nmax],
                  unwind=nmax + 2, bound="n <= %d variables (unwind %d, unwinding assertions on)" % (nmax, nmax + 2),
                  slices=[S["copyResult"], S["position"]], domain="n <= %d distinct variables, integer-valued positions, scale 1" % nmax,
                  expect=[r'h_copyResult_loop\.assertion', r'unwind'], timeout=600))
    # ---- addConstraint
    add_cxx = (base + EXTERN + fill(pre, SHIM_POSITION, SHIM_UPOSITION, SHIM_SLACK) + "namespace vpsc {\n" + S["addConstraint"].text + "\n}\n"
               'extern "C" void w_addConstraint(void *s, void *c) { ((vpsc::IncSolver *)s)->addConstraint((vpsc::Constraint *)c); }\n')
    js.append(Job("addConstraint", "U", spec, "h_addConstraint", replay=replay_scan, cxx=add_cxx, enforce="w_addConstraint",
                  defines=["JOB_addConstraint"], slices=[S["addConstraint"]],
                  domain="every solver/constraint state; stub vectors with spare capacity (no reallocation model)",
                  expect=[r'postcondition', r'assigns']))
    js.append(Job("addConstraint_same_variable", "U", spec, "h_addConstraint", replay=replay_flag, cxx=add_cxx, enforce="w_addConstraint",
                  defines=["JOB_addConstraint", "ADD_SAME_VARIABLE"], slices=[S["addConstraint"]],
                  domain="as addConstraint, with left and right the same variable (its in- and out-lists are two vectors of one object)",
                  expect=[r'postcondition', r'assigns']))
    if not AV:
        # ---- Solver::Solver: construction facts the chain relies on (body fragment unbounded + whole constructor bounded)
        S["ctor"] = slice_func(SV, r'^Solver::Solver\(Variables const &vs, Constraints const &cs\)', "Solver::Solver")
        h1, cb1 = fragment_loop(S["ctor"], r'for\(unsigned i=0;i<n;\+\+i\)', "Solver::Solver [first loop body]")
        ctor_filled = fill(pre, SHIM_POSITION, SHIM_UPOSITION, SHIM_SLACK, solver_extra="\tvoid verif_ctor_body1(unsigned i);\n")
        b1_cxx = (base + EXTERN + ctor_filled + "namespace vpsc {\nvoid Solver::verif_ctor_body1(unsigned i)\n" + body_continue_to_return(cb1) + "\n}\n"
                  'extern "C" void w_ctor_body1(void *s, unsigned i) { ((vpsc::Solver *)s)->verif_ctor_body1(i); }\n')
        js.append(Job("Solver_ctor_body1", "U", spec, "h_ctor_body1", cxx=b1_cxx, enforce="w_ctor_body1", defines=["JOB_ctor_body1"], slices=[S["ctor"], cb1],
                      domain="one arbitrary variable of a vector of any length", expect=[r'postcondition', r'assigns']))
    # ---- IncSolver::satisfy: one iteration of the merge/split loop, callees behind ghost-cell contracts: flags only on evidence
    hdrm, mb = fragment_loop(S["incsatisfy"], r'while \( \(v = mostViolated\(inactive\)\) &&', "IncSolver::satisfy [merge/split loop body]")
    mb.text = body_continue_to_return(mb)
    mtext = subst(mb, [(r'\btry\s*\{', '{', 1),
                       (r'\}\s*catch\(UnsatisfiableException e\)\s*\{', '} if (verif_split_threw) { UnsatisfiableException e;', 1),
                       (r'e\.path\.push_back\(v\);', '/* e.path.push_back(v) -- diagnostic path dropped */', 2),   # one of the two hits is inside a commented-out block
                       (r'\bdelete \(', 'w_delete_block((void *)(', 1), (r'\(lb->deleted\) \? lb : rb\);', '(lb->deleted) ? lb : rb));', 1)])
    mshims = ('extern "C" { extern bool verif_split_threw; bool w_isActivePath(void *, void *, void *); void *w_splitBetween(void *, void *, void *, void **, void **);\n'
              'void *w_block_merge(void *, void *, void *); void w_blocks_insert(void *, void *); void w_delete_block(void *); }\n')
    mdefs = ("Block* Block::merge(Block *b, Constraint *c) { return (Block *)w_block_merge((void *)this, (void *)b, (void *)c); }\n"
             "bool Block::isActiveDirectedPathBetween(Variable const* u, Variable const* v) const { return w_isActivePath((void *)this, (void *)u, (void *)v); }\n"
             "Constraint* Block::splitBetween(Variable* vl, Variable* vr, Block* &lb, Block* &rb) { return (Constraint *)w_splitBetween((void *)this, (void *)vl, (void *)vr, (void **)&lb, (void **)&rb); }\n"
             "void Blocks::insert(Block *block) { w_blocks_insert((void *)this, (void *)block); }\n")
    m_filled = fill(pre, SHIM_POSITION, SHIM_UPOSITION, SHIM_SLACK, inc_extra="\tvoid verif_merge_body(Constraint *v);\n")
    m_cxx = (base + EXTERN + mshims + m_filled + S["using"].text + "\nnamespace vpsc {\n" + S["zero"].text + "\n" + mdefs +
             "void IncSolver::verif_merge_body(Constraint *v)\n{\n" +
             "".join("    " + d + "\n" for d in scalar_local_decls(S["incsatisfy"], r'while \( \(v = mostViolated\(inactive\)\) &&')) +
             mtext + "\n}\n}\n"
             'extern "C" void w_merge_body(void *s, void *v) { ((vpsc::IncSolver *)s)->verif_merge_body((vpsc::Constraint *)v); }\n')
    js.append(Job("incsatisfy_flag_on_evidence", "U", spec, "h_merge_body", cxx=m_cxx,
                  defines=["JOB_flag_on_evidence"], slices=[S["incsatisfy"], mb],
                  domain="every solver/constraint state, every outcome of the callees (cycle found or not, split result null or not, exception or not)",
                  expect=[r'h_merge_body\.assertion'], replay=replay_flag))
    # ---- Block::findMinLMBetween / split_path: a DIRECT active inequality between the two variables is found as the split point, so no
    #      "no split point" exception (which IncSolver::satisfy turns into an unsatisfiable flag) can arise for it  [completeness fragment]
    BK = "libavoid/vpsc.cpp" if AV else "libvpsc/block.cpp"
    fm = slice_func(BK, r'^Constraint \*Block::findMinLMBetween\(Variable\* const lv, Variable\* const rv\)', "Block::findMinLMBetween")
    sp = slice_func(BK, r'^bool Block::split_path\(', "Block::split_path")
    cfl = slice_func(BK, r'^inline bool Block::canFollowLeft\(Constraint const\* c, Variable const\* last\) const', "Block::canFollowLeft")
    cfr = slice_func(BK, r'^inline bool Block::canFollowRight\(Constraint const\* c, Variable const\* last\) const', "Block::canFollowRight")
    sp_hdr, sp_body = body_of(sp.text)
    if not re.search(r'split_path\(\s*Variable\* r,\s*Variable\* const v,\s*Variable\* const u,\s*Constraint\* &m,\s*bool desperation=false\s*\)\s*$', sp_hdr):
        raise Undecided("C01: signature of Block::split_path changed")
    sp_sl = Slice("Block::split_path [body]", sp.rel, sp_body, sp.line, kind="function-body")
    sp_text = subst(sp_sl, [(r'\bsplit_path\(r,c->(left|right),v,m\)', r'verif_rec_split_path(r,c->\1,v,m)', 2)])
    fm_text = subst(fm, [(r'throw e;', '{ verif_thrown = 1; return nullptr; }', 1)])
    bx = ("\ttypedef Constraints::iterator Cit;\n\tConstraint* findMinLMBetween(Variable* const lv, Variable* const rv);\n"
          "\tbool split_path(Variable* r, Variable* const v, Variable* const u, Constraint* &m, bool desperation=false);\n"
          "\tbool verif_rec_split_path(Variable* r, Variable* const v, Variable* const u, Constraint* &m) { return w_rec_split_path((void *)this, (void *)r, (void *)v, (void *)u); }\n"
          "\tbool canFollowLeft(Constraint const* c, Variable const* last) const;\n\tbool canFollowRight(Constraint const* c, Variable const* last) const;\n"
          "\tvoid reset_active_lm(Variable* const v, Variable* const u) { w_recompute_lm((void *)this); }\n"
          "\tdouble compute_dfdv(Variable* const v, Variable* const u) { w_recompute_lm((void *)this); return 0; }\n"
          "\tbool getActivePathBetween(std::vector<Constraint*>& path, Variable const* u, Variable const* v, Variable const *w) const { return false; }   // diagnostic path of the exception: dropped\n")
    fm_filled = fill(pre, SHIM_POSITION, SHIM_UPOSITION, SHIM_SLACK, block_extra=bx)
    fm_cxx = (base + EXTERN + 'extern "C" { bool w_rec_split_path(void *b, void *r, void *v, void *u); void w_recompute_lm(void *b); }\n' + fm_filled + S["using"].text +
              "\nnamespace vpsc {\n" + cfl.text + "\n" + cfr.text + "\n" + sp_hdr.replace("bool desperation=false", "bool desperation") + "{" + sp_text + "}\n" + fm_text + "\n}\n"
              'extern "C" void *w_findMinLM(void *b, void *lv, void *rv) { return (void *)((vpsc::Block *)b)->findMinLMBetween((vpsc::Variable *)lv, (vpsc::Variable *)rv); }\n')
    js.append(Job("findMinLM_direct_edge", "B", spec, "h_findMinLM", cxx=fm_cxx, defines=["JOB_findMinLM"], slices=[fm, sp, cfl, cfr], unwind=6,
                  flags=["--sat-solver", "cadical"], backend="sat:cadical", timeout=900, replay=replay_flag,
                  bound="lv with at most 2 in- and 3 out-constraints over 4 variables (loops unwound 6 times with unwinding assertions); dfcc with loop contracts ran out of memory on this function",
                  domain="every block state over 4 variables in which one out-constraint of lv is an active inequality to rv and the active constraints form a tree "
                         "(assumed: no second active connection lv-rv; the recursive search through any other constraint does not reach rv)",
                  expect=[r'h_findMinLM\.assertion', r'unwind']))
    # (Block::isActiveDirectedPathBetween -- the "cycle found" evidence -- was tried as a bounded plain harness: 3 variables, <= 2 acyclic constraints, answer == reachability
    #  along active in-block constraints.  cbmc did not finish in 600 s / 240 s (recursion x iterator loops), so it is NOT under obligation; seed C01-2 stays a miss.)
    if AV:
        # the libavoid copy lives in namespace Avoid: generated wrappers/shims and loop-contract symbols are renamed accordingly
        import json as _json
        for j in js:
            j.name = "libavoid_" + j.name
            j.cxx = j.cxx.replace("namespace vpsc", "namespace Avoid").replace("vpsc::", "Avoid::")
            j.defines = list(j.defines) + ["FLAVOUR_AVOID"]
            if j.loops:
                j.loops = _json.loads(_json.dumps(j.loops).replace("vpsc::", "Avoid::").replace("vpsc\\\\:\\\\:", "Avoid\\\\:\\\\:"))
            j.domain = "[libavoid's private copy of the solver, libavoid/vpsc.cpp] " + j.domain
            if j.replay is replay_scan:
                j.replay = replay_scan_avoid
            elif j.replay is replay_flag:
                j.replay = replay_flag_avoid
    return js


def jobs(tier):
    js = _jobs(tier, "libvpsc") + _jobs(tier, "libavoid")
    # ---- the work list of IncSolver::satisfy: mostViolated() takes out of `inactive` exactly the constraint it returns (job of the C15 check, where it
    #      carries the memory-safety obligations; run here for its no-drop postconditions: a constraint silently lost from the work list would never be
    #      enforced nor flagged)
    sp = importlib.util.spec_from_file_location("jobs_C15_for_C01", os.path.join(VERIF, "contracts", "C15", "jobs.py"))
    m15 = importlib.util.module_from_spec(sp); sp.loader.exec_module(m15)
    for fl in ("libvpsc", "libavoid"):
        j = m15.mostViolated_job(fl)
        j.name = ("libavoid_" if fl == "libavoid" else "") + "worklist_pick_removes_only_what_it_returns"
        j.replay = replay_flag if fl == "libvpsc" else replay_flag_avoid
        j.note = (j.note + " " if j.note else "") + "[job of the C15 check, run here as well]"
        js.append(j)
    return js


LEVEL = "proof"
TRUSTED = [
    "cbmc/goto-cc/goto-instrument 6.11.0 and the MiniSat back end",
    "stub std::vector / ostringstream models (stubs/); exception unwinding modelled as 'set verif_thrown and return' (throw expressions dropped)",
    "prelude/vpsc.h (field order/types cross-checked against the real headers on every run; C mirrors cross-checked against CBMC's layout by job mirror_layout)",
    "ghost-cell reading: verif_Kslack stands for the value slack() returns for the ghost constraint K in the current state; callee contracts that change "
    "solver state list it in assigns (havoc), read-only callees do not -- the assignment of callees to the two groups is by inspection "
    "(Blocks::cleanup, satisfy, refine change state; copyResult writes only finalPosition; Blocks::cost/size read only)",
    "composition on paper: slack contract (definition of slack over position()) + scan postcondition (for every K, not (slack(K) < -1e-10)) + copyResult "
    "(finalPosition == position()) => every unflagged constraint has right.scale*right.final - gap - left.scale*left.final >= -1e-10 on normal return",
    "the paper step from 'copyResult loop body for one arbitrary element' + 'whole loop for n <= 4' to all n (DESIGN 2.9)",
    "scan jobs: 'element i of the constraint vector is object i of a pool of distinct live constraints' is a precondition, instantiated at each cs[i] by the stub vector's element hook "
    "(pointer checks on; the hook stores into the slot the value it is assumed to hold, so the slots are in the jobs' frames)",
    "slack_exact / slack_exact_same_variable (left and right one variable): machine arithmetic treated as mathematical (double retyped long long, overflow-checked)",
]
ASSUMPTIONS = [
    "caller duty of IncSolver::addConstraint: the constraint is also appended to the vector the solver's cs reference aliases (both call sites in libcola/colafd.cpp push first)",
    "Solver construction establishes m == cs.size() and needsScaling iff some variable scale != 1: the first loop body is under contract (unbounded, one arbitrary variable: needsScaling accumulates scale != 1); the constructor as a whole is NOT -- cbmc's C++ front end rejects its reference-member initialisers ('bad reference initializer') and crashes (SIGSEGV in goto-check) on the second loop body's contract -- so m == cs.size(), c->needsScaling == needsScaling and the all-elements step remain assumptions",
    "incsatisfy_flag_on_evidence also asserts that the constraint taken from the work list is not dropped (active, flagged, or re-queued after the iteration); assumed there: "
    "Block::merge(b, c) makes c active (block.cpp sets c->active = true)",
    "findMinLM_direct_edge (both solver copies) is a BOUNDED completeness fragment: when an active inequality joins lv and rv directly, Block::findMinLMBetween returns it and does not "
    "raise the 'no split point' exception that IncSolver::satisfy turns into an unsatisfiable flag; assumed: the active constraints of a block form a tree (no second active "
    "connection between the two variables, the recursive search through any other constraint does not reach rv); recomputation of the multipliers is a no-op here",
    "NOT decided (residue): completeness (a feasible system is never flagged/thrown on; cyclic ones are flagged), finiteness (a NaN slack passes the scan), "
    "tightness of active constraints after Block::merge, histories beyond single calls, termination of IncSolver::solve's cost loop",
]
EXPLANATION = ("[Both copies of the solver are under contract: libvpsc (jobs without prefix) and libavoid's private copy in libavoid/vpsc.cpp (jobs libavoid_*).] "
               "Soundness-on-normal-return chain of the VPSC solvers under contract: Constraint::slack equals the separation's slack; the final scans of "
               "IncSolver::satisfy, Solver::satisfy and Solver::refine (tail fragments, loop contracts, any m) leave no constraint with slack < -1e-10 on "
               "normal return from EVERY state the merge/split machinery could produce; solve()/IncSolver::solve() keep that up to their return and copy the "
               "positions last; addConstraint adds an inactive constraint and nothing else; one iteration of the merge/split loop of IncSolver::satisfy relaxes (flags) a constraint "
               "only on evidence from its callees (cycle found, nothing to split, unsatisfiability reported); mostViolated() takes out of the work list exactly the constraint it returns (both copies).")
