"""C01 jobs: VPSC -- satisfied on return or reported (DESIGN.md section 5, C01)."""
import os
from vf import *
from common import *
import layout

HERE = os.path.dirname(os.path.abspath(__file__))
SV, VH, CH = "libvpsc/solve_VPSC.cpp", "libvpsc/variable.h", "libvpsc/constraint.h"

EXTERN = '''extern "C" {
double w_position(void *v); double w_unscaledPosition(void *v); double w_slack(void *c);
void w_blocks_cleanup(void *bs); double w_blocks_cost(void *bs); size_t w_blocks_size(void *bs);
void w_copyResult(void *s); bool w_satisfy(void *s); void w_refine(void *s);
}
'''
SHIM_POSITION = "\tdouble position(void) const { return w_position((void *)this); }\n"
SHIM_UPOSITION = "\tdouble unscaledPosition(void) const { return w_unscaledPosition((void *)this); }\n"
SHIM_SLACK = "\tdouble slack(void) const { return w_slack((void *)this); }\n"

LAYOUT_FIELDS = [
    ("vpsc::Variable", ["id", "desiredPosition", "finalPosition", "weight", "scale", "offset", "block", "visited",
                        "fixedDesiredPosition", "in", "out"]),
    ("vpsc::Constraint", ["left", "right", "gap", "lm", "timeStamp", "active", "equality", "unsatisfiable",
                          "needsScaling", "creator"]),
    ("vpsc::Block", ["vars", "posn", "ps", "deleted", "timeStamp", "in", "out", "blocks"]),
    ("vpsc::PositionStats", ["scale", "AB", "AD", "A2"]),
    ("vpsc::Solver", ["bs", "m", "n", "needsScaling"]),
    ("vpsc::IncSolver", ["splitCnt", "inactive", "violated"]),
    ("vpsc::Blocks", ["blockTimeCtr", "m_blocks", "nvs"]),
]
LAYOUT_SIZES = ["vpsc::Variable", "vpsc::Constraint", "vpsc::Block", "vpsc::Solver", "vpsc::IncSolver", "vpsc::Blocks"]

# C mirror  <->  CBMC's layout of the prelude classes
MIRROR = [
    ("vpsc::Variable", "struct Variable", ["id", "desiredPosition", "finalPosition", "weight", "scale", "offset", "block",
                                           "visited", "fixedDesiredPosition", "in", "out"]),
    ("vpsc::Constraint", "struct Constraint", ["left", "right", "gap", "lm", "timeStamp", "active", "equality",
                                               "unsatisfiable", "needsScaling", "creator"]),
    ("vpsc::Block", "struct Block", ["vars", "posn", "ps", "deleted", "timeStamp", "in", "out", "blocks"]),
    ("vpsc::IncSolver", "struct IncSolver", ["bs", "m", "n", "needsScaling", "splitCnt", "inactive", "violated"]),
]


def mirror_job(pre_filled, spec_text, mirror, name="mirror_layout"):
    """Job asserting that CBMC's layout of the C++ prelude classes (field offsets, array stride) equals the
    layout of the (packed) C mirror structs the contracts are written over."""
    cxx = "#include <verif_base.h>\n" + pre_filled + 'extern "C" {\n'
    checks = "void h_mirror(void) {\n"
    decl = ""
    for cxt, ct, fields in mirror:
        tag = re.sub(r'\W', '_', cxt)
        cxx += "size_t verif_stride_%s(void) { return (size_t)((char *)(((%s *)64) + 1) - (char *)((%s *)64)); }\n" % (tag, cxt, cxt)
        decl += "size_t verif_stride_%s(void);\n" % tag
        checks += '  __CPROVER_assert(verif_stride_%s() == sizeof(%s), "SPEC mirror: array stride of %s");\n' % (tag, ct, cxt)
        for f in fields:
            cxx += "size_t verif_off_%s_%s(void) { return (size_t)((char *)&(((%s *)64)->%s) - (char *)64); }\n" % (tag, f, cxt, f)
            decl += "size_t verif_off_%s_%s(void);\n" % (tag, f)
            checks += '  __CPROVER_assert(verif_off_%s_%s() == __builtin_offsetof(%s, %s), "SPEC mirror: offsetof(%s, %s)");\n' % (
                tag, f, ct, f, cxt, f)
    cxx += "}\n"
    checks += "  VERIF_CANARY;\n}\n"
    spec = spec_text.replace("@MIRROR_CHECKS@", decl + checks)
    return Job(name, "U", spec, "h_mirror", cxx=cxx, defines=["JOB_mirror_layout"], expect=[r'h_mirror\.assertion'],
               domain="layout facts (no inputs)", extra_checks=False, no_pointer_check=True,
               note="C mirror structs used in the contracts have the same field offsets and stride as CBMC's layout of the C++ prelude classes")


def fill(pre, position=None, uposition=None, slack=None, solver_extra="", inc_extra=""):
    return (pre.replace("@SLICE:Variable::position@", position)
               .replace("@SLICE:Variable::unscaledPosition@", uposition)
               .replace("@SLICE:Constraint::slack@", slack)
               .replace("@SOLVER_EXTRA@", solver_extra).replace("@INCSOLVER_EXTRA@", inc_extra))


def struct_cast(fields_c, ptr="this"):
    """Anonymous-struct cast usable inside loop invariants (DESIGN 2.8)."""
    return "((struct{%s}*)%s)" % (fields_c, ptr)


INC_ANON = "void*vptr;void*bs;unsigned long m;struct{void**d;unsigned long n;unsigned long cap;}*cs;unsigned long n;void*vs;_Bool needsScaling;"


def jobs(tier):
    js = []
    pre = prelude("vpsc.h")
    S = {}
    S["position"] = slice_func(VH, r'^\s*inline double position\(void\) const', "Variable::position")
    S["uposition"] = slice_func(VH, r'^\s*inline double unscaledPosition\(void\) const', "Variable::unscaledPosition")
    S["slack"] = slice_func(CH, r'^\s*inline double slack\(void\) const', "Constraint::slack")
    S["zero"] = slice_lines(SV, r'^static const double ZERO_UPPERBOUND=-1e-10;', 1, "ZERO_UPPERBOUND")
    S["using"] = slice_lines(SV, r'^using namespace std;', 1, "using namespace std")
    S["copyResult"] = slice_func(SV, r'^void Solver::copyResult\(\)', "Solver::copyResult")
    S["incsatisfy"] = slice_func(SV, r'^bool IncSolver::satisfy\(\)', "IncSolver::satisfy")
    S["satisfy"] = slice_func(SV, r'^bool Solver::satisfy\(\)', "Solver::satisfy")
    S["refine"] = slice_func(SV, r'^void Solver::refine\(\)', "Solver::refine")
    S["solve"] = slice_func(SV, r'^bool Solver::solve\(\)', "Solver::solve")
    S["incsolve"] = slice_func(SV, r'^bool IncSolver::solve\(\)', "IncSolver::solve")
    S["addConstraint"] = slice_func(SV, r'^void IncSolver::addConstraint\(Constraint \*c\)', "IncSolver::addConstraint")

    real_filled = fill(pre, S["position"].text, S["uposition"].text, S["slack"].text)
    layout.check_layout("vpsc", real_filled,
                        ["libvpsc/variable.h", "libvpsc/constraint.h", "libvpsc/block.h", "libvpsc/blocks.h", "libvpsc/solve_VPSC.h"],
                        LAYOUT_FIELDS, sizes=LAYOUT_SIZES)
    spec = spec_header() + rd(HERE, "vpsc.spec.c")
    base = "#include <verif_base.h>\n"
    js.append(mirror_job(real_filled, spec, MIRROR))

    # ---- position / unscaledPosition: real bodies
    wpos = ('extern "C" double w_position(void *v) { return ((vpsc::Variable *)v)->position(); }\n'
            'extern "C" double w_unscaledPosition(void *v) { return ((vpsc::Variable *)v)->unscaledPosition(); }\n')
    js.append(Job("position", "U", spec, "h_position", cxx=base + real_filled + wpos, enforce="w_position",
                  defines=["JOB_position"], slices=[S["position"]], domain="all doubles, any valid variable/block",
                  expect=[r'pointer_dereference']))
    js.append(Job("unscaledPosition", "U", spec, "h_unscaledPosition", cxx=base + real_filled + wpos,
                  enforce="w_unscaledPosition", defines=["JOB_unscaledPosition"], slices=[S["uposition"]],
                  domain="all doubles, scale == 1", expect=[r'postcondition', r'assertion']))
    # ---- slack: real body, position()/unscaledPosition() behind shims
    slack_filled = fill(pre, SHIM_POSITION, SHIM_UPOSITION, S["slack"].text)
    slack_cxx = base + EXTERN + slack_filled + 'extern "C" double w_slack(void *c) { return ((vpsc::Constraint *)c)->slack(); }\n'
    js.append(Job("slack_exact", "D", spec, "h_slack", cxx="#define double long long\n#define VERIF_INT_MODE\n" + slack_cxx,
                  enforce="w_slack", replace=["w_position", "w_unscaledPosition"], defines=["JOB_slack", "INT_MODE"],
                  slices=[S["slack"]], timeout=600,
                  domain="scaled-integer mode (double retyped long long, overflow-checked): gap and positions integers with |v| <= 2^20, scales in [1,4]; "
                         "IEEE floating-point equality of two sub/mul chains is out of reach of every installed back end (DESIGN 3)",
                  expect=[r'w_slack\.postcondition', r'precondition', r'assertion']))
    # ---- scan tails
    shim_filled = fill(pre, SHIM_POSITION, SHIM_UPOSITION, SHIM_SLACK,
                       solver_extra="\tbool verif_satisfy_tail();\n\tvoid verif_refine_tail();\n",
                       inc_extra="\tbool verif_incsatisfy_tail();\n")
    callee_shims = ("void Blocks::cleanup() { w_blocks_cleanup((void *)this); }\n"
                    "double Blocks::cost() { return w_blocks_cost((void *)this); }\n"
                    "size_t Blocks::size() const { return w_blocks_size((void *)this); }\n")
    cr_shim = "void Solver::copyResult() { w_copyResult((void *)this); }\n"

    def tail_tu(member, ret, locals_, tail_text, wrapper):
        return (base + EXTERN + shim_filled + S["using"].text + "\nnamespace vpsc {\n" + S["zero"].text + "\n" +
                callee_shims + cr_shim + "%s %s()\n{\n%s\n%s\n}\n" % (ret, member, locals_, tail_text) + "}\n" + wrapper)

    # IncSolver::satisfy: tail from `bs->cleanup();`
    t = fragment_tail(S["incsatisfy"], r'bs->cleanup\(\);', "IncSolver::satisfy [tail from bs->cleanup()]")
    ttext = subst(t, [(r'throw \(char \*\) s\.str\(\)\.c_str\(\);', '{ verif_thrown = 1; return false; }', 1)])
    inv = ("i <= {S}->m && (verif_K_idx < i ==> !(verif_Kslack < -1e-10))").replace("{S}", struct_cast(INC_ANON))
    if os.environ.get("WITH_TAIL"): js.append(Job("incsatisfy_tail", "U", spec, "h_incsatisfy_tail",
                  cxx=tail_tu("IncSolver::verif_incsatisfy_tail", "bool", "    Constraint* v = nullptr;", ttext,
                              'extern "C" { size_t verif_K_idx; bool w_incsatisfy_tail(void *s, size_t K) { verif_K_idx = K; '
                              'return ((vpsc::IncSolver *)s)->verif_incsatisfy_tail(); } }\n'),
                  enforce="w_incsatisfy_tail", replace=["w_slack", "w_blocks_cleanup", "w_copyResult"],
                  defines=["JOB_incsatisfy_tail", "CALLEES_GHOST"], slices=[S["incsatisfy"], t],
                  loops=None, no_pointer_check=True,
                  domain="every solver state, every m in [1,10^6], ghost constraint index K < m",
                  expect=[r'postcondition', r'loop_invariant_base', r'loop_invariant_step']))
    return js


LEVEL = "proof"
TRUSTED = [
    "cbmc/goto-cc/goto-instrument 6.11.0 and the MiniSat back end",
    "stub std::vector / ostringstream models (stubs/)",
]
ASSUMPTIONS = []
EXPLANATION = "C01 chain under contract"
