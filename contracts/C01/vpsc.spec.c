/* C01: VPSC -- on normal return every unflagged constraint holds at the reported positions.
 *
 * The chain under contract (DESIGN.md 5/C01):
 *   Constraint::slack            == the definition of the separation's slack over position()
 *   scan tails of IncSolver::satisfy, Solver::satisfy, Solver::refine
 *                                 normal return  ==>  for EVERY constraint K: !(slack(K) < -1e-10)
 *   Solver::copyResult            finalPosition := position()   (body fragment unbounded, loop bounded)
 *   Solver::solve, IncSolver::solve  keep "scan held for K in the current state" and "final positions
 *                                 are current" up to their return
 *   IncSolver::addConstraint      appends an INACTIVE constraint and nothing else
 * The merge/split machinery before the scans is neither verified nor trusted: the tails are proved
 * from every state it could leave.
 *
 * C mirrors of the C++ classes (checked against CBMC's own layout of the prelude by job mirror_layout,
 * and the prelude against the real headers by tools/layout.py).
 */
#ifdef INT_MODE
/* scaled-integer mode (DESIGN 3): every `double` of the sliced code is retyped `long long`; arithmetic is then
 * exact, which is the semantics IEEE doubles have on integer-valued inputs of bounded magnitude */
#define double long long
#endif
#define PACKED __attribute__((packed))   /* CBMC's C++ front end lays classes out without padding */
struct PACKED vec { void *d; size_t n; size_t cap; };
struct PACKED PositionStats { double scale, AB, AD, A2; };
struct PACKED Block { struct vec *vars; double posn; struct PositionStats ps; _Bool deleted; long timeStamp; void *in; void *out; void *blocks; };
struct PACKED Variable { int id; double desiredPosition, finalPosition, weight, scale, offset; struct Block *block;
                  _Bool visited; _Bool fixedDesiredPosition; struct vec in; struct vec out; };
struct PACKED Constraint { struct Variable *left, *right; double gap, lm; long timeStamp; _Bool active; _Bool equality;
                    _Bool unsatisfiable; _Bool needsScaling; void *creator; };
#ifdef FLAVOUR_AVOID   /* libavoid/vpsc.h: one non-virtual class */
struct PACKED IncSolver { unsigned splitCnt; void *bs; size_t m; struct vec *cs; size_t n; struct vec *vs; _Bool needsScaling;
                   struct vec inactive; struct vec violated; };
#else
struct PACKED IncSolver { void *vptr; void *bs; size_t m; struct vec *cs; size_t n; struct vec *vs; _Bool needsScaling;
                   unsigned splitCnt; struct vec inactive; struct vec violated; };
#endif

#define C(p) ((struct Constraint *)(p))
#define V(p) ((struct Variable *)(p))
#define S(p) ((struct IncSolver *)(p))
#define ZERO_UPPERBOUND (-1e-10)
/* the accept-or-throw scan has passed for the ghost constraint K in the current state */
#define SCAN_OK (!(verif_Kslack < ZERO_UPPERBOUND))

/* ---- ghost state ---------------------------------------------------------------------------
 * verif_K        the ghost constraint (an arbitrary element cs[K]); verif_Kslack: the value slack()
 *                returns for it in the CURRENT solver state.  Every state-changing callee contract
 *                lists verif_Kslack in its assigns clause (it is havocked when the state changes).
 * verif_final_ok "the finalPosition fields equal position() in the current state"          */
void *verif_K;
size_t verif_K_idx;   /* its index in the solver's constraint vector */
double verif_Kslack;
_Bool verif_final_ok;

/* ============================================================ mirror layout (CBMC side) */
#if defined(JOB_mirror_layout)
@MIRROR_CHECKS@
#endif

/* ============================================================ Variable::position / unscaledPosition */
#if defined(JOB_position) || defined(JOB_unscaledPosition)
#define VALID_VAR(v) (__CPROVER_is_fresh(v, sizeof(struct Variable)) && \
                      __CPROVER_is_fresh(V(v)->block, sizeof(struct Block)))
double w_position(void *v)
__CPROVER_requires(VALID_VAR(v))
/* frame and memory safety only: position() IS the definition of the reported position */
__CPROVER_assigns()
;
double w_unscaledPosition(void *v)
__CPROVER_requires(VALID_VAR(v))
/* its two COLA_ASSERTs are the caller's duty (slack() checks the variable scale; the block scale is 1
 * whenever no variable is scaled) */
__CPROVER_requires(V(v)->scale == 1.0 && V(v)->block->ps.scale == 1.0)
__CPROVER_ensures(FEQ(__CPROVER_return_value, V(v)->block->posn + V(v)->offset))
__CPROVER_assigns()
;
void h_position(void) { void *v; w_position(v); VERIF_CANARY; }
void h_unscaledPosition(void) { void *v; w_unscaledPosition(v); VERIF_CANARY; }
#endif

/* ============================================================ Constraint::slack */
#if defined(JOB_slack)
/* position() of a variable, as an uninterpreted function of the variable (the state does not change
 * inside slack(): its frame is empty) */
double __CPROVER_uninterpreted_pos(void *);
double __CPROVER_uninterpreted_upos(void *);
double w_position(void *v)
__CPROVER_ensures(__CPROVER_return_value == __CPROVER_uninterpreted_pos(v))
__CPROVER_assigns()
;
double w_unscaledPosition(void *v)
__CPROVER_requires(V(v)->scale == 1.0)
__CPROVER_ensures(__CPROVER_return_value == __CPROVER_uninterpreted_upos(v))
__CPROVER_assigns()
;
double w_slack(void *c)
__CPROVER_requires(__CPROVER_is_fresh(c, sizeof(struct Constraint)))
__CPROVER_requires(__CPROVER_is_fresh(C(c)->left, sizeof(struct Variable)))
#ifdef SLACK_SAME_VARIABLE
__CPROVER_requires(C(c)->right == C(c)->left)
#else
__CPROVER_requires(__CPROVER_is_fresh(C(c)->right, sizeof(struct Variable)))
#endif
/* Solver's constructor sets needsScaling iff some variable has scale != 1 */
__CPROVER_requires(!C(c)->needsScaling ==> (C(c)->left->scale == 1.0 && C(c)->right->scale == 1.0))
#ifdef INT_MODE
#define SMALLV(x) ((x) >= -1048576 && (x) <= 1048576)
__CPROVER_requires(C(c)->left->scale >= 1 && C(c)->left->scale <= 4 && C(c)->right->scale >= 1 && C(c)->right->scale <= 4)
__CPROVER_requires(SMALLV(C(c)->gap) && SMALLV(__CPROVER_uninterpreted_pos(C(c)->left)) && SMALLV(__CPROVER_uninterpreted_pos(C(c)->right)) &&
                   SMALLV(__CPROVER_uninterpreted_upos(C(c)->left)) && SMALLV(__CPROVER_uninterpreted_upos(C(c)->right)))
#endif
/* a flagged constraint never looks violated (the present sentinel DBL_MAX is not pinned) */
__CPROVER_ensures(C(c)->unsatisfiable ==> __CPROVER_return_value >= 0.0)
/* otherwise: the slack of  left + gap <= right  at the current positions, in scaled space ... */
/* (the oracle multiplies by repeated addition over the small scale range, so the solver compares the
 * code's multiplier against adders rather than against a second multiplier) */
#define SMUL(k, x) ((k) == 1 ? (x) : (k) == 2 ? (x) + (x) : (k) == 3 ? (x) + (x) + (x) : (x) + (x) + (x) + (x))
__CPROVER_ensures((!C(c)->unsatisfiable && C(c)->needsScaling) ==> FEQ(__CPROVER_return_value,
    (SMUL(C(c)->right->scale, __CPROVER_uninterpreted_pos(C(c)->right)) - C(c)->gap) -
     SMUL(C(c)->left->scale, __CPROVER_uninterpreted_pos(C(c)->left))))
/* ... or unscaled */
__CPROVER_ensures((!C(c)->unsatisfiable && !C(c)->needsScaling) ==> FEQ(__CPROVER_return_value,
    (__CPROVER_uninterpreted_upos(C(c)->right) - C(c)->gap) - __CPROVER_uninterpreted_upos(C(c)->left)))
__CPROVER_assigns()
;
void h_slack(void) { void *c; w_slack(c); VERIF_CANARY; }
#endif

/* ============================================================ callee contracts over the ghost cells */
#if defined(CALLEES_GHOST)
/* slack(): for the ghost constraint it returns the ghost cell */
double w_slack(void *c)
__CPROVER_ensures(c == verif_K ==> __CPROVER_return_value == verif_Kslack)
__CPROVER_assigns()
;
/* Blocks::cleanup(): changes the block list (not under contract here; C15 has its bounded job) */
void w_blocks_cleanup(void *bs)
__CPROVER_ensures(__CPROVER_old(verif_thrown) ==> verif_thrown)
__CPROVER_assigns(verif_Kslack, verif_final_ok, verif_thrown)
;
/* copyResult(): stores position() into finalPosition; does not touch solver state */
void w_copyResult(void *s)
__CPROVER_ensures(verif_final_ok)
__CPROVER_assigns(verif_final_ok)
;
#endif

/* ============================================================ scan tails */
#if defined(JOB_incsatisfy_tail) || defined(JOB_satisfy_tail) || defined(JOB_refine_tail)
#ifndef MAXM
#define MAXM 1000000
#endif
/* a valid solver whose constraint vector holds at least m entries, entry K being a valid constraint */
#define VALID_SOLVER_K(s, K) ( \
    __CPROVER_is_fresh(s, sizeof(struct IncSolver)) && \
    __CPROVER_is_fresh(S(s)->cs, sizeof(struct vec)) && \
    S(s)->m >= 1 && S(s)->m <= MAXM && S(s)->cs->n >= S(s)->m && S(s)->cs->n <= MAXM && \
    __CPROVER_is_fresh(S(s)->cs->d, S(s)->cs->n * sizeof(void *)) && \
    (K) < S(s)->m && \
    __CPROVER_is_fresh(verif_pool, S(s)->cs->n * sizeof(struct Constraint)) && \
    verif_K == (void *)((struct Constraint *)verif_pool + (K)) && verif_K_idx == (K))
/* ghost: the solver's constraints; element i of its vector is object i of this pool (instantiated at each cs[i] by the stub vector's element hook,
 * which is also why the slots of the vector are in the frames below; nothing is stored there but the value the slot is assumed to hold) */
extern void *verif_pool; extern void *verif_g_cs;
#define CS_SLOTS(s) __CPROVER_object_whole(S(s)->cs->d)
#endif

#if defined(JOB_incsatisfy_tail)
_Bool w_incsatisfy_tail(void *s, size_t K)
__CPROVER_requires(VALID_SOLVER_K(s, K))
/* normal return: the ghost constraint passed the scan in the state that is returned, and the final
 * positions were copied from that state */
__CPROVER_ensures(!verif_thrown ==> (SCAN_OK && verif_final_ok))
__CPROVER_ensures(__CPROVER_old(verif_thrown) ==> verif_thrown)
__CPROVER_assigns(verif_Kslack, verif_final_ok, verif_thrown, verif_g_cs, CS_SLOTS(s))
;
void h_incsatisfy_tail(void) { void *s; size_t K; w_incsatisfy_tail(s, K); VERIF_CANARY; }
#endif

#if defined(JOB_satisfy_tail)
_Bool w_satisfy_tail(void *s, size_t K)
__CPROVER_requires(VALID_SOLVER_K(s, K))
__CPROVER_ensures(!verif_thrown ==> (SCAN_OK && verif_final_ok))
__CPROVER_ensures(__CPROVER_old(verif_thrown) ==> verif_thrown)
__CPROVER_assigns(verif_Kslack, verif_final_ok, verif_thrown, verif_g_cs, CS_SLOTS(s))
;
void h_satisfy_tail(void) { void *s; size_t K; w_satisfy_tail(s, K); VERIF_CANARY; }
#endif

#if defined(JOB_refine_tail)
void w_refine_tail(void *s, size_t K)
__CPROVER_requires(VALID_SOLVER_K(s, K))
__CPROVER_ensures(!verif_thrown ==> SCAN_OK)
__CPROVER_ensures(__CPROVER_old(verif_thrown) ==> verif_thrown)
/* the tail changes nothing but the exception flag */
__CPROVER_ensures(FEQ(verif_Kslack, __CPROVER_old(verif_Kslack)))
__CPROVER_assigns(verif_thrown, verif_g_cs, CS_SLOTS(s))
;
void h_refine_tail(void) { void *s; size_t K; w_refine_tail(s, K); VERIF_CANARY; }
#endif

/* ============================================================ solve() drivers */
#if defined(JOB_incsolve) || defined(JOB_solve)
/* satisfy(): on normal return the scan holds for K in the resulting state and finals are current
 * (proved by the tail jobs); it changes the state */
_Bool w_satisfy(void *s)
__CPROVER_ensures(!verif_thrown ==> (SCAN_OK && verif_final_ok))
__CPROVER_ensures(__CPROVER_old(verif_thrown) ==> verif_thrown)
__CPROVER_assigns(verif_Kslack, verif_final_ok, verif_thrown)
;
/* refine(): changes the state; on normal return its own scan holds; finals are stale */
void w_refine(void *s)
__CPROVER_ensures(!verif_thrown ==> SCAN_OK)
__CPROVER_ensures(__CPROVER_old(verif_thrown) ==> verif_thrown)
__CPROVER_assigns(verif_Kslack, verif_final_ok, verif_thrown)
;
void w_copyResult(void *s)
__CPROVER_ensures(verif_final_ok)
__CPROVER_assigns(verif_final_ok)
;
/* Blocks::cost() and Blocks::size(): read-only */
double w_blocks_cost(void *bs)
__CPROVER_requires(1)
__CPROVER_ensures(1)
__CPROVER_assigns()
;
size_t w_blocks_size(void *bs)
__CPROVER_requires(1)
__CPROVER_ensures(1)
__CPROVER_assigns()
;
#define VALID_SOLVER(s) (__CPROVER_is_fresh(s, sizeof(struct IncSolver)))
_Bool w_incsolve(void *s)
__CPROVER_requires(VALID_SOLVER(s))
__CPROVER_ensures(!verif_thrown ==> (SCAN_OK && verif_final_ok))
__CPROVER_assigns(verif_Kslack, verif_final_ok, verif_thrown)
;
_Bool w_solve(void *s)
__CPROVER_requires(VALID_SOLVER(s))
__CPROVER_ensures(!verif_thrown ==> (SCAN_OK && verif_final_ok))
__CPROVER_assigns(verif_Kslack, verif_final_ok, verif_thrown)
;
void h_incsolve(void) { void *s; w_incsolve(s); VERIF_CANARY; }
void h_solve(void) { void *s; w_solve(s); VERIF_CANARY; }
#endif

/* ============================================================ copyResult */
#if defined(JOB_copyResult_body)
/* loop body fragment, for ONE arbitrary valid variable: finalPosition := position(), nothing else */
double __CPROVER_uninterpreted_pos(void *);
double w_position(void *v)
__CPROVER_ensures(__CPROVER_return_value == __CPROVER_uninterpreted_pos(v))
__CPROVER_assigns()
;
void w_copyResult_body(void *slot)
__CPROVER_requires(__CPROVER_is_fresh(slot, sizeof(void *)))
__CPROVER_requires(__CPROVER_is_fresh(*(void **)slot, sizeof(struct Variable)))
/* position() is a number in every state the solver produces (the body's own COLA_ASSERT) -- assumed
 * here, see "finiteness" in the residue */
__CPROVER_requires(!IS_NAN(__CPROVER_uninterpreted_pos(*(void **)slot)))
__CPROVER_ensures(V(*(void **)slot)->finalPosition == __CPROVER_uninterpreted_pos(*(void **)slot))
__CPROVER_assigns(V(*(void **)slot)->finalPosition)
;
void h_copyResult_body(void) { void *slot; w_copyResult_body(slot); VERIF_CANARY; }
#endif

#if defined(JOB_copyResult_loop)
/* whole loop, BOUNDED (n <= NMAX): every element's finalPosition updated, nothing else assigned */
#ifndef NMAX
#define NMAX 4
#endif
void w_copyResult(void *s);
void h_copyResult_loop(void)
{
    struct IncSolver sol; struct vec vs; void *arr[NMAX];
    struct Variable var[NMAX]; struct Block blk[NMAX];
    size_t n; __CPROVER_assume(n <= NMAX);
    for (size_t i = 0; i < NMAX; i++) {
        var[i].block = &blk[i]; arr[i] = &var[i];
        /* position() must be a number (COLA_ASSERT in the loop); assume non-NaN inputs and scale != 0 */
        int oi, pi;   /* integer-valued offsets and block positions: position() is then exact */
        __CPROVER_assume(var[i].scale == 1.0 && blk[i].ps.scale == 1.0 && var[i].offset == (double)oi && blk[i].posn == (double)pi);
    }
    vs.d = arr; vs.n = n; vs.cap = NMAX; sol.vs = &vs; sol.n = n;
    struct Variable before[NMAX];
    for (size_t i = 0; i < NMAX; i++) before[i] = var[i];
    w_copyResult(&sol);
    for (size_t i = 0; i < NMAX; i++) {
        if (i < n)
            __CPROVER_assert(var[i].finalPosition == blk[i].posn + var[i].offset, "SPEC copyResult: finalPosition of every variable equals its position");
        else
            __CPROVER_assert(var[i].finalPosition == before[i].finalPosition || (IS_NAN(var[i].finalPosition) && IS_NAN(before[i].finalPosition)), "SPEC copyResult: variables beyond n untouched");
        __CPROVER_assert(var[i].offset == before[i].offset && var[i].block == before[i].block && var[i].scale == before[i].scale,
                         "SPEC copyResult: nothing but finalPosition is written");
    }
    VERIF_CANARY;
}
#endif

/* ============================================================ addConstraint */
#if defined(JOB_addConstraint)
#define VECOK(v) ((v).n < (v).cap && (v).cap <= 64 && __CPROVER_is_fresh((v).d, (v).cap * sizeof(void *)))
void w_addConstraint(void *s, void *c)
__CPROVER_requires(__CPROVER_is_fresh(s, sizeof(struct IncSolver)))
__CPROVER_requires(__CPROVER_is_fresh(c, sizeof(struct Constraint)))
__CPROVER_requires(__CPROVER_is_fresh(C(c)->left, sizeof(struct Variable)))
#ifdef ADD_SAME_VARIABLE
__CPROVER_requires(C(c)->right == C(c)->left)
#else
__CPROVER_requires(__CPROVER_is_fresh(C(c)->right, sizeof(struct Variable)))
#endif
/* stub vector: room for one more element (no reallocation model) */
__CPROVER_requires(VECOK(S(s)->inactive) && VECOK(C(c)->left->out) && VECOK(C(c)->right->in))
__CPROVER_requires(S(s)->m < 1000000)
__CPROVER_ensures(S(s)->m == __CPROVER_old(S(s)->m) + 1)
/* the new constraint enters INACTIVE (satisfy()'s merge loop only ever picks inactive constraints) */
__CPROVER_ensures(!C(c)->active)
__CPROVER_ensures(S(s)->inactive.n == __CPROVER_old(S(s)->inactive.n) + 1 &&
                  ((void **)S(s)->inactive.d)[S(s)->inactive.n - 1] == c)
__CPROVER_ensures(C(c)->left->out.n == __CPROVER_old(C(c)->left->out.n) + 1 &&
                  ((void **)C(c)->left->out.d)[C(c)->left->out.n - 1] == c)
__CPROVER_ensures(C(c)->right->in.n == __CPROVER_old(C(c)->right->in.n) + 1 &&
                  ((void **)C(c)->right->in.d)[C(c)->right->in.n - 1] == c)
__CPROVER_ensures(C(c)->needsScaling == S(s)->needsScaling)
/* nothing else: gap, the flag and the end points are untouched */
__CPROVER_ensures(FEQ(C(c)->gap, __CPROVER_old(C(c)->gap)) && C(c)->unsatisfiable == __CPROVER_old(C(c)->unsatisfiable))
__CPROVER_assigns(S(s)->m, C(c)->active, C(c)->needsScaling,
                  S(s)->inactive.n, ((void **)S(s)->inactive.d)[S(s)->inactive.n],
                  C(c)->left->out.n, ((void **)C(c)->left->out.d)[C(c)->left->out.n],
                  C(c)->right->in.n, ((void **)C(c)->right->in.d)[C(c)->right->in.n])
;
void h_addConstraint(void) { void *s, *c; w_addConstraint(s, c); VERIF_CANARY; }
#endif

/* ============================================================ Solver::Solver: the facts the chain assumes about construction */
#if defined(JOB_ctor_body1)
/* first loop, body for ONE arbitrary variable: its in/out lists are emptied and needsScaling accumulates scale != 1 */
void w_ctor_body1(void *s, unsigned i)
__CPROVER_requires(__CPROVER_is_fresh(s, sizeof(struct IncSolver)) && __CPROVER_is_fresh(S(s)->vs, sizeof(struct vec)))
__CPROVER_requires(S(s)->vs->n >= 1 && S(s)->vs->n <= 1000000 && i < S(s)->vs->n && __CPROVER_is_fresh(S(s)->vs->d, S(s)->vs->n * sizeof(void *)))
__CPROVER_requires(__CPROVER_is_fresh(((void **)S(s)->vs->d)[i], sizeof(struct Variable)))
__CPROVER_ensures(S(s)->needsScaling == (__CPROVER_old(S(s)->needsScaling) || V(((void **)S(s)->vs->d)[i])->scale != 1.0))
__CPROVER_ensures(V(((void **)S(s)->vs->d)[i])->in.n == 0 && V(((void **)S(s)->vs->d)[i])->out.n == 0)
__CPROVER_assigns(S(s)->needsScaling, V(((void **)S(s)->vs->d)[i])->in.n, V(((void **)S(s)->vs->d)[i])->out.n)
;
void h_ctor_body1(void) { void *s; unsigned i; w_ctor_body1(s, i); VERIF_CANARY; }
#endif


/* ============================================================ IncSolver::satisfy: the merge/split loop body flags only on evidence */
#if defined(JOB_flag_on_evidence)
/* One iteration of the main loop of IncSolver::satisfy for the chosen constraint v, every callee behind a contract over
 * ghost cells.  A constraint may be relaxed (flagged unsatisfiable) only where the solver has found a reason:
 *   - an active directed path right -> left inside the block (a cycle of tight constraints), or
 *   - splitBetween finding no constraint to split on / reporting unsatisfiability.
 * "Flagged only if infeasible" rests on this (plus the callees being right, which is NOT proved: residue). */
/* plain harness (the dfcc version with six replaced callees did not finish in 300 s): the callees' shims are defined here
 * and return ghost values chosen nondeterministically by the harness */
_Bool verif_cycle, verif_split_threw; void *verif_split_result;
double nondet_double(void);
_Bool w_isActivePath(void *blk, void *u, void *v) { return verif_cycle; }
void *w_splitBetween(void *blk, void *vl, void *vr, void **lb, void **rb) { return verif_split_result; }
void *w_block_merge(void *blk, void *other, void *c) { ((struct Constraint *)c)->active = 1; return blk; }   /* assumed: merging across c makes c active (Block::merge sets c->active) */
void w_blocks_insert(void *bs, void *b) { }
void w_delete_block(void *b) { }
double w_slack(void *c) { return nondet_double(); }
double w_position(void *v) { return nondet_double(); }
double w_unscaledPosition(void *v) { return nondet_double(); }
void w_merge_body(void *s, void *v);
void h_merge_body(void)
{
    struct IncSolver sol; struct Constraint v, sc; struct Variable l, r; struct Block bl, br; void *slots[8]; _Bool has_split, same_block;
    _Bool same_variable;                                            /* x + g <= x: both ends one variable (then necessarily one block) */
    v.left = &l; v.right = same_variable ? &l : &r; l.block = &bl; r.block = same_block ? &bl : &br;
    if (same_variable) same_block = 1;
    sol.inactive.d = slots; sol.inactive.cap = 8; __CPROVER_assume(sol.inactive.n <= 4);
    __CPROVER_assume(!v.active && !sc.active);                      /* only inactive constraints are handed to the loop body */
    verif_split_result = has_split ? (void *)&sc : (void *)0;
    struct Constraint v0 = v;
    w_merge_body(&sol, &v);
    __CPROVER_assert(!v.unsatisfiable || v0.unsatisfiable || (same_block && (verif_cycle || !has_split || verif_split_threw)),
                     "SPEC IncSolver::satisfy relaxes (flags) a constraint only on evidence: an active directed path right->left in its block, or splitBetween finding nothing to split / reporting unsatisfiability");
    _Bool requeued = 0;
    for (size_t k = 0; k < 8; ++k) if (k < sol.inactive.n && slots[k] == (void *)&v) requeued = 1;
    __CPROVER_assert(v.active || v.unsatisfiable || requeued,
                     "SPEC the constraint picked from the work list is not dropped: after the iteration it is active, or flagged unsatisfiable, or back on the work list");
    __CPROVER_assert(FEQ(v.gap, v0.gap) && v.left == v0.left && v.right == v0.right && v.equality == v0.equality,
                     "SPEC IncSolver::satisfy's loop body leaves the constraint's definition alone");
    VERIF_CANARY;
}
#endif

/* ------------------------------------------------------------ Block::findMinLMBetween / split_path (completeness fragment)
 * IncSolver::satisfy flags a constraint unsatisfiable when splitBetween -> findMinLMBetween throws "no split point".  For a feasible
 * system that must not happen when the two variables are joined DIRECTLY by an active inequality: that constraint is the split point. */
#if defined(JOB_findMinLM)
/* BOUNDED plain harness (goto-instrument --dfcc with loop contracts ran out of memory on split_path): 4 variables, lv with up to 2 in- and
 * up to 3 out-constraints, arbitrary contents */
/* assumed (tree-ness of a block's active constraints): searching on through any OTHER constraint does not reach the target */
_Bool w_rec_split_path(void *b, void *r, void *v, void *u) { return 0; }
/* recomputing the Lagrange multipliers changes lm fields only; their values are arbitrary here */
void w_recompute_lm(void *b) { }
void *w_findMinLM(void *b, void *lv, void *rv);
void h_findMinLM(void)
{
  struct Block blk; struct Variable var[4]; struct Constraint in[2], out[3]; void *ind[2], *outd[3], *varsd[4]; struct vec vars;
  size_t nin, nout, J;
  __CPROVER_assume(nin <= 2 && nout >= 1 && nout <= 3 && J < nout);
  for (int i = 0; i < 4; ++i) varsd[i] = &var[i];
  vars.d = varsd; vars.n = 4; vars.cap = 4; blk.vars = &vars;
  struct Variable *lv = &var[0], *rv = &var[1];
  for (int i = 0; i < 2; ++i) { size_t a, b; __CPROVER_assume(a < 4 && b < 4); in[i].left = &var[a]; in[i].right = &var[b]; ind[i] = &in[i]; }
  for (int i = 0; i < 3; ++i) { size_t a, b; __CPROVER_assume(a < 4 && b < 4); out[i].left = &var[a]; out[i].right = &var[b]; outd[i] = &out[i]; }
  lv->in.d = ind; lv->in.n = nin; lv->in.cap = 2; lv->out.d = outd; lv->out.n = nout; lv->out.cap = 3;
  /* the direct connection: out-constraint J of lv is an active inequality lv -> rv, rv in this block */
  __CPROVER_assume(out[J].left == (void *)lv && out[J].right == (void *)rv && out[J].active && !out[J].equality && rv->block == &blk);
  /* tree: no second active connection between lv and rv */
  for (size_t i = 0; i < 2; ++i) __CPROVER_assume(!(in[i].left == (void *)rv && in[i].active));
  for (size_t i = 0; i < 3; ++i) if (i != J) __CPROVER_assume(!(out[i].right == (void *)rv && out[i].active));
  verif_thrown = 0;
  void *m = w_findMinLM(&blk, lv, rv);
  __CPROVER_assert(!verif_thrown, "SPEC a direct active inequality between the two variables is a split point: no 'no split point' exception");
  __CPROVER_assert(m == (void *)&out[J], "SPEC the direct active inequality is the constraint returned");
  VERIF_CANARY;
}
#endif
