"""C20 jobs: reproducibility -- value-determinism of the ordering kernels (DESIGN.md section 5, C20)."""
import os, importlib.util
from vf import *
from common import *
import layout

HERE = os.path.dirname(os.path.abspath(__file__))
RC, CC, CH, MP = "libvpsc/rectangle.cpp", "libvpsc/constraint.cpp", "libvpsc/constraint.h", "libavoid/makepath.cpp"


def _c01():
    p = os.path.join(VERIF, "contracts", "C01", "jobs.py")
    spec = importlib.util.spec_from_file_location("jobs_C01_for_C20", p)
    m = importlib.util.module_from_spec(spec)
    spec.loader.exec_module(m)
    return m


REPLAY_SRC = r'''
// Native replay for C20 comparator obligations: equal removeoverlaps() calls in one process, with unrelated
// heap traffic in between (so scan-line nodes/events get differently ordered addresses), must agree bit for bit.
#include "libvpsc/rectangle.h"
#include <cstdio>
#include <cstdlib>
#include <cstring>
#include <vector>
using namespace vpsc;
// unrelated heap traffic: fill the allocator's free lists for the small size classes in different orders, so that
// the next allocations of scan-line nodes/events come back in increasing, decreasing or interleaved address order
static void perturb(int mode) {
  std::vector<void*> p;
  for (int sz = 16; sz <= 128; sz += 8) for (int i = 0; i < 48; ++i) p.push_back(malloc(sz));
  if (mode % 4 == 0) for (size_t i = 0; i < p.size(); ++i) free(p[i]);
  else if (mode % 4 == 1) for (size_t i = p.size(); i-- > 0; ) free(p[i]);
  else if (mode % 4 == 2) { for (size_t i = 0; i < p.size(); i += 2) free(p[i]); for (size_t i = 1; i < p.size(); i += 2) free(p[i]); }
  else { for (size_t i = 0; i < p.size(); i += 3) free(p[i]); for (size_t i = p.size(); i-- > 0; ) if (i % 3) free(p[i]); }
}
static std::vector<double> run(const double (*r)[4], int n, int mode) {
  if (mode >= 0) perturb(mode);
  Rectangles rs;
  for (int i = 0; i < n; ++i) rs.push_back(new Rectangle(r[i][0], r[i][1], r[i][2], r[i][3]));
  removeoverlaps(rs);
  std::vector<double> out;
  for (int i = 0; i < n; ++i) { out.push_back(rs[i]->getMinX()); out.push_back(rs[i]->getMinY()); delete rs[i]; }
  return out;
}
int main() {
  static const double A[4][4] = {{0,10,0,10},{0,10,0,10},{0,10,0,10},{2,8,2,8}};
  static const double B[3][4] = {{0,10,0,6},{4,14,0,8},{8,18,0,5}};
  static const double C[4][4] = {{0,10,0,6},{5,15,0,6},{0,10,3,9},{5,15,3,9}};
  static const double D[3][4] = {{2,8,0,5},{4,6,0,3},{7,13,0,5}};
  static const double E[4][4] = {{0,4,2,7},{9,11,2,6},{10,13,4,10},{8,15,4,9}};
  static const double F[4][4] = {{0,6,0,4},{0,6,0,4},{3,9,0,4},{3,9,2,6}};
  struct { const double (*r)[4]; int n; const char *name; } S[] = {{A,4,"three equal squares + inner"},{B,3,"equal tops"},
     {C,4,"pairwise equal tops"},{D,3,"equal tops, nested"},{E,4,"two pairs of equal tops"},{F,4,"duplicates and equal lefts"}};
  int bad = 0;
  for (int s = 0; s < 6; ++s) {
    std::vector<double> ref = run(S[s].r, S[s].n, -1);
    for (int p = 0; p < 12; ++p) {
      std::vector<double> o = run(S[s].r, S[s].n, p);
      if (o.size() != ref.size() || memcmp(&o[0], &ref[0], o.size() * sizeof(double)) != 0) {
        printf("scene '%s': run after unrelated heap traffic (pattern %d) differs from the first run\n", S[s].name, p);
        for (size_t i = 0; i < o.size(); i += 2) printf("   rect %zu: (%.17g,%.17g) vs (%.17g,%.17g)\n", i/2, ref[i], ref[i+1], o[i], o[i+1]);
        bad++; break;
      }
    }
  }
  if (bad) { printf("REPRODUCED: equal inputs gave different results depending on heap state\n"); return 1; }
  printf("not reproduced by the replay scenes\n"); return 0;
}
'''


def replay_removeoverlaps(job, obl, inputs, workdir):
    lib = build_lib("libvpsc", workdir)
    rc, out = native_run(REPLAY_SRC, workdir, "replay_c20", extra=["-I", COLA], libs=[lib])
    if rc is None:
        return False, out
    return rc == 1, out


def jobs(tier):
    js = []
    c01 = _c01()
    pre = prelude("vpsc.h")
    VH, CHH = "libvpsc/variable.h", "libvpsc/constraint.h"
    pos = slice_func(VH, r'^\s*inline double position\(void\) const', "Variable::position")
    upos = slice_func(VH, r'^\s*inline double unscaledPosition\(void\) const', "Variable::unscaledPosition")
    slk = slice_func(CHH, r'^\s*inline double slack\(void\) const', "Constraint::slack")
    real_filled = c01.fill(pre, pos.text, upos.text, slk.text)
    node_pre = prelude("vpsc_node.h")
    layout.check_layout("vpsc_node", real_filled + node_pre, ["libvpsc/rectangle.cpp"],
                        [("vpsc::Node", ["v", "r", "pos", "firstAbove", "firstBelow", "leftNeighbours", "rightNeighbours"]),
                         ("vpsc::Variable", ["id"])],
                        sizes=["vpsc::Node"])
    spec = spec_header() + rd(HERE, "determinism.spec.c")
    base = "#include <verif_base.h>\n"
    S = {}
    S["cmpdecl"] = slice_lines(RC, r'^struct CmpNodePos \{ bool operator\(\)\(const Node\* u, const Node\* v\) const; \};', 1, "CmpNodePos declaration")
    S["cmp"] = slice_func(RC, r'^bool CmpNodePos::operator\(\) \(const Node\* u, const Node\* v\) const', "CmpNodePos::operator()")
    S["evtype"] = slice_lines(RC, r'^typedef enum \{Open, Close\} EventType;', 1, "EventType")
    S["event"] = slice_block(RC, r'^struct Event \{', "struct Event")
    S["cmpev"] = slice_func(RC, r'^int compare_events\(const void \*a, const void \*b\)', "compare_events")
    S["ccdecl"] = slice_block(CH, r'^class CompareConstraints \{', "class CompareConstraints")
    S["cc"] = slice_func(CC, r'^bool CompareConstraints::operator\(\) \(', "CompareConstraints::operator()")
    S["anode"] = slice_block(MP, r'^class ANode\n\{', "class ANode")
    S["anodecmp"] = slice_block(MP, r'^class ANodeCmp\n\{', "class ANodeCmp (with operator())")
    S["prclass"] = slice_block("libcola/pseudorandom.h", r'^class PseudoRandom \n?\{', "class PseudoRandom")
    S["getnext"] = slice_func("libcola/pseudorandom.cpp", r'^double PseudoRandom::getNext\(void\)', "PseudoRandom::getNext")

    # mirror: Node / Event / ANode / PseudoRandom (+ the C01 ones reused here)
    node_tu = (real_filled + node_pre + "namespace vpsc {\n" + S["cmpdecl"].text + "\n" + S["evtype"].text + "\n" + S["event"].text + "\n}\n")
    anode_tu = "#include <cmath>\nnamespace Avoid { class VertInf;\n" + S["anode"].text + "\n" + S["anodecmp"].text + "\n}\n"
    # access specifiers do not change behaviour; `private:` is opened so that the mirror-layout job can take field addresses
    pr_tu = "namespace cola {\n" + subst(S["prclass"], [(r'\bprivate:', 'public:', 1)]) + "\n" + S["getnext"].text + "\n}\n"
    mirror = [("vpsc::Node", "struct Node", ["v", "r", "pos", "firstAbove", "firstBelow", "leftNeighbours", "rightNeighbours"]),
              ("vpsc::Event", "struct Event", ["type", "v", "pos"]),
              ("Avoid::ANode", "struct ANode", ["inf", "g", "h", "f", "prevNode", "timeStamp"]),
              ("cola::PseudoRandom", "struct PseudoRandom", ["a", "c", "m", "range", "seed"]),
              ("vpsc::Constraint", "struct Constraint", ["left", "right", "gap", "timeStamp", "active", "unsatisfiable"]),
              ("vpsc::Variable", "struct Variable", ["id", "block"]),
              ("vpsc::Block", "struct Block", ["timeStamp"])]
    js.append(c01.mirror_job(node_tu + anode_tu + pr_tu, spec, mirror))

    dom = "all field values (positions not NaN), arguments are distinct objects"
    js.append(Job("CmpNodePos", "U", spec, "h_CmpNodePos",
                  cxx=base + node_tu + "namespace vpsc {\n" + S["cmp"].text + "\n}\n"
                      'extern "C" bool w_CmpNodePos(void *u, void *v) { vpsc::CmpNodePos cmp; return cmp((const vpsc::Node *)u, (const vpsc::Node *)v); }\n',
                  enforce="w_CmpNodePos", defines=["JOB_CmpNodePos"], slices=[S["cmp"]], domain=dom + ", variable ids differ",
                  expect=[r'postcondition', r'\.pointer\.\d+'], replay=replay_removeoverlaps))
    ev_cxx = (base + node_tu + "namespace vpsc {\n" + S["cmpev"].text + "\n}\n"
              'extern "C" int w_compare_events(void *a, void *b) { return vpsc::compare_events(a, b); }\n')
    js.append(Job("compare_events", "U", spec, "h_compare_events", cxx=ev_cxx, enforce="w_compare_events",
                  defines=["JOB_compare_events"], slices=[S["cmpev"], S["event"]], domain=dom,
                  expect=[r'postcondition'], replay=replay_removeoverlaps))
    js.append(Job("compare_events_twocopy", "U", spec, "h_compare_events_2", cxx=ev_cxx,
                  defines=["JOB_compare_events_twocopy"], slices=[S["cmpev"]],
                  domain="two event pairs with equal (type,pos) at different addresses",
                  expect=[r'h_compare_events_2\.assertion'], replay=replay_removeoverlaps))
    shim_filled = c01.fill(pre, c01.SHIM_POSITION, c01.SHIM_UPOSITION, c01.SHIM_SLACK)
    js.append(Job("CompareConstraints", "U", spec, "h_CompareConstraints",
                  cxx=base + c01.EXTERN + shim_filled + "namespace vpsc {\n" + S["ccdecl"].text + "\n" + S["cc"].text + "\n}\n"
                      'extern "C" bool w_CompareConstraints(void *l, void *r) { vpsc::CompareConstraints cmp; '
                      'vpsc::Constraint *lc = (vpsc::Constraint *)l; vpsc::Constraint *rc = (vpsc::Constraint *)r; return cmp(lc, rc); }\n',
                  enforce="w_CompareConstraints", replace=["w_slack"], defines=["JOB_CompareConstraints"], slices=[S["cc"]],
                  domain="all field values (slacks not NaN); slack() replaced by its contract", expect=[r'postcondition']))
    js.append(Job("ANodeCmp", "U", spec, "h_ANodeCmp",
                  cxx=base + anode_tu + 'extern "C" bool w_ANodeCmp(void *a, void *b) { Avoid::ANodeCmp cmp; '
                      'return cmp((const Avoid::ANode *)a, (const Avoid::ANode *)b); }\n',
                  enforce="w_ANodeCmp", defines=["JOB_ANodeCmp"], slices=[S["anodecmp"], S["anode"]], domain="all doubles",
                  expect=[r'postcondition']))
    js.append(Job("PseudoRandom_getNext", "U", spec, "h_getNext",
                  cxx=base + pr_tu + 'extern "C" double w_getNext(void *r) { return ((cola::PseudoRandom *)r)->getNext(); }\n',
                  enforce="w_getNext", defines=["JOB_getNext"], flags=["--sat-solver", "cadical"], backend="sat:cadical", slices=[S["getnext"], S["prclass"]], domain="every seed (2^32)",
                  expect=[r'postcondition']))
    return js


LEVEL = "proof"
TRUSTED = [
    "cbmc/goto-cc/goto-instrument 6.11.0 and the MiniSat back end; CBMC's pointer check ('same object violation') as the formulation of 'no relational comparison of unrelated pointers'",
    "prelude/vpsc.h, prelude/vpsc_node.h (layout cross-checked against the real headers / rectangle.cpp); class ANode, ANodeCmp, struct Event, class PseudoRandom are sliced verbatim",
    "precondition of CmpNodePos: distinct scan-line nodes carry distinct variable ids (every caller numbers variables 0..n-1; by inspection of removeoverlaps, cola.cpp, gradient_projection.cpp)",
]
ASSUMPTIONS = [
    "address tie-breaks NOT under obligation (no differing run could be replayed, unobservability not proved): CmpVertInf (libavoid/orthogonal.cpp), CmpVisEdgeRotation's non-orthogonal fallback (makepath.cpp), ActionInfo::operator< for ConnectionPinChange (its comment claims the order is unused)",
    "NOT decided (residue): bit-identical whole routes/layouts, scene symmetries, translation invariance, permutation independence of VPSC, uninitialised reads outside the constructors covered by C15",
]
EXPLANATION = ("Value-determinism of the ordering kernels through which allocation addresses could reach results: each comparator's result is proved to be a stated function of "
               "field values and to evaluate no relational comparison of pointers to different objects; PseudoRandom::getNext is a function of the seed only.")
