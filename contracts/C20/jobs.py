"""C20 jobs: reproducibility -- value-determinism of the ordering kernels (DESIGN.md section 5, C20)."""
import os, importlib.util
from vf import *
from common import *
import layout

HERE = os.path.dirname(os.path.abspath(__file__))
RC, CC, CH, MP = "libvpsc/rectangle.cpp", "libvpsc/constraint.cpp", "libvpsc/constraint.h", "libavoid/makepath.cpp"


def _c01():
    p = os.path.join(VERIF, "contracts", "C01", "jobs.py")
    spec = importlib.util.spec_from_file_location("jobs_C01_for_C20", p)
    m = importlib.util.module_from_spec(spec)
    spec.loader.exec_module(m)
    return m


REPLAY_SRC = r'''
// Native replay for C20 comparator obligations: equal removeoverlaps() calls in one process, with unrelated
// heap traffic in between (so scan-line nodes/events get differently ordered addresses), must agree bit for bit.
#include "libvpsc/rectangle.h"
#include <cstdio>
#include <cstdlib>
#include <cstring>
#include <vector>
using namespace vpsc;
// unrelated heap traffic: fill the allocator's free lists for the small size classes in different orders, so that
// the next allocations of scan-line nodes/events come back in increasing, decreasing or interleaved address order
static void perturb(int mode) {
  std::vector<void*> p;
  for (int sz = 16; sz <= 128; sz += 8) for (int i = 0; i < 48; ++i) p.push_back(malloc(sz));
  if (mode % 4 == 0) for (size_t i = 0; i < p.size(); ++i) free(p[i]);
  else if (mode % 4 == 1) for (size_t i = p.size(); i-- > 0; ) free(p[i]);
  else if (mode % 4 == 2) { for (size_t i = 0; i < p.size(); i += 2) free(p[i]); for (size_t i = 1; i < p.size(); i += 2) free(p[i]); }
  else { for (size_t i = 0; i < p.size(); i += 3) free(p[i]); for (size_t i = p.size(); i-- > 0; ) if (i % 3) free(p[i]); }
}
static std::vector<double> run(const double (*r)[4], int n, int mode) {
  if (mode >= 0) perturb(mode);
  Rectangles rs;
  for (int i = 0; i < n; ++i) rs.push_back(new Rectangle(r[i][0], r[i][1], r[i][2], r[i][3]));
  removeoverlaps(rs);
  std::vector<double> out;
  for (int i = 0; i < n; ++i) { out.push_back(rs[i]->getMinX()); out.push_back(rs[i]->getMinY()); delete rs[i]; }
  return out;
}
int main() {
  static const double A[4][4] = {{0,10,0,10},{0,10,0,10},{0,10,0,10},{2,8,2,8}};
  static const double B[3][4] = {{0,10,0,6},{4,14,0,8},{8,18,0,5}};
  static const double C[4][4] = {{0,10,0,6},{5,15,0,6},{0,10,3,9},{5,15,3,9}};
  static const double D[3][4] = {{2,8,0,5},{4,6,0,3},{7,13,0,5}};
  static const double E[4][4] = {{0,4,2,7},{9,11,2,6},{10,13,4,10},{8,15,4,9}};
  static const double F[4][4] = {{0,6,0,4},{0,6,0,4},{3,9,0,4},{3,9,2,6}};
  struct { const double (*r)[4]; int n; const char *name; } S[] = {{A,4,"three equal squares + inner"},{B,3,"equal tops"},
     {C,4,"pairwise equal tops"},{D,3,"equal tops, nested"},{E,4,"two pairs of equal tops"},{F,4,"duplicates and equal lefts"}};
  int bad = 0;
  for (int s = 0; s < 6; ++s) {
    std::vector<double> ref = run(S[s].r, S[s].n, -1);
    for (int p = 0; p < 12; ++p) {
      std::vector<double> o = run(S[s].r, S[s].n, p);
      if (o.size() != ref.size() || memcmp(&o[0], &ref[0], o.size() * sizeof(double)) != 0) {
        printf("scene '%s': run after unrelated heap traffic (pattern %d) differs from the first run\n", S[s].name, p);
        for (size_t i = 0; i < o.size(); i += 2) printf("   rect %zu: (%.17g,%.17g) vs (%.17g,%.17g)\n", i/2, ref[i], ref[i+1], o[i], o[i+1]);
        bad++; break;
      }
    }
  }
  if (bad) { printf("REPRODUCED: equal inputs gave different results depending on heap state\n"); return 1; }
  printf("not reproduced by the replay scenes\n"); return 0;
}
'''


def replay_removeoverlaps(job, obl, inputs, workdir):
    lib = build_lib("libvpsc", workdir)
    rc, out = native_run(REPLAY_SRC, workdir, "replay_c20", extra=["-I", COLA], libs=[lib])
    if rc is None:
        return False, out
    return rc == 1, out


REPLAY_FRAMES = r'''
// Native replay for the A* pruning symmetry obligation: small orthogonal routing scenes with direction-restricted
// free-floating end points, routed in all eight frames (rotations/reflections of the whole scene, direction flags mapped
// along); length + 50 x bends must not depend on the frame.
#include "libavoid/libavoid.h"
#include <cstdio>
#include <cmath>
using namespace Avoid;
static const int M[8][4] = {{1,0,0,1},{0,-1,1,0},{-1,0,0,-1},{0,1,-1,0},{-1,0,0,1},{1,0,0,-1},{0,1,1,0},{0,-1,-1,0}};
static Point tp(int f, double x, double y) { return Point(M[f][0] * x + M[f][1] * y, M[f][2] * x + M[f][3] * y); }
static ConnDirFlags td(int f, ConnDirFlags d) {
  if (d == ConnDirAll || d == ConnDirNone) return d;
  ConnDirFlags out = 0;
  const ConnDirFlags dirs[4] = {ConnDirUp, ConnDirDown, ConnDirLeft, ConnDirRight}; const int vx[4] = {0, 0, -1, 1}, vy[4] = {-1, 1, 0, 0};
  for (int k = 0; k < 4; ++k) if (d & dirs[k]) { Point v = tp(f, vx[k], vy[k]);
    out |= (v.x > 0.5) ? ConnDirRight : (v.x < -0.5) ? ConnDirLeft : (v.y > 0.5) ? ConnDirDown : ConnDirUp; }
  return out;
}
struct Scene { int nshapes; double sh[2][4]; double sx, sy; ConnDirFlags sd; double tx, ty; ConnDirFlags tdir; const char *name; };
static double cost(const Scene &S, int f) {
  Router router(OrthogonalRouting); router.setRoutingParameter(segmentPenalty, 50);
  for (int i = 0; i < S.nshapes; ++i) { Point a = tp(f, S.sh[i][0], S.sh[i][1]), b = tp(f, S.sh[i][2], S.sh[i][3]);
    Rectangle rect(Point(std::min(a.x, b.x), std::min(a.y, b.y)), Point(std::max(a.x, b.x), std::max(a.y, b.y))); new ShapeRef(&router, rect); }
  ConnRef *c = new ConnRef(&router, ConnEnd(tp(f, S.sx, S.sy), td(f, S.sd)), ConnEnd(tp(f, S.tx, S.ty), td(f, S.tdir)));
  router.processTransaction();
  const PolyLine &r = c->displayRoute(); double len = 0; for (size_t i = 1; i < r.size(); ++i) len += fabs(r.ps[i].x - r.ps[i-1].x) + fabs(r.ps[i].y - r.ps[i-1].y);
  return len + 50.0 * (r.size() >= 2 ? (double)(r.size() - 2) : 0.0);
}
int main() {
  const Scene scenes[] = {
    {1, {{29,10,39,17},{0,0,0,0}}, 18, 23, ConnDirRight, 10, 35, ConnDirAll, "one obstacle, source leaves to the right"},
    {1, {{29,10,39,17},{0,0,0,0}}, 18, 23, ConnDirDown, 40, 30, ConnDirAll, "one obstacle, source leaves downwards"},
    {2, {{-10,-10,-4,6},{14,0,24,12}}, 0, 20, ConnDirAll, 6, 10, ConnDirUp, "two shapes, target entered from above"},
    {2, {{-10,-10,-4,6},{14,0,24,12}}, 0, 20, ConnDirLeft, 30, -4, ConnDirAll, "two shapes, source leaves to the left"},
    {1, {{100,100,200,200},{0,0,0,0}}, 100, 140, ConnDirAll, 300, 140, ConnDirAll, "source exactly on the obstacle's border, target beyond the obstacle"},
  };
  int bad = 0;
  for (size_t s = 0; s < sizeof(scenes) / sizeof(scenes[0]); ++s) {
    double c0 = cost(scenes[s], 0);
    for (int f = 1; f < 8; ++f) { double cf = cost(scenes[s], f);
      if (fabs(cf - c0) > 1e-6) { printf("scene '%s': cost %g in the original frame, %g in frame %d\n", scenes[s].name, c0, cf, f); bad++; break; } }
  }
  if (bad) { printf("REPRODUCED: route cost depends on the frame\n"); return 1; }
  printf("not reproduced by the replay scenes\n"); return 0;
}
'''


def replay_frames(job, obl, inputs, workdir):
    lib = build_lib("libavoid", workdir)
    rc, out = native_run(REPLAY_FRAMES, workdir, "replay_frames", extra=["-I", COLA], libs=[lib], timeout=300)
    if rc is None:
        return False, out
    return rc == 1, out


REPLAY_LAYOUT = r'''
// Native replay for the offsetDir frame obligation: the REAL libcola (rebuilt from the working tree).  The same layout job on
// equal fresh inputs whose nodes all start at one point (so offsetDir is drawn on) is run twice in one process, with a different
// coincident-start layout in between; the two results must be identical (C20: "regardless of what was computed before").
#include "libcola/cola.h"
#include <cstdio>
#include <cmath>
#include <vector>
using namespace cola;
static std::vector<double> run(unsigned n, unsigned extraEdges) {
  std::vector<vpsc::Rectangle*> rs; std::vector<Edge> es;
  for (unsigned i = 0; i < n; ++i) rs.push_back(new vpsc::Rectangle(0, 20, 0, 20));
  for (unsigned i = 0; i + 1 < n; ++i) es.push_back(Edge(i, i + 1));
  for (unsigned i = 0; i < extraEdges && i + 2 < n; ++i) es.push_back(Edge(i, i + 2));
  EdgeLengths el(es.size(), 1.0);
  ConstrainedFDLayout alg(rs, es, 60, el);
  alg.run();
  std::vector<double> out;
  for (unsigned i = 0; i < n; ++i) { out.push_back(rs[i]->getCentreX()); out.push_back(rs[i]->getCentreY()); }
  alg.freeAssociatedObjects();
  return out;
}
// a graph with two components: the ideal-distance rows across components must not depend on what the heap held before
static std::vector<double> run2(bool pollute) {
  if (pollute) { std::vector<double*> bufs; for (int k = 0; k < 64; ++k) { size_t len = 4 + (k % 13); double *b = new double[len]; for (size_t i = 0; i < len; ++i) b[i] = 7.0 + k; bufs.push_back(b); }
    for (size_t k = 0; k < bufs.size(); ++k) delete[] bufs[k]; }
  std::vector<vpsc::Rectangle*> rs; std::vector<Edge> es;
  for (unsigned i = 0; i < 8; ++i) rs.push_back(new vpsc::Rectangle(15.0 * i, 15.0 * i + 10, 9.0 * (i % 3), 9.0 * (i % 3) + 10));
  for (unsigned i = 0; i < 3; ++i) { es.push_back(Edge(i, i + 1)); es.push_back(Edge(4 + i, 5 + i)); }
  ConstrainedFDLayout alg(rs, es, 50);
  alg.run();
  std::vector<double> out;
  for (unsigned i = 0; i < 8; ++i) { out.push_back(rs[i]->getCentreX()); out.push_back(rs[i]->getCentreY()); }
  alg.freeAssociatedObjects();
  return out;
}
int main() {
  int bad = 0;
  {
    std::vector<double> a = run2(false), b = run2(true), c = run2(true);
    for (size_t i = 0; i < a.size(); ++i)
      if (!(std::fabs(a[i] - b[i]) <= 1e-9) || !(std::fabs(a[i] - c[i]) <= 1e-9)) {
        printf("layout of two disjoint paths: coordinate %zu is %.17g, %.17g, %.17g in three equal calls with different heap contents in between\n", i, a[i], b[i], c[i]); bad++; break; }
  }
  for (unsigned n = 2; n <= 7; ++n) {
    std::vector<double> a = run(n, 1);
    run(n + 1, 2);                       // unrelated work in between
    std::vector<double> b = run(n, 1);
    for (size_t i = 0; i < a.size(); ++i)
      if (!(std::fabs(a[i] - b[i]) <= 1e-9)) {
        printf("layout of %u coincident nodes: coordinate %zu is %.17g in the first run and %.17g when repeated after another layout\n", n, i, a[i], b[i]);
        bad++; break;
      }
  }
  if (bad) { printf("REPRODUCED: equal layout calls in one process give different positions (%d size(s))\n", bad); return 1; }
  printf("not reproduced: repeated coincident-start layouts are identical\n");
  return 0;
}
'''


def replay_layout(job, obl, inputs, workdir):
    libs = [build_lib(l, workdir) for l in ("libcola", "libvpsc")]
    rc, out = native_run(REPLAY_LAYOUT, workdir, "replay_layout", extra=["-I", COLA], libs=libs, timeout=600)
    if rc is None:
        return False, out
    return rc == 1, out


def jobs(tier):
    js = []
    c01 = _c01()
    pre = prelude("vpsc.h")
    VH, CHH = "libvpsc/variable.h", "libvpsc/constraint.h"
    pos = slice_func(VH, r'^\s*inline double position\(void\) const', "Variable::position")
    upos = slice_func(VH, r'^\s*inline double unscaledPosition\(void\) const', "Variable::unscaledPosition")
    slk = slice_func(CHH, r'^\s*inline double slack\(void\) const', "Constraint::slack")
    real_filled = c01.fill(pre, pos.text, upos.text, slk.text)
    node_pre = prelude("vpsc_node.h")
    layout.check_layout("vpsc_node", real_filled + node_pre, ["libvpsc/rectangle.cpp"],
                        [("vpsc::Node", ["v", "r", "pos", "firstAbove", "firstBelow", "leftNeighbours", "rightNeighbours"]),
                         ("vpsc::Variable", ["id"])],
                        sizes=["vpsc::Node"])
    spec = spec_header() + rd(HERE, "determinism.spec.c")
    base = "#include <verif_base.h>\n"
    S = {}
    S["cmpdecl"] = slice_lines(RC, r'^struct CmpNodePos \{ bool operator\(\)\(const Node\* u, const Node\* v\) const; \};', 1, "CmpNodePos declaration")
    S["cmp"] = slice_func(RC, r'^bool CmpNodePos::operator\(\) \(const Node\* u, const Node\* v\) const', "CmpNodePos::operator()")
    S["evtype"] = slice_lines(RC, r'^typedef enum \{Open, Close\} EventType;', 1, "EventType")
    S["event"] = slice_block(RC, r'^struct Event \{', "struct Event")
    S["cmpev"] = slice_func(RC, r'^int compare_events\(const void \*a, const void \*b\)', "compare_events")
    S["ccdecl"] = slice_block(CH, r'^class CompareConstraints \{', "class CompareConstraints")
    S["cc"] = slice_func(CC, r'^bool CompareConstraints::operator\(\) \(', "CompareConstraints::operator()")
    S["anode"] = slice_block(MP, r'^class ANode\n\{', "class ANode")
    S["anodecmp"] = slice_block(MP, r'^class ANodeCmp\n\{', "class ANodeCmp (with operator())")
    S["prclass"] = slice_block("libcola/pseudorandom.h", r'^class PseudoRandom \n?\{', "class PseudoRandom")
    S["getnext"] = slice_func("libcola/pseudorandom.cpp", r'^double PseudoRandom::getNext\(void\)', "PseudoRandom::getNext")

    # mirror: Node / Event / ANode / PseudoRandom (+ the C01 ones reused here)
    node_tu = (real_filled + node_pre + "namespace vpsc {\n" + S["cmpdecl"].text + "\n" + S["evtype"].text + "\n" + S["event"].text + "\n}\n")
    anode_tu = "#include <cmath>\nnamespace Avoid { class VertInf;\n" + S["anode"].text + "\n" + S["anodecmp"].text + "\n}\n"
    # access specifiers do not change behaviour; `private:` is opened so that the mirror-layout job can take field addresses
    pr_tu = "namespace cola {\n" + subst(S["prclass"], [(r'\bprivate:', 'public:', 1)]) + "\n" + S["getnext"].text + "\n}\n"
    mirror = [("vpsc::Node", "struct Node", ["v", "r", "pos", "firstAbove", "firstBelow", "leftNeighbours", "rightNeighbours"]),
              ("vpsc::Event", "struct Event", ["type", "v", "pos"]),
              ("Avoid::ANode", "struct ANode", ["inf", "g", "h", "f", "prevNode", "timeStamp"]),
              ("cola::PseudoRandom", "struct PseudoRandom", ["a", "c", "m", "range", "seed"]),
              ("vpsc::Constraint", "struct Constraint", ["left", "right", "gap", "timeStamp", "active", "unsatisfiable"]),
              ("vpsc::Variable", "struct Variable", ["id", "block"]),
              ("vpsc::Block", "struct Block", ["timeStamp"])]
    js.append(c01.mirror_job(node_tu + anode_tu + pr_tu, spec, mirror))

    dom = "all field values (positions not NaN), arguments are distinct objects"
    js.append(Job("CmpNodePos", "U", spec, "h_CmpNodePos",
                  cxx=base + node_tu + "namespace vpsc {\n" + S["cmp"].text + "\n}\n"
                      'extern "C" bool w_CmpNodePos(void *u, void *v) { vpsc::CmpNodePos cmp; return cmp((const vpsc::Node *)u, (const vpsc::Node *)v); }\n',
                  enforce="w_CmpNodePos", defines=["JOB_CmpNodePos"], slices=[S["cmp"]], domain=dom + ", variable ids differ",
                  expect=[r'postcondition', r'\.pointer\.\d+'], replay=replay_removeoverlaps))
    ev_cxx = (base + node_tu + "namespace vpsc {\n" + S["cmpev"].text + "\n}\n"
              'extern "C" int w_compare_events(void *a, void *b) { return vpsc::compare_events(a, b); }\n')
    js.append(Job("compare_events", "U", spec, "h_compare_events", cxx=ev_cxx, enforce="w_compare_events",
                  defines=["JOB_compare_events"], slices=[S["cmpev"], S["event"]], domain=dom,
                  expect=[r'postcondition'], replay=replay_removeoverlaps))
    js.append(Job("compare_events_twocopy", "U", spec, "h_compare_events_2", cxx=ev_cxx,
                  defines=["JOB_compare_events_twocopy"], slices=[S["cmpev"]],
                  domain="two event pairs with equal (type,pos) at different addresses",
                  expect=[r'h_compare_events_2\.assertion'], replay=replay_removeoverlaps))
    shim_filled = c01.fill(pre, c01.SHIM_POSITION, c01.SHIM_UPOSITION, c01.SHIM_SLACK)
    js.append(Job("CompareConstraints", "U", spec, "h_CompareConstraints",
                  cxx=base + c01.EXTERN + shim_filled + "namespace vpsc {\n" + S["ccdecl"].text + "\n" + S["cc"].text + "\n}\n"
                      'extern "C" bool w_CompareConstraints(void *l, void *r) { vpsc::CompareConstraints cmp; '
                      'vpsc::Constraint *lc = (vpsc::Constraint *)l; vpsc::Constraint *rc = (vpsc::Constraint *)r; return cmp(lc, rc); }\n',
                  enforce="w_CompareConstraints", replace=["w_slack"], defines=["JOB_CompareConstraints"], slices=[S["cc"]],
                  domain="all field values (slacks not NaN); slack() replaced by its contract", expect=[r'postcondition']))
    js.append(Job("ANodeCmp", "U", spec, "h_ANodeCmp",
                  cxx=base + anode_tu + 'extern "C" bool w_ANodeCmp(void *a, void *b) { Avoid::ANodeCmp cmp; '
                      'return cmp((const Avoid::ANode *)a, (const Avoid::ANode *)b); }\n',
                  enforce="w_ANodeCmp", defines=["JOB_ANodeCmp"], slices=[S["anodecmp"], S["anode"]], domain="all doubles",
                  expect=[r'postcondition']))
    js.append(Job("PseudoRandom_getNext", "U", spec, "h_getNext",
                  cxx=base + pr_tu + 'extern "C" double w_getNext(void *r) { return ((cola::PseudoRandom *)r)->getNext(); }\n',
                  enforce="w_getNext", defines=["JOB_getNext"], flags=["--sat-solver", "cadical"], backend="sat:cadical", slices=[S["getnext"], S["prclass"]], domain="every seed (2^32)",
                  expect=[r'postcondition']))
    # ---------------- ConstrainedFDLayout::offsetDir: the random displacement of coincident nodes draws on state owned by the layout object only
    gnb = slice_func("libcola/pseudorandom.cpp", r'^double PseudoRandom::getNextBetween\(double min, double max\)', "PseudoRandom::getNextBetween")
    od = slice_func("libcola/colafd.cpp", r'^std::vector<double> ConstrainedFDLayout::offsetDir\(double minD\)', "ConstrainedFDLayout::offsetDir")
    # the declaration of the generator is taken verbatim from cola.h (member or not is the code's choice, not the prelude's);
    # a definition of it at namespace scope in colafd.cpp, if there is one, is carried along
    rdecl = slice_lines("libcola/cola.h", r'^\s*(static\s+|mutable\s+)?PseudoRandom\s+random\s*;', 1, "ConstrainedFDLayout: declaration of `random`")
    rdefs = re.findall(r'^[ \t]*(?:cola::)?PseudoRandom\s+ConstrainedFDLayout::random\b[^;]*;', strip_comments(read_repo("libcola/colafd.cpp")), re.M)
    # getNext behind its own contract (job PseudoRandom_getNext enforces it)
    pr_shim = ('extern "C" double w_getNext(void *r);\nnamespace cola {\n' + subst(S["prclass"], [(r'\bprivate:', 'public:', 1)]) +
               "\ndouble PseudoRandom::getNext(void) { return w_getNext((void *)this); }\n}\n")
    if rdefs:
        # front-end workaround: a namespace-scope object constructed through a DEFAULT argument crashes goto-instrument ("identifier s was
        # not found"); the default is read from the sliced class and written out explicitly, and the real constructor is carried along
        mdef = re.search(r'PseudoRandom\(double s = ([^,)]+)\);', S["prclass"].text)
        if not mdef:
            raise Undecided("C20 offsetDir: cannot read the default seed from class PseudoRandom")
        rdefs = [re.sub(r'(ConstrainedFDLayout::random)\s*;', r'\1(%s);' % mdef.group(1), d) for d in rdefs]
        prctor = slice_func("libcola/pseudorandom.cpp", r'^PseudoRandom::PseudoRandom\(double s\)', "PseudoRandom::PseudoRandom")
        gnb_text = prctor.text + "\n" + gnb.text
    else:
        gnb_text = gnb.text
    od_cxx = (base + "#include <vector>\n#include <cmath>\n" + pr_shim + "namespace cola {\n" + gnb_text + "\n"
              "class ConstrainedFDLayout { public:\n    std::vector<double> offsetDir(double minD);\n" + rdecl.text + "\n};\n" + "\n".join(rdefs) + "\n" + od.text + "\n}\n"
              'extern "C" void w_offsetDir(void *layout, double minD, double *out) { std::vector<double> r = ((cola::ConstrainedFDLayout *)layout)->offsetDir(minD); out[0] = r[0]; out[1] = r[1]; }\n')
    js.append(Job("offsetDir_frame", "U", spec, "h_offsetDir", cxx=od_cxx, enforce="w_offsetDir", replace=["w_getNext"], defines=["JOB_offsetDir", "JOB_getNext_contract"], stub_variant="bounded", cxx_defines=["VERIF_SQRT_UNINTERPRETED"],
                  flags=["--sat-solver", "cadical", "--no-malloc-may-fail"], backend="sat:cadical", slices=[od, gnb, rdecl, S["prclass"]], unwind=3,
                  domain="every seed, every minD; the two constant-bound loops (2 iterations) unwound with unwinding assertions",
                  expect=[r'postcondition', r'assigns|assignable', r'unwind'], replay=replay_layout,
                  note="frame condition: offsetDir writes only the generator state inside the layout object it is called on, which advances by exactly two draws"))
    # ---------------- A* orthogonal turn pruning: transposition symmetry (two calls of the real fragment)
    srch = slice_func(MP, r'^void AStarPathPrivate::search\(ConnRef \*lineRef, VertInf \*src, VertInf \*tar, VertInf \*start\)', "AStarPathPrivate::search")
    prune = fragment_between(srch, r'if \(isOrthogonal && !\(\*edge\)->isDummyConnection\(\)\)\s*\{\s*// Orthogonal routing optimisation',
                             r'double edgeDist = \(\*edge\)->getDist\(\);', "AStarPathPrivate::search [orthogonal turn-pruning block]", allow_continue=True)
    ptext = subst(prune, [(r'!\(\*edge\)->isDummyConnection\(\)', '!verif_isDummy', 1), (r'\bcontinue;', 'return true;', 4)])
    pawo = slice_func(MP, r'^static inline bool pointAlignedWithOneOf\(const Point& point,', "pointAlignedWithOneOf")
    flags_ = slice_lines("libavoid/vertices.h", r'^static const unsigned int [XY][LH]_(EDGE|CONN) = \d+;', 8, "orthogonal visibility flags")
    dims = slice_lines("libavoid/geomtypes.h", r'^static const size_t [XY]DIM = \d;', 2, "XDIM/YDIM")
    gt = "libavoid/geomtypes.cpp"
    idx1 = slice_func(gt, r'^double& Point::operator\[\]\(const size_t dimension\)', "Point::operator[]")
    idx2 = slice_func(gt, r'^const double& Point::operator\[\]\(const size_t dimension\) const', "Point::operator[] const")
    rw = [(r'return \(\(dimension == 0\) \? x : y\);', 'if (dimension == 0) return x; return y;', 1)]
    pt_pre, vi_pre = prelude("avoid_geomtypes.h"), prelude("avoid_vertinf.h")
    layout.check_layout("avoid_vertinf", pt_pre + vi_pre, ["libavoid/vertices.h"],
                        [("Avoid::VertInf", ["_router", "id", "point", "lstPrev", "shNext", "visList", "visListSize", "orthogVisList", "invisList", "pathNext",
                                             "m_orthogonalPartner", "m_treeRoot", "sptfDist", "visDirections", "aStarDoneNodes", "aStarPendingNodes", "orthogVisPropFlags"]),
                         ("Avoid::VertID", ["objID", "vn", "props"])], sizes=["Avoid::VertInf", "Avoid::VertID"])
    prune_cxx = (base + "#include <vector>\n" + pt_pre + vi_pre + "namespace Avoid {\n" + dims.text + "\n" + flags_.text + "\n" +
                 subst(idx1, rw) + "\n" + subst(idx2, rw) + "\n" + S["anode"].text + "\n" + pawo.text + "\n"
                 "// the fragment as a predicate: `continue` (edge pruned) -> return true; its free variables become parameters with the types they have in search()\n"
                 "static bool verif_prune(bool isOrthogonal, bool verif_isDummy, VertInf *bestNodeInf, ANode& node, VertInf *prevInf, VertInf *src, std::vector<Point>& endPoints)\n{\n" +
                 ptext + "\n    return false;\n}\n}\n"
                 'extern "C" bool w_prune(bool isOrthogonal, bool isDummy, void *best, void *next, void *prev, void *src, void *endPoints) {\n'
                 '  Avoid::ANode node; node.inf = (Avoid::VertInf *)next;\n'
                 '  return Avoid::verif_prune(isOrthogonal, isDummy, (Avoid::VertInf *)best, node, (Avoid::VertInf *)prev, (Avoid::VertInf *)src, *(std::vector<Avoid::Point> *)endPoints); }\n')
    js.append(Job("astar_pruning_transpose_symmetry", "U", spec, "h_prune_symmetry", cxx=prune_cxx, defines=["JOB_prune_symmetry"], replay=replay_frames,
                  slices=[srch, prune, pawo], unwind=4, flags=["--object-bits", "10"],
                  domain="every search state: all doubles as coordinates, all flag words, with and without a previous vertex, 0-2 end points; the state and its transpose",
                  expect=[r'h_prune_symmetry\.assertion']))
    # ---------------- translation invariance of the bend estimator (two calls of the real bends, helpers inlined)
    consts = slice_lines(MP, r'^static const unsigned int CostDirection[NESW] = \d+;', 4, "CostDirection constants")
    hb = [slice_func(MP, r'^static unsigned int orthogonalDirection\(const Point &a, const Point &b\)', "orthogonalDirection"),
          slice_func(MP, r'^static unsigned int dirRight\(unsigned int direction\)', "dirRight"),
          slice_func(MP, r'^static unsigned int dirLeft\(unsigned int direction\)', "dirLeft"),
          slice_func(MP, r'^static unsigned int dirReverse\(unsigned int direction\)', "dirReverse"),
          slice_func(MP, r'^int bends\(const Point& curr, unsigned int currDir, const Point& dest,', "bends")]
    bt_cxx = (base + pt_pre + "namespace Avoid {\n" + consts.text + "\n" + "\n".join(x.text for x in hb) + "\n}\n"
              'extern "C" int w_bends(void *curr, unsigned int currDir, void *dest, unsigned int destDir)\n'
              '{ return Avoid::bends(*(const Avoid::Point *)curr, currDir, *(const Avoid::Point *)dest, destDir); }\n')
    js.append(Job("bends_translation_invariance", "D", spec, "h_bends_translation", cxx=bt_cxx, defines=["JOB_bends_translation", "TB=%d" % (1024 if tier == "quick" else 1048576)], slices=hb,
                  domain="integer-valued coordinates and offsets with |v| <= %s (all sums exact), all 16 direction pairs, curr != dest" % ("2^10" if tier == "quick" else "2^20"),
                  expect=[r'h_bends_translation\.assertion'], flags=["--sat-solver", "cadical"], backend="sat:cadical"))
    # ---------------- the ideal-distance rows are fully written (job of the C17 check, run here as well): an entry dijkstra leaves unwritten is heap garbage
    spec17 = importlib.util.spec_from_file_location("jobs_C17_for_C20", os.path.join(VERIF, "contracts", "C17", "jobs.py"))
    m17 = importlib.util.module_from_spec(spec17); spec17.loader.exec_module(m17)
    for j in m17.jobs(tier):
        if j.name == "dijkstra_writes_every_entry":
            j.name = "distance_row_fully_written"
            j.replay = replay_layout
            j.note = (j.note + " " if j.note else "") + "[job of the C17 check, run here as well: johnsons hands dijkstra rows from a bare new T[n]]"
            js.append(j)
    # ---------------- libavoid scan line: Node::firstPointAbove / firstPointBelow are MIRROR TWINS -- looking down in a scene is looking up in the mirrored scene.
    #                  The visibility limits of connector end points come from these two; a twin that treats the boundary case differently (an obstacle edge exactly
    #                  at the point's coordinate) makes a route's cost depend on the frame.  Whole real functions, chains of up to 2 nodes (bounded).
    SL = "libavoid/scanline.cpp"
    fpa = slice_func(SL, r'^double Node::firstPointAbove\(size_t dim\)', "Node::firstPointAbove")
    fpb = slice_func(SL, r'^double Node::firstPointBelow\(size_t dim\)', "Node::firstPointBelow")
    nmem = slice_lines("libavoid/scanline.h", r'^    (double pos;|double min\[2\], max\[2\];|Node \*firstAbove, \*firstBelow;)$', 4, "Node data members (scanline.h)")
    fp_cxx = ("#include <verif_base.h>\n#include <cfloat>\n#include <algorithm>\n"
              "namespace Avoid {\n// stand-in with the data members the two functions read (their declaration in scanline.h is matched textually)\n"
              "class Node { public: double pos; double min[2], max[2]; Node *firstAbove, *firstBelow; double firstPointAbove(size_t dim); double firstPointBelow(size_t dim); };\n" +
              fpa.text + "\n" + fpb.text + "\n}\n"
              "static Avoid::Node verif_self, verif_n[2];\n"
              "// scene: the point (pos along dim, selfAlt across) and a chain of k obstacles [lo,hi] x [alo,ahi]; up != 0: chain hangs off firstAbove, else off firstBelow\n"
              'extern "C" double w_first_point(int up, unsigned dim, unsigned k, double pos, double selfAlt, double lo0, double hi0, double alo0, double ahi0, double lo1, double hi1, double alo1, double ahi1) {\n'
              "  unsigned alt = (dim + 1) % 2; double LO[2] = {lo0, lo1}, HI[2] = {hi0, hi1}, ALO[2] = {alo0, alo1}, AHI[2] = {ahi0, ahi1};\n"
              "  verif_self.pos = pos; verif_self.min[alt] = selfAlt; verif_self.max[alt] = selfAlt; verif_self.min[dim] = pos; verif_self.max[dim] = pos;\n"
              "  for (unsigned i = 0; i < 2; ++i) { verif_n[i].min[dim] = LO[i]; verif_n[i].max[dim] = HI[i]; verif_n[i].min[alt] = ALO[i]; verif_n[i].max[alt] = AHI[i]; verif_n[i].pos = LO[i];\n"
              "    verif_n[i].firstAbove = (up && i + 1 < k) ? &verif_n[i + 1] : 0; verif_n[i].firstBelow = (!up && i + 1 < k) ? &verif_n[i + 1] : 0; }\n"
              "  verif_self.firstAbove = (up && k > 0) ? &verif_n[0] : 0; verif_self.firstBelow = (!up && k > 0) ? &verif_n[0] : 0;\n"
              "  return up ? verif_self.firstPointAbove(dim) : verif_self.firstPointBelow(dim); }\n")
    js.append(Job("scanline_first_point_twins_mirror", "B", spec, "h_first_point", cxx=fp_cxx, defines=["JOB_first_point"], slices=[fpa, fpb, nmem], unwind=4, replay=replay_frames,
                  flags=["--sat-solver", "cadical"], backend="sat:cadical", timeout=600,
                  bound="chains of 0 to 2 obstacle nodes (loops unwound 4 times with unwinding assertions)",
                  domain="both dimensions, every position and every obstacle extent (all doubles but NaN)",
                  expect=[r'h_first_point\.assertion']))
    return js


LEVEL = "proof"
TRUSTED = [
    "cbmc/goto-cc/goto-instrument 6.11.0 and the MiniSat back end; CBMC's pointer check ('same object violation') as the formulation of 'no relational comparison of unrelated pointers'",
    "prelude/vpsc.h, prelude/vpsc_node.h (layout cross-checked against the real headers / rectangle.cpp); class ANode, ANodeCmp, struct Event, class PseudoRandom are sliced verbatim",
    "precondition of CmpNodePos: distinct scan-line nodes carry distinct variable ids (every caller numbers variables 0..n-1; by inspection of removeoverlaps, cola.cpp, gradient_projection.cpp)",
]
ASSUMPTIONS = [
    "address tie-breaks NOT under obligation (no differing run could be replayed, unobservability not proved): CmpVertInf (libavoid/orthogonal.cpp), CmpVisEdgeRotation's non-orthogonal fallback (makepath.cpp), ActionInfo::operator< for ConnectionPinChange (its comment claims the order is unused)",
    "symmetry/translation obligations exist for two kernels only: transposition symmetry of the A* turn-pruning block, translation invariance of bends on integer-valued coordinates",
    "offsetDir: the declaration of `random` is taken verbatim from cola.h and the frame condition is checked by goto-instrument's assigns instrumentation; sqrt is an "
    "uninterpreted function there; getNext is assumed as `seed' = f(seed)` for an uninterpreted f (its enforced contract is the instance f = the documented LCG step)",
    "distance_row_fully_written is C17's BOUNDED dijkstra job (3 nodes): an entry of the distance row that dijkstra does not write is heap garbage (johnsons allocates rows with a bare new T[n])",
    "scanline_first_point_twins_mirror is a BOUNDED stand-in (chains of 0 to 2 obstacle nodes; Node is a stand-in with the data members the two functions read): Node::firstPointBelow in the mirrored scene "
    "equals minus Node::firstPointAbove in the scene, boundary cases included, and firstPointAbove is the greatest obstacle edge at or before the point (in-line obstacles ignored)",
    "NOT decided (residue): bit-identical whole routes/layouts, scene symmetries and translation invariance of whole routes, permutation independence of VPSC, uninitialised reads outside the constructors covered by C15",
]
EXPLANATION = ("Value-determinism of the ordering kernels through which allocation addresses could reach results: each comparator's result is proved to be a stated function of "
               "field values and to evaluate no relational comparison of pointers to different objects; PseudoRandom::getNext is a function of the seed only and ConstrainedFDLayout::offsetDir draws on (and writes) nothing but the generator inside its own layout object; the A* turn-pruning decision is invariant under transposing the search state; "
               "bends is invariant under integer translation.")
