/* C20: reproducibility -- value-determinism of the ordering kernels (DESIGN.md 5/C20).
 *
 * A run can depend on allocation addresses only through comparators of ordered containers / sorts.
 * Obligation on each comparator: (a) its result is a stated function of the VALUES reachable from its
 * arguments (so two equal-valued argument pairs at different addresses get the same answer), and
 * (b) it never evaluates a relational comparison of pointers into different objects -- CBMC's
 * pointer check "same object violation" is that obligation, on arguments that are distinct objects.
 */
#define PACKED __attribute__((packed))
struct PACKED vec { void *d; size_t n; size_t cap; };
struct PACKED PositionStats { double scale, AB, AD, A2; };
struct PACKED Block { struct vec *vars; double posn; struct PositionStats ps; _Bool deleted; long timeStamp; void *in; void *out; void *blocks; };
struct PACKED Variable { int id; double desiredPosition, finalPosition, weight, scale, offset; struct Block *block;
                  _Bool visited; _Bool fixedDesiredPosition; struct vec in; struct vec out; };
struct PACKED Constraint { struct Variable *left, *right; double gap, lm; long timeStamp; _Bool active; _Bool equality;
                    _Bool unsatisfiable; _Bool needsScaling; void *creator; };
struct PACKED Node { struct Variable *v; void *r; double pos; void *firstAbove, *firstBelow; void *leftNeighbours, *rightNeighbours; };
struct PACKED Event { int type; struct Node *v; double pos; };
struct PACKED ANode { void *inf; double g, h, f; void *prevNode; int timeStamp; };
struct PACKED PseudoRandom { int a; int c; unsigned int m; double range; unsigned int seed; };
#define N(p) ((struct Node *)(p))
#define E(p) ((struct Event *)(p))
#define A(p) ((struct ANode *)(p))
#define C(p) ((struct Constraint *)(p))
#define R(p) ((struct PseudoRandom *)(p))

#if defined(JOB_mirror_layout)
@MIRROR_CHECKS@
#endif

/* ------------------------------------------------------------ CmpNodePos (libvpsc/rectangle.cpp) */
#if defined(JOB_CmpNodePos)
_Bool w_CmpNodePos(void *u, void *v)
__CPROVER_requires(__CPROVER_is_fresh(u, sizeof(struct Node)) && __CPROVER_is_fresh(v, sizeof(struct Node)))
__CPROVER_requires(__CPROVER_is_fresh(N(u)->v, sizeof(struct Variable)) && __CPROVER_is_fresh(N(v)->v, sizeof(struct Variable)))
/* its own assertions: positions are numbers */
__CPROVER_requires(!IS_NAN(N(u)->pos) && !IS_NAN(N(v)->pos))
/* distinct scan-line nodes stand for distinct rectangles: every caller numbers the variables 0..n-1 */
__CPROVER_requires(N(u)->v->id != N(v)->v->id)
/* the order is the lexicographic order on (position, variable id): a function of values only */
__CPROVER_ensures(__CPROVER_return_value == (N(u)->pos < N(v)->pos || (N(u)->pos == N(v)->pos && N(u)->v->id < N(v)->v->id)))
__CPROVER_assigns()
;
void h_CmpNodePos(void) { void *u, *v; w_CmpNodePos(u, v); VERIF_CANARY; }
#endif

/* ------------------------------------------------------------ compare_events (libvpsc/rectangle.cpp) */
#if defined(JOB_compare_events)
#define EV_OPEN 0
int w_compare_events(void *a, void *b)
__CPROVER_requires(__CPROVER_is_fresh(a, sizeof(void *)) && __CPROVER_is_fresh(b, sizeof(void *)))
__CPROVER_requires(__CPROVER_is_fresh(*(void **)a, sizeof(struct Event)) && __CPROVER_is_fresh(*(void **)b, sizeof(struct Event)))
__CPROVER_requires(__CPROVER_is_fresh(E(*(void **)a)->v, sizeof(struct Node)) && __CPROVER_is_fresh(E(*(void **)b)->v, sizeof(struct Node)))
__CPROVER_requires(!IS_NAN(E(*(void **)a)->pos) && !IS_NAN(E(*(void **)b)->pos))
/* events at different positions are ordered by position */
__CPROVER_ensures(E(*(void **)a)->pos < E(*(void **)b)->pos ==> __CPROVER_return_value < 0)
__CPROVER_ensures(E(*(void **)a)->pos > E(*(void **)b)->pos ==> __CPROVER_return_value > 0)
/* at one position an opening event precedes a closing one */
__CPROVER_ensures((E(*(void **)a)->pos == E(*(void **)b)->pos && E(*(void **)a)->type == EV_OPEN && E(*(void **)b)->type != EV_OPEN) ==> __CPROVER_return_value < 0)
__CPROVER_ensures((E(*(void **)a)->pos == E(*(void **)b)->pos && E(*(void **)a)->type != EV_OPEN && E(*(void **)b)->type == EV_OPEN) ==> __CPROVER_return_value > 0)
/* two events of the same kind at one position: the answer depends on the first event's kind only
 * (qsort is handed a comparator that is not antisymmetric there -- recorded as an observation; what
 * C20 needs is that nothing but values is consulted, which (b) below settles) */
__CPROVER_assigns()
;
void h_compare_events(void) { void *a, *b; w_compare_events(a, b); VERIF_CANARY; }
/* two equal-valued pairs at different addresses compare alike */
int w_compare_events(void *a, void *b);
#endif
#if defined(JOB_compare_events_twocopy)
int w_compare_events(void *a, void *b);
void h_compare_events_2(void)
{
    struct Node n1, n2, n3, n4; struct Event a1, b1, a2, b2; void *pa1 = &a1, *pb1 = &b1, *pa2 = &a2, *pb2 = &b2;
    a1.v = &n1; b1.v = &n2; a2.v = &n3; b2.v = &n4;
    __CPROVER_assume(!IS_NAN(a1.pos) && !IS_NAN(b1.pos));
    __CPROVER_assume(a1.type == a2.type && b1.type == b2.type && a1.pos == a2.pos && b1.pos == b2.pos);
    __CPROVER_assume(a1.type >= 0 && a1.type <= 1 && b1.type >= 0 && b1.type <= 1);
    int r1 = w_compare_events(&pa1, &pb1);
    int r2 = w_compare_events(&pa2, &pb2);
    __CPROVER_assert(r1 == r2, "SPEC compare_events: equal-valued event pairs at different addresses compare alike");
    VERIF_CANARY;
}
#endif

/* ------------------------------------------------------------ CompareConstraints (libvpsc/constraint.cpp) */
#if defined(JOB_CompareConstraints)
double __CPROVER_uninterpreted_slackof(void *);
double w_slack(void *c)
__CPROVER_ensures(FEQ(__CPROVER_return_value, __CPROVER_uninterpreted_slackof(c)))
__CPROVER_assigns()
;
#define VALIDC(c) (__CPROVER_is_fresh(c, sizeof(struct Constraint)) && \
    __CPROVER_is_fresh(C(c)->left, sizeof(struct Variable)) && __CPROVER_is_fresh(C(c)->right, sizeof(struct Variable)) && \
    __CPROVER_is_fresh(C(c)->left->block, sizeof(struct Block)))
/* key used by the heap: -DBL_MAX for stale or internal constraints, else the slack */
#define KEY(c) ((C(c)->left->block->timeStamp > C(c)->timeStamp || C(c)->left->block == C(c)->right->block) ? \
                -1.7976931348623157e308 : __CPROVER_uninterpreted_slackof(c))
_Bool w_CompareConstraints(void *l, void *r)
__CPROVER_requires(VALIDC(l) && VALIDC(r))
__CPROVER_requires(!IS_NAN(__CPROVER_uninterpreted_slackof(l)) && !IS_NAN(__CPROVER_uninterpreted_slackof(r)))
/* ordered by key, ties by (left id, right id): values only */
__CPROVER_ensures(KEY(l) < KEY(r) ==> __CPROVER_return_value)
__CPROVER_ensures(KEY(l) > KEY(r) ==> !__CPROVER_return_value)
__CPROVER_ensures(KEY(l) == KEY(r) ==> __CPROVER_return_value ==
    (C(l)->left->id < C(r)->left->id || (C(l)->left->id == C(r)->left->id && C(l)->right->id < C(r)->right->id)))
__CPROVER_assigns()
;
void h_CompareConstraints(void) { void *l, *r; w_CompareConstraints(l, r); VERIF_CANARY; }
#endif

/* ------------------------------------------------------------ ANodeCmp (libavoid/makepath.cpp) */
#if defined(JOB_ANodeCmp)
_Bool w_ANodeCmp(void *a, void *b)
__CPROVER_requires(__CPROVER_is_fresh(a, sizeof(struct ANode)) && __CPROVER_is_fresh(b, sizeof(struct ANode)))
/* heap order "larger f first" beyond the tolerance; within it, by time stamp: values only.
 * (The tolerance band itself is the code's choice and is not restated: clearly separated costs
 *  must order by cost, equal costs by time stamp.) */
__CPROVER_ensures((A(a)->f == A(b)->f) ==> __CPROVER_return_value == (A(a)->timeStamp < A(b)->timeStamp))
__CPROVER_ensures((A(a)->f > A(b)->f + 1.0 && A(b)->f >= -1e300 && A(a)->f <= 1e300) ==> __CPROVER_return_value)
__CPROVER_ensures((A(a)->f + 1.0 < A(b)->f && A(a)->f >= -1e300 && A(b)->f <= 1e300) ==> !__CPROVER_return_value)
__CPROVER_assigns()
;
void h_ANodeCmp(void) { void *a, *b; w_ANodeCmp(a, b); VERIF_CANARY; }
#endif

/* ------------------------------------------------------------ PseudoRandom::getNext (libcola/pseudorandom.cpp) */
#if defined(JOB_getNext) || defined(JOB_getNext_contract)
unsigned __CPROVER_uninterpreted_lcg(unsigned);
double w_getNext(void *r)
__CPROVER_requires(__CPROVER_is_fresh(r, sizeof(struct PseudoRandom)))
/* as constructed by PseudoRandom(double) */
__CPROVER_requires(R(r)->a == 214013 && R(r)->c == 2531011 && R(r)->m == 2147483648u && R(r)->range == 32767.0)
/* the documented linear congruential generator: the next state and the output are functions of the seed only */
#if defined(JOB_getNext)
__CPROVER_ensures(R(r)->seed == ((__CPROVER_old(R(r)->seed) * 214013u + 2531011u) & 0x7fffffffu))
#else
/* as assumed by callers: the step as an uninterpreted function f of the seed (the enforced clause above is the instance
 * f(s) = (s*214013 + 2531011) mod 2^31; two separately built 32-bit multipliers are not proved equal by any back end here) */
__CPROVER_ensures(R(r)->seed == __CPROVER_uninterpreted_lcg(__CPROVER_old(R(r)->seed)))
#endif
#if defined(JOB_getNext)   /* the value clause is enforced by job PseudoRandom_getNext; callers that only need the state transition assume the rest */
__CPROVER_ensures(__CPROVER_return_value == (double)(R(r)->seed >> 16) / 32767.0)
#endif
__CPROVER_assigns(R(r)->seed)
;
#if defined(JOB_getNext)
void h_getNext(void) { void *r; w_getNext(r); VERIF_CANARY; }
#endif
#endif

/* ------------------------------------------------------------ ConstrainedFDLayout::offsetDir (libcola/colafd.cpp) */
#if defined(JOB_offsetDir)
/* C20: "the same calls on equal inputs give equal results regardless of what was computed before in the process".  The only
 * randomness in libcola layout is the displacement of coincident nodes; it must draw on generator state that belongs to the
 * layout object (seeded at construction), and on nothing that outlives it. */
struct PACKED LayoutRandom { struct PseudoRandom random; };
#define LR(p) (&((struct LayoutRandom *)(p))->random)
#define LCG(s) __CPROVER_uninterpreted_lcg(s)
void w_offsetDir(void *layout, double minD, double *out)
__CPROVER_requires(__CPROVER_is_fresh(layout, sizeof(struct LayoutRandom)) && __CPROVER_is_fresh(out, 2 * sizeof(double)))
__CPROVER_requires(LR(layout)->a == 214013 && LR(layout)->c == 2531011 && LR(layout)->m == 2147483648u && LR(layout)->range == 32767.0)
/* exactly two draws from the object's own generator */
__CPROVER_ensures(LR(layout)->seed == LCG(LCG(__CPROVER_old(LR(layout)->seed))))
/* frame: nothing but that generator state and the result changes -- in particular no state shared between layout objects */
__CPROVER_assigns(LR(layout)->seed, __CPROVER_object_whole(out))
;
void h_offsetDir(void) { void *l; double m; double *o; w_offsetDir(l, m, o); VERIF_CANARY; }
#endif

/* ------------------------------------------------------------ A* turn pruning is invariant under transposing the scene */
#if defined(JOB_prune_symmetry)
/* C20: "mirroring or quarter-turning a routing scene leaves every route's cost unchanged".  The orthogonal turn-pruning
 * block of AStarPathPrivate::search treats the two dimensions by two hand-written branches; the decision to prune an edge
 * must be the same for a search state and for its transpose (x <-> y everywhere, X*_ flags <-> Y*_ flags). */
struct PACKED Pt { double x; double y; unsigned int id; unsigned short vn; };
struct PACKED VertID { unsigned int objID; unsigned short vn; unsigned short props; };
struct PACKED l24 { void *a, *b; size_t n; };
struct PACKED VertInf { void *_router; struct VertID id; struct Pt point; void *lstPrev, *lstNext, *shPrev, *shNext; struct l24 visList; unsigned int visListSize;
                        struct l24 orthogVisList; unsigned int orthogVisListSize; struct l24 invisList; unsigned int invisListSize; void *pathNext;
                        void *m_orthogonalPartner; void *m_treeRoot; double sptfDist; unsigned int visDirections; struct l24 aStarDoneNodes; struct l24 aStarPendingNodes;
                        unsigned int orthogVisPropFlags; };
_Bool w_prune(_Bool isOrthogonal, _Bool isDummy, void *best, void *next, void *prev, void *src, void *endPoints);
#define TFLAGS(f) ((((f) & 0x0fu) << 4) | (((f) >> 4) & 0x0fu) | ((f) & ~0xffu))
static void transpose(struct Pt *p) { double t = p->x; p->x = p->y; p->y = t; }
void h_prune_symmetry(void)
{
    struct VertInf best, next, prev, src, tbest, tnext, tprev, tsrc; struct Pt ep[2], tep[2]; struct vec eps, teps; _Bool orth, dummy, hasprev;
    tbest = best; tnext = next; tprev = prev; tsrc = src; tep[0] = ep[0]; tep[1] = ep[1];
    transpose(&tbest.point); transpose(&tnext.point); transpose(&tprev.point); transpose(&tsrc.point); transpose(&tep[0]); transpose(&tep[1]);
    tbest.orthogVisPropFlags = TFLAGS(best.orthogVisPropFlags);
    size_t ne; __CPROVER_assume(ne <= 2);
    eps.d = ep; eps.n = ne; eps.cap = 2; teps.d = tep; teps.n = ne; teps.cap = 2;
    _Bool r1 = w_prune(orth, dummy, &best, &next, hasprev ? &prev : (void *)0, &src, &eps);
    _Bool r2 = w_prune(orth, dummy, &tbest, &tnext, hasprev ? &tprev : (void *)0, &tsrc, &teps);
    __CPROVER_assert(r1 == r2, "SPEC A* turn pruning: an edge is pruned for a search state iff it is pruned for the transposed state (x and y exchanged)");
    VERIF_CANARY;
}
#endif

/* ------------------------------------------------------------ translation invariance of the bend estimator */
#if defined(JOB_bends_translation)
/* C20: "translating a routing scene by an exactly representable offset translates the result by the same offset".
 * For the bend-count kernel: on integer-valued coordinates, translating both points by an integer offset leaves the
 * estimate unchanged (two calls of the real Avoid::bends, helpers inlined). */
#ifndef TB
#define TB 1048576
#endif
struct PACKED Pt2 { double x; double y; unsigned int id; unsigned short vn; };
int w_bends(void *curr, unsigned int currDir, void *dest, unsigned int destDir);
void h_bends_translation(void)
{
    int cx, cy, dx, dy, tx, ty; unsigned int cd, dd;
    __CPROVER_assume(cx >= -TB && cx <= TB && cy >= -TB && cy <= TB && dx >= -TB && dx <= TB && dy >= -TB && dy <= TB);
    __CPROVER_assume(tx >= -TB && tx <= TB && ty >= -TB && ty <= TB);
    __CPROVER_assume((cd == 1 || cd == 2 || cd == 4 || cd == 8) && (dd == 1 || dd == 2 || dd == 4 || dd == 8) && !(cx == dx && cy == dy));
    struct Pt2 c1, d1, c2, d2;
    c1.x = cx; c1.y = cy; d1.x = dx; d1.y = dy;
    c2.x = cx + tx; c2.y = cy + ty; d2.x = dx + tx; d2.y = dy + ty;      /* exact: small integers */
    int r1 = w_bends(&c1, cd, &d1, dd), r2 = w_bends(&c2, cd, &d2, dd);
    __CPROVER_assert(r1 == r2, "SPEC bends: translating both points by an exactly representable offset leaves the estimate unchanged");
    VERIF_CANARY;
}
#endif

/* ------------------------------------------------------------------------------------------------
 * Node::firstPointAbove / Node::firstPointBelow (libavoid/scanline.cpp) are mirror twins: the limit found looking DOWN along `dim` is minus the limit
 * found looking UP in the scene mirrored along `dim` (x -> -x turns an obstacle [lo,hi] into [-hi,-lo], "below" into "above").  And looking up is:
 * the greatest obstacle edge hi <= pos among the obstacles the point is not in line with (an edge exactly at pos counts), -DBL_MAX if none.  BOUNDED: <= 2 nodes. */
#if defined(JOB_first_point)
double w_first_point(int up, unsigned dim, unsigned k, double pos, double selfAlt, double lo0, double hi0, double alo0, double ahi0, double lo1, double hi1, double alo1, double ahi1);
void h_first_point(void)
{
  unsigned dim, k; double pos, selfAlt, lo[2], hi[2], alo[2], ahi[2];
  __CPROVER_assume(dim < 2 && k <= 2 && !__CPROVER_isnand(pos) && !__CPROVER_isnand(selfAlt));
  for (int i = 0; i < 2; ++i) __CPROVER_assume(!__CPROVER_isnand(lo[i]) && !__CPROVER_isnand(hi[i]) && !__CPROVER_isnand(alo[i]) && !__CPROVER_isnand(ahi[i]));
  double up = w_first_point(1, dim, k, pos, selfAlt, lo[0], hi[0], alo[0], ahi[0], lo[1], hi[1], alo[1], ahi[1]);
  double dn = w_first_point(0, dim, k, -pos, selfAlt, -hi[0], -lo[0], alo[0], ahi[0], -hi[1], -lo[1], alo[1], ahi[1]);
  __CPROVER_assert(dn == -up, "SPEC firstPointBelow in the mirrored scene is minus firstPointAbove in the scene (mirror twins, boundary cases included)");
  double want = -1.7976931348623157e308;
  for (unsigned i = 0; i < 2; ++i) if (i < k && !(selfAlt == alo[i] || selfAlt == ahi[i]) && hi[i] <= pos && hi[i] > want) want = hi[i];
  __CPROVER_assert(up == want, "SPEC firstPointAbove: the greatest obstacle edge at or before the point, obstacles in line with the point ignored");
  VERIF_CANARY;
}
#endif
