"""C17 jobs: shortest paths -- bounded stand-ins only (DESIGN.md 5/C17)."""
import os
from vf import *
from common import *

HERE = os.path.dirname(os.path.abspath(__file__))
SP = "libcola/shortest_paths.h"


REPLAY_SRC = r'''
// Native replay for C17: the REAL templates at T = double on every multigraph with <= 3 nodes and <= 3 edges
// (any end points, weights from {1,2,5} or unweighted), against an independent Bellman-Ford.
#include "libcola/shortest_paths.h"
#include "libcola/cola.h"
#include <cstdio>
#include <cfloat>
#include <vector>
#include <valarray>
using namespace shortest_paths;
static int bad = 0;
static void check(unsigned n, const std::vector<Edge> &es, const std::valarray<double> &w, bool weighted) {
  std::valarray<double> ew = weighted ? w : std::valarray<double>();
  double bf[3][3];
  for (unsigned i = 0; i < n; ++i) for (unsigned j = 0; j < n; ++j) bf[i][j] = i == j ? 0 : DBL_MAX;
  for (unsigned r = 0; r + 1 < 3; ++r) for (size_t e = 0; e < es.size(); ++e) for (unsigned s = 0; s < n; ++s) {
    unsigned u = es[e].first, v = es[e].second; double we = weighted ? w[e] : 1;
    if (bf[s][u] != DBL_MAX && bf[s][u] + we < bf[s][v]) bf[s][v] = bf[s][u] + we;
    if (bf[s][v] != DBL_MAX && bf[s][v] + we < bf[s][u]) bf[s][u] = bf[s][v] + we;
  }
  for (int algo = 0; algo < 3; ++algo) {
    double rows[3][3]; double *D[3] = {rows[0], rows[1], rows[2]};
    if (algo == 0) floyd_warshall(n, D, es, ew);
    else if (algo == 1) johnsons(n, D, es, ew);
    else for (unsigned s = 0; s < n; ++s) dijkstra(s, n, D[s], es, ew);
    for (unsigned i = 0; i < n; ++i) for (unsigned j = 0; j < n; ++j)
      if (rows[i][j] != bf[i][j]) {
        if (bad < 6) { printf("%s: n=%u edges:", algo == 0 ? "floyd_warshall" : algo == 1 ? "johnsons" : "dijkstra", n);
          for (size_t e = 0; e < es.size(); ++e) printf(" (%u,%u,w=%g)", es[e].first, es[e].second, weighted ? w[e] : 1.0);
          printf("  D[%u][%u] = %g, shortest path = %g\n", i, j, rows[i][j], bf[i][j]); }
        bad++;
      }
  }
  // the ideal-distance matrix a force-directed layout exposes: idealLength x path length, sentinel across components, zero diagonal
  if (n >= 2 && weighted) {
    std::vector<vpsc::Rectangle*> rs;
    for (unsigned i = 0; i < n; ++i) rs.push_back(new vpsc::Rectangle(30.0 * i, 30.0 * i + 10, 7.0 * i, 7.0 * i + 10));
    cola::EdgeLengths len(es.size()); for (size_t e = 0; e < es.size(); ++e) len[e] = w[e];
    cola::ConstrainedFDLayout alg(rs, es, 20.0, len);
    std::vector<double> D = alg.readLinearD();
    for (unsigned i = 0; i < n; ++i) for (unsigned j = 0; j < n; ++j) {
      double want = i == j ? 0.0 : (bf[i][j] == DBL_MAX ? DBL_MAX : 20.0 * bf[i][j]);
      if (D[i * n + j] != want) {
        if (bad < 6) { printf("ConstrainedFDLayout ideal distances: n=%u edges:", n);
          for (size_t e = 0; e < es.size(); ++e) printf(" (%u,%u,len=%g)", es[e].first, es[e].second, w[e]);
          printf("  D[%u][%u] = %g, expected 20 x %g\n", i, j, D[i * n + j], bf[i][j]); }
        bad++;
      }
    }
    alg.freeAssociatedObjects();
  }
}
int main() {
  const double W[3] = {1, 2, 5};
  for (unsigned n = 1; n <= 3; ++n) for (unsigned m = 0; m <= 3; ++m) {
    unsigned ends = n * n, combos = 1; for (unsigned k = 0; k < m; ++k) combos *= ends * 3;
    for (unsigned c = 0; c < combos; ++c) {
      std::vector<Edge> es; std::valarray<double> w(m); unsigned x = c;
      for (unsigned k = 0; k < m; ++k) { unsigned t = x % (ends * 3); x /= ends * 3; es.push_back(Edge((t / 3) / n, (t / 3) % n)); w[k] = W[t % 3]; }
      check(n, es, w, true);
      if (c % 27 == 0) check(n, es, w, false);
    }
  }
  { // several non-positive ideal lengths: each one counts as 1 in the layout's distance matrix
    std::vector<vpsc::Rectangle*> rs; for (unsigned i = 0; i < 4; ++i) rs.push_back(new vpsc::Rectangle(30.0 * i, 30.0 * i + 10, 0, 10));
    std::vector<Edge> es; es.push_back(Edge(0, 1)); es.push_back(Edge(1, 2)); es.push_back(Edge(2, 3));
    cola::EdgeLengths len(3); len[0] = -3; len[1] = 0; len[2] = 0;
    cola::ConstrainedFDLayout alg(rs, es, 20.0, len);
    std::vector<double> D = alg.readLinearD();
    if (D[0 * 4 + 1] != 20 || D[1 * 4 + 2] != 20 || D[2 * 4 + 3] != 20 || D[0 * 4 + 3] != 60) {
      printf("ideal lengths {-3, 0, 0} on a path of 4 nodes, idealLength 20: D[0][1]=%g D[1][2]=%g D[2][3]=%g D[0][3]=%g (expected 20 20 20 60)\n", D[1], D[6], D[11], D[3]); bad++; }
    alg.freeAssociatedObjects();
  }
  { // weights of very different magnitudes: a path of tiny positive weights has a tiny positive length in all three routines
    std::vector<Edge> es; es.push_back(Edge(0, 1)); es.push_back(Edge(1, 2));
    std::valarray<double> w(2); w[0] = 4e-17; w[1] = 5e-17;
    double r1[3], r2[3], r3[3]; double *A[3] = {r1, r2, r3}; double b1[3], b2[3], b3[3]; double *B[3] = {b1, b2, b3};
    johnsons(3, A, es, w); floyd_warshall(3, B, es, w);
    if (A[0][2] != 4e-17 + 5e-17 || A[0][2] != B[0][2] || A[0][1] != 4e-17) { printf("tiny weights 4e-17, 5e-17: johnsons gives D[0][1]=%g D[0][2]=%g, floyd_warshall %g\n", A[0][1], A[0][2], B[0][2]); bad++; }
  }
  if (bad) { printf("REPRODUCED: %d entries differ from the shortest-path length\n", bad); return 1; }
  printf("not reproduced\n"); return 0;
}
'''


def replay_c17(job, obl, inputs, workdir):
    libs = [build_lib(l, workdir) for l in ("libcola", "libvpsc")]
    rc, out = native_run(REPLAY_SRC, workdir, "replay_c17", extra=["-I", COLA], libs=libs, timeout=600)
    if rc is None:
        return False, out
    return rc == 1, out


def jobs(tier):
    js = []
    base = "#include <verif_base.h>\n#include <vector>\n#include <valarray>\n#include <utility>\n#include <algorithm>\n#include <cfloat>\n"
    spec = spec_header() + rd(HERE, "paths.spec.c")
    edge = slice_lines(SP, r'^typedef std::pair<unsigned,unsigned> Edge;', 1, "Edge typedef")
    fw = slice_func(SP, r'^void floyd_warshall\(\s*$', "floyd_warshall<T>", expect=1)
    # the template is instantiated at T = double by dropping the `template <typename T>` line that precedes the definition
    # (outside the slice) and defining T; numeric_limits<T>::max() -> DBL_MAX
    fw_text = subst(fw, [(r'std::numeric_limits<T>::max\(\)', 'VERIF_TMAX', 1)])
    sent = 8 if tier == "quick" else 16
    wmax = 3 if tier == "quick" else 1000
    # (3,4) and (4,3) do not finish in 25 minutes even with unit-range weights: the bound stays at three nodes / three edges in both tiers,
    # the thorough tier widens the weight range
    pairs = [(1, 1), (2, 1), (2, 2), (2, 3), (3, 1), (3, 2), (3, 3)]
    cxx = (base + "#define T long long\n#define VERIF_TMAX (1LL << %d)\nnamespace shortest_paths {\n" % sent + edge.text + "\n" + fw_text + "\n}\n"
           'extern "C" void w_floyd_warshall(unsigned n, T **D, void *es, void *ew) { shortest_paths::floyd_warshall(n, D, '
           '*(std::vector<shortest_paths::Edge> const *)es, *(std::valarray<T> const *)ew); }\n')
    for n, m in pairs:
        js.append(Job("floyd_warshall_n%d_m%d" % (n, m), "B", spec, "h_apsp", cxx=cxx, replay=replay_c17,
                      defines=["JOB_apsp", "ALGO=0", "NMAX=%d" % n, "MMAX=%d" % m, "WMAX=%d" % wmax, "SENT_BITS=%d" % sent],
                      unwind=max(n, m) + 1, flags=["--sat-solver", "cadical", "--object-bits", "12"], backend="sat:cadical", timeout=1500,
                      bound="exactly %d nodes and %d edges (any end points: self-loops and parallel edges included), integer weights in [0,%d] or unit weights; "
                            "T = long long, sentinel 2^%d; unwind %d with unwinding assertions" % (n, m, wmax, sent, max(n, m) + 1),
                      slices=[fw], domain="every multigraph with %d nodes and %d edges" % (n, m), expect=[r'h_apsp\.assertion']))
    # ---------------- ConstrainedFDLayout::computePathLengths: loop-body fragments, unbounded for one arbitrary index / pair
    FD = "libcola/colafd.cpp"
    cpl = slice_func(FD, r'^void ConstrainedFDLayout::computePathLengths\(', "ConstrainedFDLayout::computePathLengths")
    h1, b1 = fragment_loop(cpl, r'for \(size_t i = 0; i < eLengths\.size\(\); \+\+i\)', "computePathLengths [non-positive lengths: loop body]")
    h2, b2 = fragment_loop(cpl, r'for\(unsigned j=0;j<n;j\+\+\)', "computePathLengths [post-processing: body for one pair (i,j)]")
    b2text = body_continue_to_return(b2)
    cpl_cxx = ("#include <verif_base.h>\n#include <valarray>\n#include <cfloat>\n"
               "#define fprintf(...) ((void)0)   /* diagnostic output dropped */\n"
               "namespace cola {\n"
               "// data members the two fragments touch, with their real types (cola/libcola/cola.h); the class has many more\n"
               "class ConstrainedFDLayout { public: unsigned n; double** D; unsigned short** G; double minD; double m_idealEdgeLength;\n"
               "  void verif_pair_body(unsigned i, unsigned j); };\n"
               "static void verif_lengths_body(std::valarray<double>& eLengths, size_t i)\n{\n" +
               # closure: scalar locals declared before the loop are carried along (non-const ones uninitialised = arbitrary: state an earlier iteration may have left)
               "".join("    " + d + "\n" for d in scalar_local_decls(cpl, r'for \(size_t i = 0; i < eLengths\.size\(\); \+\+i\)')) +
               body_continue_to_return(b1) + "\n}\n"
               "void ConstrainedFDLayout::verif_pair_body(unsigned i, unsigned j)\n" + b2text + "\n}\n"
               'extern "C" void w_cpl_lengths_body(void *e, size_t i) { cola::verif_lengths_body(*(std::valarray<double> *)e, i); }\n'
               'extern "C" void w_cpl_pair_body(void *l, unsigned i, unsigned j) { ((cola::ConstrainedFDLayout *)l)->verif_pair_body(i, j); }\n')
    js.append(Job("computePathLengths_lengths_body", "U", spec, "h_cpl_lengths", cxx=cpl_cxx, enforce="w_cpl_lengths_body", defines=["JOB_cpl_lengths"], replay=replay_c17,
                  slices=[cpl, b1], domain="all doubles, one arbitrary index of an array of any length", expect=[r'postcondition', r'assigns'],
                  note="fprintf(stderr, ..) is macro-ed away (diagnostic output dropped)"))
    js.append(Job("computePathLengths_pair_body", "U", spec, "h_cpl_pair", cxx=cpl_cxx, enforce="w_cpl_pair_body", defines=["JOB_cpl_pair"], replay=replay_c17,
                  slices=[cpl, b2], domain="all doubles that are numbers, one arbitrary pair (i,j) of a matrix with up to 4 rows (row i valid)",
                  expect=[r'postcondition', r'assigns'], flags=["--sat-solver", "cadical"], backend="sat:cadical"))
    js.append(Job("computePathLengths_pair_body_scaling", "D", spec, "h_cpl_pair", cxx="#define double long long\n#define VERIF_INT_MODE\n" + cpl_cxx,
                  enforce="w_cpl_pair_body", defines=["JOB_cpl_pair", "CPL_INT", "CPL_BOUND=%d" % (1024 if tier == "quick" else 1048576)], slices=[cpl, b2],
                  domain="scaled-integer mode: path length and idealLength integers in [0,%s] (or the sentinel), overflow-checked" % ("2^10" if tier == "quick" else "2^20"),
                  expect=[r'postcondition', r'assigns'], flags=["--sat-solver", "cadical"], backend="sat:cadical", timeout=600))
    # ---------------- computePathLengths: the tail after the distance post-processing marks adjacent pairs in G and must leave D alone
    tl = fragment_tail(cpl, r'if \(minD == DBL_MAX\) minD = 1;', "computePathLengths [tail from `if (minD == DBL_MAX) minD = 1;`]")
    tl_cxx = ("#include <verif_base.h>\n#include <valarray>\n#include <vector>\n#include <utility>\n#include <cfloat>\nusing std::vector;\n"
              'extern "C" void w_topo_computePathLengths(void *addon, void *G);\n'
              "namespace cola {\ntypedef std::pair<unsigned, unsigned> Edge;\n"
              "// stand-in for the (virtual) TopologyAddonInterface: the call forwards to a contract\n"
              "class TopologyAddonInterface { public: void computePathLengths(unsigned short** G) { w_topo_computePathLengths((void *)this, (void *)G); } };\n"
              "class ConstrainedFDLayout { public: unsigned n; double** D; unsigned short** G; double minD; double m_idealEdgeLength; TopologyAddonInterface *topologyAddon;\n"
              "  void verif_tail(const vector<Edge>& es, std::valarray<double> eLengths); };\n"
              "void ConstrainedFDLayout::verif_tail(const vector<Edge>& es, std::valarray<double> eLengths)\n{\n" + tl.text + "\n}\n}\n"
              'extern "C" void w_cpl_tail(void *l, void *es, void *el) { ((cola::ConstrainedFDLayout *)l)->verif_tail(*(const vector<cola::Edge> *)es, *(std::valarray<double> *)el); }\n')
    js.append(Job("computePathLengths_tail_marks_edges", "B", spec, "h_cpl_tail", cxx=tl_cxx, enforce="w_cpl_tail", replace=["w_topo_computePathLengths"], defines=["JOB_cpl_tail"],
                  slices=[cpl, tl], unwind=2, flags=["--sat-solver", "cadical"], backend="sat:cadical", replay=replay_c17,
                  bound="edge list with exactly one edge (the loop is unwound twice with an unwinding assertion), up to 3 nodes; all doubles",
                  domain="every layout state with up to 3 nodes, one arbitrary edge (self-loop included), with or without explicit edge lengths",
                  expect=[r'postcondition', r'assigns', r'unwind']))
    # ---------------- dijkstra's relaxation step: loop-body fragment, unbounded (T -> VT = long long inside the sliced text)
    n1 = slice_block(SP, r'^struct Node \{', "shortest_paths::Node<T>")
    n2 = slice_block(SP, r'^struct CompareNodes \{', "shortest_paths::CompareNodes<T>")
    dj = slice_func(SP, r'^void dijkstra\(\s*\n\s*unsigned const s,\s*\n\s*std::vector<Node<T> > & vs,', "dijkstra(s,vs,d)")
    hdr3, rb = fragment_loop(dj, r'for\(unsigned i=0;i<u->neighbours\.size\(\);i\+\+\)', "dijkstra [relaxation: loop body for one neighbour]")
    rb.text = body_continue_to_return(rb)      # a `continue` in the body ends this iteration
    # the template parameter is renamed wherever it occurs (hit counts are taken from the text, so an edit that adds or removes a use is still extracted)
    rb_text = subst(rb, [(r'\bT\b', 'VT', len(re.findall(r'\bT\b', rb.text))),
                         (r'std::numeric_limits<VT>::max\(\)', 'VERIF_TMAX', len(re.findall(r'std::numeric_limits<T>::max\(\)', rb.text)))])
    relax_cxx = (base + "#define VT long long\n#define VERIF_TMAX (1LL << 40)\n"
                 'extern "C" void w_decreaseKey(void *heap, void *qnode, void *val);\n'
                 "template <class T> struct PairNode;\n"
                 "// the pairing heap stays behind a contract: only decreaseKey is reachable from the fragment\n"
                 "template <class T, class TCompare> class PairingHeap { public:\n"
                 "  void decreaseKey(PairNode<T> *p, const T & newVal) { w_decreaseKey((void *)this, (void *)p, (void *)newVal); } };\n"
                 "namespace shortest_paths {\ntemplate <typename T>\n" + n1.text + "\ntemplate <typename T>\n" + n2.text + "\n"
                 "static void verif_relax(Node<VT> *u, unsigned i, PairingHeap<Node<VT>*,CompareNodes<VT> >& Q)\n" + rb_text + "\n}\n"
                 'extern "C" void w_relax(void *u, unsigned i, void *heap) { shortest_paths::verif_relax((shortest_paths::Node<VT> *)u, i, '
                 '*(PairingHeap<shortest_paths::Node<VT>*,shortest_paths::CompareNodes<VT> > *)heap); }\n')
    js.append(Job("dijkstra_relaxation_step", "U", spec, "h_relax", cxx=relax_cxx, enforce="w_relax", replace=["w_decreaseKey"], defines=["JOB_relax"],
                  slices=[dj, rb, n1], replay=replay_c17,
                  domain="T = long long: every distance in [0,2^40], weight in [0,2^20], any adjacency-list length; one arbitrary neighbour other than the node itself",
                  expect=[r'w_relax\.postcondition', r'assigns']))
    # ---------------- dijkstra's main loop: EVERY node's entry of the output row is written (with the node's distance when it left the queue),
    #                  reachable or not -- callers hand in rows from a bare `new T[n]`
    dtail = fragment_tail(dj, r'while\(!Q\.isEmpty\(\)\)', "dijkstra [main loop: from `while(!Q.isEmpty())`]")
    hdr0, rb0 = fragment_loop(dtail, r'for\(unsigned i=0;i<u->neighbours\.size\(\);i\+\+\)', "dijkstra [relaxation loop, replaced as a whole by a visit in the shell]")
    i0 = dtail.text.find(hdr0); i1 = dtail.text.find(rb0.text, i0)
    if dtail.text.count(rb0.text) != 1 or i0 < 0 or i1 < 0 or dtail.text[i0 + len(hdr0):i1].strip():
        raise Undecided("C17: dijkstra: relaxation loop not found exactly once in the main loop")
    dt_text = dtail.text[:i0] + "w_relax_visit((void *)u, 0);   /* the whole relaxation loop over u's neighbours */" + dtail.text[i1 + len(rb0.text):]
    dt_sl = Slice(dtail.name + " [relaxation body replaced by a visit]", dtail.rel, dt_text, dtail.line, kind="tail-fragment")
    dt_text = subst(dt_sl, [(r'std::numeric_limits<T>::max\(\)', 'VERIF_TMAX', len(re.findall(r'std::numeric_limits<T>::max\(\)', dt_text)))]) if "numeric_limits" in dt_text else dt_text
    dt_text = re.sub(r'\bT\b', 'VT', dt_text)
    dml_cxx = (base + "#define VT long long\n#define VERIF_TMAX (1LL << 40)\n"
               'extern "C" { bool w_heap_isEmpty(void *h); void *w_heap_extractMin(void *h); void w_decreaseKey(void *heap, void *qnode, void *val); void w_relax_visit(void *u, unsigned i);\n'
               'void *verif_g_heap; long long *verif_g_d; }\n'
               "template <class T> struct PairNode;\n"
               "// the pairing heap stays behind contracts (what it hands out, and that it hands out every node before it is empty, is assumed there)\n"
               "template <class T, class TCompare> class PairingHeap { public:\n"
               "  bool isEmpty() const { return w_heap_isEmpty((void *)this); }\n  T extractMin() { return (T)w_heap_extractMin((void *)this); }\n"
               "  void decreaseKey(PairNode<T> *p, const T & newVal) { w_decreaseKey((void *)this, (void *)p, (void *)newVal); } };\n"
               "namespace shortest_paths {\ntemplate <typename T>\n" + n1.text + "\ntemplate <typename T>\n" + n2.text + "\n"
               "// the main loop under its real names (parameterless: loop-contract symbols must not contain commas)\n"
               "void verif_dijkstra_main_loop()\n{ PairingHeap<Node<VT>*,CompareNodes<VT> >& Q = *(PairingHeap<Node<VT>*,CompareNodes<VT> > *)verif_g_heap; VT *d = verif_g_d;\n" +
               dt_text + "\n}\n}\n"
               'extern "C" void w_dijkstra_main_loop(void *heap, long long *d, unsigned long K) { verif_g_heap = heap; verif_g_d = d; shortest_paths::verif_dijkstra_main_loop(); }\n')
    js.append(Job("dijkstra_writes_every_entry", "B", spec, "h_dml", cxx=dml_cxx, defines=["JOB_dml"], slices=[dj, dtail, rb0, n1], replay=replay_c17,
                  flags=["--sat-solver", "cadical"], backend="sat:cadical", unwind=5,
                  bound="3 nodes (main loop unwound 5 times with an unwinding assertion); goto-instrument --dfcc with a loop contract ran out of memory on this loop",
                  domain="3 nodes with arbitrary contents, handed out by the heap in ANY order (a superset of the order a priority queue produces); the relaxation loop abstracted to a no-op on the output row",
                  expect=[r'h_dml\.assertion']))
    # ---------------- dijkstra_init: the adjacency lists carry exactly the given edge weights (T = double here: weights are compared bit for bit)
    di = slice_func(SP, r'^void dijkstra_init\(\s*$', "dijkstra_init")
    _, dib = fragment_loop(di, r'for\(unsigned i=0;i<es\.size\(\);i\+\+\)', "dijkstra_init [loop body: one edge]")
    # two projections of the body (both together exhaust the solver's memory): the statements about the WEIGHTS, and those about the NEIGHBOUR pointers
    dib_w = project_statements(dib, r'unsigned u=|COLA_ASSERT|\bw\b|nweights', "dijkstra_init [loop body, statements about the weight]")
    dib_n = project_statements(dib, r'unsigned u=|COLA_ASSERT|neighbours', "dijkstra_init [loop body, statements about the neighbour pointers]")
    def _vt(sl):
        rules = [(r'\bT\b', 'VT', len(re.findall(r'\bT\b', sl.text)))]
        if re.search(r'\? eweights\[i\] : 1;', sl.text):
            # front-end workaround: goto-cc types `c ? <double> : 1` as int; the literal is written 1.0 (must-fire)
            rules.append((r'\? eweights\[i\] : 1;', '? eweights[i] : 1.0;', 1))
        t = subst(sl, rules)
        # front-end workaround: goto-cc does not find static members of a class-template instance called with a qualified name;
        # std::numeric_limits<VT>::f() is routed to the stub's overloaded free function (hit count taken from the text)
        k = len(re.findall(r'std::numeric_limits<VT>::(\w+)\(\)', t))
        sl.subst_log.append({"pattern": "std::numeric_limits<VT>::f()", "replacement": "verif_limits_f((VT)0)", "hits": k})
        return re.sub(r'std::numeric_limits<VT>::(max|min|epsilon)\(\)', lambda m: "verif_limits_" + {"max": "max", "min": "min", "epsilon": "eps"}[m.group(1)] + "((VT)0)", t)
    def di_cxx(body_text):
      return ("#define VT double\n" + base + "#include <limits>\ntemplate <class T> struct PairNode;\n"
              "namespace shortest_paths {\ntypedef std::pair<unsigned,unsigned> Edge;\ntemplate <typename T>\n" + n1.text + "\n"
              "static void verif_init_body(std::vector<Node<VT> > & vs, std::vector<Edge> const& es, std::valarray<VT> const & eweights, const unsigned n, unsigned i)\n{\n" + body_text + "\n}\n}\n"
              "// the scene lives on the C++ side; the C harness drives it through these accessors\n"
              "static shortest_paths::Node<VT> *verif_nodes;   // allocated raw (CBMC's sizeof of a class-template instance is not its array stride)\n"
              'extern "C" void *malloc(size_t);\n'
              'extern "C" void w_init_body(unsigned u, unsigned v, double w, int weighted) {\n'
              "  verif_nodes = (shortest_paths::Node<VT> *)malloc(1024); __CPROVER_assume(verif_nodes != 0);\n"
              "  for (unsigned k = 0; k < 3; ++k) { verif_nodes[k].neighbours._d = 0; verif_nodes[k].neighbours._n = 0; verif_nodes[k].neighbours._cap = 0; "
              "verif_nodes[k].nweights._d = 0; verif_nodes[k].nweights._n = 0; verif_nodes[k].nweights._cap = 0; }\n"
              "  std::vector<shortest_paths::Node<VT> > vs; vs._d = verif_nodes; vs._n = 3; vs._cap = 3;\n"
              "  std::vector<shortest_paths::Edge> es(1); es[0].first = u; es[0].second = v;\n"
              "  double wbuf[1]; wbuf[0] = w; std::valarray<VT> ew; ew._n = weighted ? 1 : 0; ew._d = wbuf;\n"
              "  shortest_paths::verif_init_body(vs, es, ew, 3, 0); }\n"
              'extern "C" unsigned long verif_degree(unsigned k) { return verif_nodes[k].neighbours.size(); }\n'
              'extern "C" unsigned long verif_nweights(unsigned k) { return verif_nodes[k].nweights.size(); }\n'
              'extern "C" double verif_weight(unsigned k, unsigned long j) { return verif_nodes[k].nweights[j]; }\n'
              'extern "C" int verif_neighbour_is(unsigned k, unsigned long j, unsigned t) { return verif_nodes[k].neighbours[j] == &verif_nodes[t] ? 1 : 0; }\n')
    for part, psl in (("weights", dib_w), ("neighbours", dib_n)):
        for uu, vv in ((0, 1), (2, 0), (1, 1)):      # the end points are fixed per job (a symbolic choice among node objects exhausts the solver's memory)
            js.append(Job("dijkstra_init_%s_%d%d" % (part, uu, vv), "U", spec, "h_init_body", cxx=di_cxx(_vt(psl)),
                          defines=["JOB_init_body", "U_IDX=%d" % uu, "V_IDX=%d" % vv, "PART_%s" % part.upper()], slices=[di, dib, psl, n1],
                          stub_variant="bounded", replay=replay_c17, flags=["--sat-solver", "cadical"], backend="sat:cadical", unwind=4, timeout=600,
                          domain="the edge (%d,%d) among 3 nodes, every weight (all doubles, compared bit for bit), weighted or unit; T = double; projection of the loop body onto its "
                                 "statements about the %s (%d statements kept)" % (uu, vv, part, psl.kept_statements),
                          expect=[r'h_init_body\.assertion']))
    # ---------------- johnsons: loop body for one source k, dijkstra behind a contract (T -> VT)
    jo = slice_func(SP, r'^void johnsons\(\s*$', "johnsons")
    hdr4, jb = fragment_loop(jo, r'for\(unsigned k=0;k<n;k\+\+\)', "johnsons [loop body for one source]")
    jb_text = re.sub(r'\bT\b', 'VT', body_continue_to_return(jb)).replace('std::numeric_limits<VT>::max()', 'VERIF_TMAX')
    jb_cxx = (base + "#define VT long long\n#define VERIF_TMAX (1LL << 40)\n"
              'extern "C" void w_dijkstra(unsigned s, void *vs, long long *d);\n'
              "template <class T> struct PairNode;\n"
              "namespace shortest_paths {\ntemplate <typename T>\n" + n1.text + "\n"
              "// dijkstra(s, vs, d) behind a contract (the call in the fragment would need template argument deduction, which the front end lacks)\n"
              "static void dijkstra(unsigned const s, std::vector<Node<VT> > & vs, VT *d) { w_dijkstra(s, (void *)&vs, d); }\n"
              "static void verif_johnsons_body(unsigned const n, VT **D, std::vector<Node<VT> > & vs, unsigned k)\n" + jb_text + "\n}\n"
              'extern "C" void w_johnsons_body(unsigned n, long long **D, void *vs, unsigned k) { shortest_paths::verif_johnsons_body(n, D, '
              '*(std::vector<shortest_paths::Node<VT> > *)vs, k); }\n')
    js.append(Job("johnsons_row_body", "U", spec, "h_johnsons_body", cxx=jb_cxx, enforce="w_johnsons_body", replace=["w_dijkstra"], defines=["JOB_johnsons_body"],
                  slices=[jo, jb], replay=replay_c17, flags=["--object-bits", "12"], unwind=10,
                  domain="one arbitrary source k of a graph with up to 8 nodes (row k valid), any adjacency lists; dijkstra replaced by a ghost-cell contract",
                  expect=[r'w_johnsons_body\.postcondition']))
    return js


LEVEL = "other"
TRUSTED = [
    "cbmc/goto-cc 6.11.0, CaDiCaL back end",
    "the function template floyd_warshall<T> is instantiated at T = long long (dropping the `template <typename T>` line, #define T) with numeric_limits<T>::max() mapped to a "
    "sentinel 2^k above every path length in the bound: integer arithmetic is exact, the semantics T = double has on integer-valued weights; like DBL_MAX the sentinel is never improved upon",
    "Bellman-Ford oracle written in the harness from the definition of a shortest path",
]
ASSUMPTIONS = [
    "BOUNDED STAND-IN, NOT A PROOF: one job per (nodes, edges) pair, at most 3 nodes and 3 edges in the quick tier; nothing is counted under obligations/discharged",
    "NOT under contract: dijkstra / johnsons with the real PairingHeap -- the de-templated slices compile under goto-cc, but cbmc does not get past SSA conversion within 300 s even for "
    "2 nodes and 1 edge (pointer-linked heap, dynamic allocation, recursion); a defect confined to dijkstra is therefore NOT detected by this check",
    "ConstrainedFDLayout::computePathLengths: only the two loop BODIES are under contract (unbounded, for one arbitrary index / pair): non-positive lengths become 1; off the "
    "diagonal a reachable pair is scaled by idealLength and marked 2, an unreachable pair keeps the sentinel and is marked 0; the loops themselves (writes through every row "
    "pointer) and the call of johnsons are not; the tail after the post-processing (bounded: one edge) marks the edge's end points adjacent in G and has D outside its frame "
    "(the topology add-on's hook is assumed not to touch D)",
    "dijkstra_init_*: the loop body of dijkstra_init at T = double for three fixed edges among 3 nodes, as two projections (weights / neighbour pointers): the adjacency "
    "lists carry exactly the given weight and the other end point",
    "dijkstra_writes_every_entry is a BOUNDED stand-in (3 nodes, the heap hands them out in any order, relaxation abstracted): every node's entry of the output row is written",
    "NOT decided (residue): everything beyond the bounds; agreement of the three algorithms with each other",
]
EXPLANATION = ("Bounded stand-in only (DESIGN 5/C17): for every multigraph with the stated numbers of nodes and edges (any end points, so self-loops and parallel edges are included) "
               "and integer weights, floyd_warshall's matrix equals the Bellman-Ford shortest-path lengths, has a zero diagonal, is symmetric, and holds the sentinel exactly for "
               "unreachable pairs. Writes through every row pointer of T** cannot be closed with loop contracts here (DESIGN 2.9). The obligations counted under "
               "obligations/discharged belong to the loop-body fragments of ConstrainedFDLayout::computePathLengths only (unbounded for one arbitrary index / pair).")
