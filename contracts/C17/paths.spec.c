/* C17: shortest paths -- BOUNDED stand-ins only (DESIGN.md 5/C17): floyd_warshall, johnsons/dijkstra and the
 * post-processing of computePathLengths all write through every row pointer of a T** matrix, which cannot be closed
 * with a ghost index (DESIGN 2.9).  Nothing here is counted as proved.
 *
 * Oracle: Bellman-Ford relaxation (n-1 rounds over the edge list) in 64-bit integer arithmetic, written here from
 * the definition of a shortest path; weights are integer-valued so every floating-point sum is exact. */
#define PACKED __attribute__((packed))
struct PACKED vec { void *d; size_t n; size_t cap; };
struct PACKED valarr { size_t n; void *d; };
struct PACKED Edge { unsigned first, second; };
#ifndef NMAX
#define NMAX 4
#endif
#ifndef MMAX
#define MMAX 5
#endif
#ifndef WMAX
#define WMAX 15
#endif
#ifndef SENT_BITS
#define SENT_BITS 8
#endif
#define INF (1LL << SENT_BITS)
/* The templates are instantiated at T = long long (they are generic in T) with the 'unreachable' sentinel
 * numeric_limits<T>::max() mapped to 2^SENT_BITS (larger than any path length within the bound): integer arithmetic is exact, which is the semantics T = double has on
 * integer-valued weights, and like DBL_MAX the sentinel is never improved upon by sentinel + w. */
#define double long long
#define DMAX INF

void w_floyd_warshall(unsigned n, double **D, void *es, void *ew);
void w_johnsons(unsigned n, double **D, void *es, void *ew);

#if defined(JOB_apsp)
void h_apsp(void)
{
    unsigned n, m; _Bool weighted;
    /* one job per (n, m): concrete loop bounds keep the formula small */
    __CPROVER_assume(n == NMAX && m == MMAX);
    struct Edge edges[MMAX]; double wts[MMAX]; int iw[MMAX];
    for (unsigned e = 0; e < MMAX; e++) {
        /* self-loops and parallel edges are inside the bound */
        __CPROVER_assume(edges[e].first < n && edges[e].second < n && iw[e] >= 0 && iw[e] <= WMAX);
        if (!weighted) iw[e] = 1;
        wts[e] = (double)iw[e];
    }
    struct vec es = { edges, m, MMAX }; struct valarr ew = { weighted ? m : 0, wts };
    double rows[NMAX][NMAX]; double *D[NMAX];
    for (unsigned i = 0; i < NMAX; i++) D[i] = rows[i];
#if ALGO == 0
    w_floyd_warshall(n, D, &es, &ew);
#else
    w_johnsons(n, D, &es, &ew);
#endif
    /* oracle */
    long long bf[NMAX][NMAX];
    for (unsigned i = 0; i < NMAX; i++) for (unsigned j = 0; j < NMAX; j++) bf[i][j] = (i == j) ? 0 : INF;
    for (unsigned round = 0; round + 1 < NMAX; round++)
        for (unsigned e = 0; e < MMAX; e++) if (e < m)
            for (unsigned s = 0; s < NMAX; s++) {
                unsigned u = edges[e].first, v = edges[e].second;
                if (bf[s][u] + iw[e] < bf[s][v]) bf[s][v] = bf[s][u] + iw[e];
                if (bf[s][v] + iw[e] < bf[s][u]) bf[s][u] = bf[s][v] + iw[e];
            }
    for (unsigned i = 0; i < NMAX; i++) for (unsigned j = 0; j < NMAX; j++) if (i < n && j < n) {
        if (i == j)
            __CPROVER_assert(rows[i][j] == 0, "SPEC all-pairs shortest paths: zero diagonal");
        else if (bf[i][j] >= INF)
            __CPROVER_assert(rows[i][j] == DMAX, "SPEC all-pairs shortest paths: the 'unreachable' sentinel exactly for pairs in different components");
        else
            __CPROVER_assert(rows[i][j] == (double)bf[i][j], "SPEC all-pairs shortest paths: every entry is the length of a shortest path (Bellman-Ford oracle)");
        __CPROVER_assert(rows[i][j] == rows[j][i], "SPEC all-pairs shortest paths: symmetric matrix");
    }
    VERIF_CANARY;
}
#endif

/* ------------------------------------------------------------ ConstrainedFDLayout::computePathLengths: loop-body fragments (unbounded) */
#if defined(JOB_cpl_lengths) || defined(JOB_cpl_pair) || defined(JOB_cpl_tail)
#undef DMAX
#ifndef CPL_INT
#undef double            /* the real double code */
#define DBLMAX 1.7976931348623157e308
static unsigned long long bits(double d) { union { double d; unsigned long long u; } c; c.d = d; return c.u; }
#else                    /* scaled-integer mode for the one clause that multiplies (DESIGN 3) */
#define DBLMAX 9223372036854775807LL
#define bits(x) (x)
#undef IS_NAN
#define IS_NAN(x) 0
#endif
#endif
#if defined(JOB_cpl_lengths)
/* "non-positive edge lengths replaced by 1 as documented": body of the first loop, for ONE arbitrary index */
void w_cpl_lengths_body(void *eLengths, size_t i)
__CPROVER_requires(__CPROVER_is_fresh(eLengths, sizeof(struct valarr)))
__CPROVER_requires(((struct valarr *)eLengths)->n >= 1 && ((struct valarr *)eLengths)->n <= 1000000 && i < ((struct valarr *)eLengths)->n)
__CPROVER_requires(__CPROVER_is_fresh(((struct valarr *)eLengths)->d, ((struct valarr *)eLengths)->n * sizeof(double)))
__CPROVER_ensures(__CPROVER_old(((double *)((struct valarr *)eLengths)->d)[i]) <= 0.0 ==> ((double *)((struct valarr *)eLengths)->d)[i] == 1.0)
__CPROVER_ensures(!(__CPROVER_old(((double *)((struct valarr *)eLengths)->d)[i]) <= 0.0) ==>
                  bits(((double *)((struct valarr *)eLengths)->d)[i]) == bits(__CPROVER_old(((double *)((struct valarr *)eLengths)->d)[i])))
__CPROVER_assigns(((double *)((struct valarr *)eLengths)->d)[i])
;
void h_cpl_lengths(void) { void *e; size_t i; w_cpl_lengths_body(e, i); VERIF_CANARY; }
#endif
#if defined(JOB_cpl_pair)
/* the ideal-distance matrix: body of the post-processing loop nest for ONE pair (i,j):
 * off the diagonal, a reachable pair's distance is idealLength times the path length and is marked 2, an unreachable pair
 * keeps the sentinel and is marked 0; the diagonal is untouched */
struct PACKED FD { unsigned n; double **D; unsigned short **G; double minD; double m_idealEdgeLength; };
#define L(p) ((struct FD *)(p))
void w_cpl_pair_body(void *layout, unsigned i, unsigned j)
__CPROVER_requires(__CPROVER_is_fresh(layout, sizeof(struct FD)))
__CPROVER_requires(L(layout)->n >= 1 && L(layout)->n <= 4 && i < L(layout)->n && j < L(layout)->n)
__CPROVER_requires(__CPROVER_is_fresh(L(layout)->D, L(layout)->n * sizeof(double *)) && __CPROVER_is_fresh(L(layout)->G, L(layout)->n * sizeof(unsigned short *)))
__CPROVER_requires(__CPROVER_is_fresh(L(layout)->D[i], L(layout)->n * sizeof(double)) && __CPROVER_is_fresh(L(layout)->G[i], L(layout)->n * sizeof(unsigned short)))
__CPROVER_requires(!IS_NAN(L(layout)->D[i][j]) && !IS_NAN(L(layout)->m_idealEdgeLength) && !IS_NAN(L(layout)->minD))
__CPROVER_ensures(i == j ==> (bits(L(layout)->D[i][j]) == bits(__CPROVER_old(L(layout)->D[i][j])) && L(layout)->G[i][j] == __CPROVER_old(L(layout)->G[i][j])))
__CPROVER_ensures((i != j && __CPROVER_old(L(layout)->D[i][j]) == DBLMAX) ==> (L(layout)->D[i][j] == DBLMAX && L(layout)->G[i][j] == 0))
#ifdef CPL_INT
__CPROVER_requires(L(layout)->D[i][j] == DBLMAX || (L(layout)->D[i][j] >= 0 && L(layout)->D[i][j] <= CPL_BOUND))
__CPROVER_requires(L(layout)->m_idealEdgeLength >= 0 && L(layout)->m_idealEdgeLength <= CPL_BOUND)
__CPROVER_ensures((i != j && __CPROVER_old(L(layout)->D[i][j]) != DBLMAX) ==>
                  (L(layout)->D[i][j] == __CPROVER_old(L(layout)->D[i][j]) * L(layout)->m_idealEdgeLength && L(layout)->G[i][j] == 2))
#else
/* (that the stored value is path length x idealLength is proved by the scaled-integer variant of this job: the
 *  floating-point product cannot be compared with a second product by any installed back end) */
__CPROVER_ensures((i != j && __CPROVER_old(L(layout)->D[i][j]) != DBLMAX) ==> L(layout)->G[i][j] == 2)
#endif
/* minD only ever decreases, to a positive entry */
__CPROVER_ensures(L(layout)->minD <= __CPROVER_old(L(layout)->minD))
__CPROVER_ensures(L(layout)->minD != __CPROVER_old(L(layout)->minD) ==> (L(layout)->minD == L(layout)->D[i][j] && L(layout)->minD > 0.0))
__CPROVER_assigns(L(layout)->D[i][j], L(layout)->G[i][j], L(layout)->minD)
;
void h_cpl_pair(void) { void *l; unsigned i, j; w_cpl_pair_body(l, i, j); VERIF_CANARY; }
#endif

/* ------------------------------------------------------------ dijkstra: the relaxation step (loop-body fragment, unbounded) */
#if defined(JOB_relax)
/* For ONE arbitrary neighbour v of the extracted node u (edge weight w): after the step d[v] <= d[u] + w (if u is reachable),
 * d[v] never increases, and it changes only to d[u] + w with u recorded as predecessor.  This is the invariant Dijkstra's
 * correctness rests on; the pairing heap (decreaseKey) stays behind an assumed frame contract.  T = long long (the template
 * is generic), sentinel 2^40. */
#define RMAX (1LL << 40)
struct PACKED SNode { unsigned id; long long d; void *p; struct vec neighbours; struct vec nweights; void *qnode; };
#define NN(p) ((struct SNode *)(p))
void w_decreaseKey(void *heap, void *qnode, void *val)
__CPROVER_requires(1) __CPROVER_ensures(1) __CPROVER_assigns()
;
#define NBR(u, i) (((void **)NN(u)->neighbours.d)[i])
#define WGT(u, i) (((long long *)NN(u)->nweights.d)[i])
void w_relax(void *u, unsigned i, void *heap)
__CPROVER_requires(__CPROVER_is_fresh(u, sizeof(struct SNode)))
__CPROVER_requires(NN(u)->neighbours.n >= 1 && NN(u)->neighbours.n <= 1000000 && NN(u)->nweights.n == NN(u)->neighbours.n && i < NN(u)->neighbours.n)
__CPROVER_requires(__CPROVER_is_fresh(NN(u)->neighbours.d, NN(u)->neighbours.n * sizeof(void *)) && __CPROVER_is_fresh(NN(u)->nweights.d, NN(u)->nweights.n * sizeof(long long)))
__CPROVER_requires(__CPROVER_is_fresh(NBR(u, i), sizeof(struct SNode)))                 /* a neighbour other than u itself */
__CPROVER_requires(NN(u)->d >= 0 && NN(u)->d <= RMAX && NN(NBR(u, i))->d >= 0 && NN(NBR(u, i))->d <= RMAX && WGT(u, i) >= 0 && WGT(u, i) <= 1048576)
__CPROVER_ensures(NN(NBR(u, i))->d <= __CPROVER_old(NN(NBR(u, i))->d))
__CPROVER_ensures(NN(u)->d != RMAX ==> NN(NBR(u, i))->d <= NN(u)->d + WGT(u, i))
__CPROVER_ensures(NN(NBR(u, i))->d == __CPROVER_old(NN(NBR(u, i))->d) || (NN(NBR(u, i))->d == NN(u)->d + WGT(u, i) && NN(NBR(u, i))->p == u))
__CPROVER_assigns(NN(NBR(u, i))->d, NN(NBR(u, i))->p)
;
void h_relax(void) { void *u, *heap; unsigned i; w_relax(u, i, heap); VERIF_CANARY; }
#endif

/* ------------------------------------------------------------ johnsons: row k of the matrix is dijkstra's answer for source k */
#if defined(JOB_johnsons_body)
/* loop-body fragment for ONE arbitrary source k, dijkstra behind a contract over ghost cells: for the ghost node j,
 * dijkstra(k, ..) stores verif_sp (the shortest-path length k -> j; 0 when j == k) in d[j].  The body must leave exactly
 * that in D[k][j] -- in particular a zero on the diagonal -- whatever the graph looks like. */
size_t verif_j; long long verif_sp;
void w_dijkstra(unsigned s, void *vs, long long *d)
__CPROVER_ensures(d[verif_j] == verif_sp)
__CPROVER_assigns(__CPROVER_object_whole(d))
;
void w_johnsons_body(unsigned n, long long **D, void *vs, unsigned k)
__CPROVER_requires(n >= 1 && n <= 8 && k < n && verif_j < n)
__CPROVER_requires(__CPROVER_is_fresh(D, n * sizeof(long long *)) && __CPROVER_is_fresh(D[k], n * sizeof(long long)))
__CPROVER_requires(__CPROVER_is_fresh(vs, sizeof(struct vec)) && ((struct vec *)vs)->n == n && __CPROVER_is_fresh(((struct vec *)vs)->d, n * 72))
__CPROVER_requires(verif_j != k || verif_sp == 0)
__CPROVER_ensures(D[k][verif_j] == verif_sp)
__CPROVER_assigns(__CPROVER_object_whole(D[k]))
;
void h_johnsons_body(void) { unsigned n, k; long long **D; void *vs; w_johnsons_body(n, D, vs, k); VERIF_CANARY; }
#endif

#if defined(JOB_cpl_tail)
/* the tail of computePathLengths: minD defaults to 1, every edge's end points are marked adjacent (G = 1) in both directions, and the
 * distance matrix D -- already final at this point -- is not written again (it is outside the frame) */
struct PACKED FDT { unsigned n; double **D; unsigned short **G; double minD; double m_idealEdgeLength; void *topologyAddon; };
struct PACKED vecT { void *d; size_t n; size_t cap; };
struct PACKED EdgeT { unsigned first, second; };
#define LT(p) ((struct FDT *)(p))
#define E0(es) ((struct EdgeT *)((struct vecT *)(es))->d)
/* assumed: the topology add-on's hook does not touch D or minD (the default add-on does nothing) */
void w_topo_computePathLengths(void *addon, void *G)
__CPROVER_requires(1)
__CPROVER_ensures(1)
__CPROVER_assigns()
;
void w_cpl_tail(void *layout, void *es, void *el)
__CPROVER_requires(__CPROVER_is_fresh(layout, sizeof(struct FDT)) && LT(layout)->n >= 1 && LT(layout)->n <= 3)
__CPROVER_requires(__CPROVER_is_fresh(LT(layout)->D, 3 * sizeof(double *)) && __CPROVER_is_fresh(LT(layout)->G, 3 * sizeof(unsigned short *)))
__CPROVER_requires(__CPROVER_is_fresh(LT(layout)->D[0], 3 * sizeof(double)) && __CPROVER_is_fresh(LT(layout)->D[1], 3 * sizeof(double)) && __CPROVER_is_fresh(LT(layout)->D[2], 3 * sizeof(double)))
__CPROVER_requires(__CPROVER_is_fresh(LT(layout)->G[0], 3 * sizeof(unsigned short)) && __CPROVER_is_fresh(LT(layout)->G[1], 3 * sizeof(unsigned short)) && __CPROVER_is_fresh(LT(layout)->G[2], 3 * sizeof(unsigned short)))
__CPROVER_requires(__CPROVER_is_fresh(es, sizeof(struct vecT)) && ((struct vecT *)es)->n == 1 && __CPROVER_is_fresh(((struct vecT *)es)->d, sizeof(struct EdgeT)))
__CPROVER_requires(E0(es)->first < LT(layout)->n && E0(es)->second < LT(layout)->n)
__CPROVER_requires(__CPROVER_is_fresh(el, sizeof(struct valarr)) && ((struct valarr *)el)->n <= 1 && __CPROVER_is_fresh(((struct valarr *)el)->d, sizeof(double)))
__CPROVER_requires(!IS_NAN(LT(layout)->minD))
__CPROVER_ensures(LT(layout)->G[E0(es)->first][E0(es)->second] == 1 && LT(layout)->G[E0(es)->second][E0(es)->first] == 1)
__CPROVER_ensures(__CPROVER_old(LT(layout)->minD) == DBLMAX ? LT(layout)->minD == 1.0 : bits(LT(layout)->minD) == bits(__CPROVER_old(LT(layout)->minD)))
__CPROVER_assigns(LT(layout)->minD, __CPROVER_object_whole(LT(layout)->G[0]), __CPROVER_object_whole(LT(layout)->G[1]), __CPROVER_object_whole(LT(layout)->G[2]))
;
void h_cpl_tail(void) { void *l, *es, *el; w_cpl_tail(l, es, el); VERIF_CANARY; }
#endif

/* ------------------------------------------------------------ dijkstra's main loop: every entry of the output row is written.
 * Callers (johnsons) hand in rows from a bare `new T[n]`; an entry the loop does not write keeps whatever the heap block held, and
 * computePathLengths then takes garbage for a path length (C17) that differs from run to run (C20). */
#if defined(JOB_dml)
/* BOUNDED plain harness: 3 nodes; the heap hands the nodes out once each, in an arbitrary order, and is empty after the last one */
struct PACKED SNode { unsigned id; long long d; void *p; struct vec neighbours; struct vec nweights; void *qnode; };
static struct SNode node[3]; static _Bool out[3]; static long long val[3]; static unsigned left3;
_Bool w_heap_isEmpty(void *h) { return left3 == 0; }
void *w_heap_extractMin(void *h)
{
  unsigned k; __CPROVER_assume(k < 3 && !out[k]);
  __CPROVER_assert(left3 > 0, "SPEC extractMin on a non-empty queue");
  out[k] = 1; left3--; val[k] = node[k].d;             /* the distance the node has when it leaves the queue */
  return &node[k];
}
void w_decreaseKey(void *heap, void *qnode, void *val_) { }
void w_relax_visit(void *u, unsigned i) { }             /* the relaxation (job dijkstra_relaxation_step) does not write the output row */
void w_dijkstra_main_loop(void *heap, long long *d, unsigned long K);
void h_dml(void)
{
  struct SNode nd[3]; long long d[3]; char heap[8];
  for (int i = 0; i < 3; ++i) { node[i] = nd[i]; node[i].id = i; out[i] = 0; }
  left3 = 3;
  w_dijkstra_main_loop(heap, d, 0);
  for (int i = 0; i < 3; ++i)
    __CPROVER_assert(out[i] && d[i] == val[i], "SPEC every node's entry of the output row holds the distance it had when it left the queue (the sentinel if never reached)");
  VERIF_CANARY;
}
#endif

/* ------------------------------------------------------------ dijkstra_init: one edge (u,v,w) appends v with weight w to u's adjacency and u with
 * weight w to v's -- the weight exactly as given (1 when no weights are supplied), whatever its magnitude */
#if defined(JOB_init_body)
#undef double            /* this job runs the template at T = double */
void w_init_body(unsigned u, unsigned v, double w, int weighted);
unsigned long verif_degree(unsigned k); unsigned long verif_nweights(unsigned k); double verif_weight(unsigned k, unsigned long j); int verif_neighbour_is(unsigned k, unsigned long j, unsigned t);
static unsigned long long bitsd(double d) { union { double d; unsigned long long u; } c; c.d = d; return c.u; }
void h_init_body(void)
{
  unsigned u = U_IDX, v = V_IDX; double w; int weighted;
  __CPROVER_assume(weighted == 0 || weighted == 1);
  w_init_body(u, v, w, weighted);
  double want = weighted ? w : 1.0;
#if defined(PART_WEIGHTS)
  if (u != v)
    __CPROVER_assert(verif_nweights(u) == 1 && verif_nweights(v) == 1 && bitsd(verif_weight(u, 0)) == bitsd(want) && bitsd(verif_weight(v, 0)) == bitsd(want), "SPEC the adjacency carries exactly the given weight, once at each end");
  else
    __CPROVER_assert(verif_nweights(u) == 2 && bitsd(verif_weight(u, 0)) == bitsd(want) && bitsd(verif_weight(u, 1)) == bitsd(want), "SPEC a self-loop's weight is listed twice, exactly as given");
#else
  if (u != v)
    __CPROVER_assert(verif_degree(u) == 1 && verif_degree(v) == 1 && verif_neighbour_is(u, 0, v) && verif_neighbour_is(v, 0, u), "SPEC each end lists the other end, once");
  else
    __CPROVER_assert(verif_degree(u) == 2 && verif_neighbour_is(u, 0, u) && verif_neighbour_is(u, 1, u), "SPEC a self-loop lists the node twice");
#endif
  VERIF_CANARY;
}
#endif
