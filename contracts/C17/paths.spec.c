/* C17: shortest paths -- BOUNDED stand-ins only (DESIGN.md 5/C17): floyd_warshall, johnsons/dijkstra and the
 * post-processing of computePathLengths all write through every row pointer of a T** matrix, which cannot be closed
 * with a ghost index (DESIGN 2.9).  Nothing here is counted as proved.
 *
 * Oracle: Bellman-Ford relaxation (n-1 rounds over the edge list) in 64-bit integer arithmetic, written here from
 * the definition of a shortest path; weights are integer-valued so every floating-point sum is exact. */
#define PACKED __attribute__((packed))
struct PACKED vec { void *d; size_t n; size_t cap; };
struct PACKED valarr { size_t n; void *d; };
struct PACKED Edge { unsigned first, second; };
#ifndef NMAX
#define NMAX 4
#endif
#ifndef MMAX
#define MMAX 5
#endif
#ifndef WMAX
#define WMAX 15
#endif
#ifndef SENT_BITS
#define SENT_BITS 8
#endif
#define INF (1LL << SENT_BITS)
/* The templates are instantiated at T = long long (they are generic in T) with the 'unreachable' sentinel
 * numeric_limits<T>::max() mapped to 2^SENT_BITS (larger than any path length within the bound): integer arithmetic is exact, which is the semantics T = double has on
 * integer-valued weights, and like DBL_MAX the sentinel is never improved upon by sentinel + w. */
#define double long long
#define DMAX INF

void w_floyd_warshall(unsigned n, double **D, void *es, void *ew);
void w_johnsons(unsigned n, double **D, void *es, void *ew);

#if defined(JOB_apsp)
void h_apsp(void)
{
    unsigned n, m; _Bool weighted;
    /* one job per (n, m): concrete loop bounds keep the formula small */
    __CPROVER_assume(n == NMAX && m == MMAX);
    struct Edge edges[MMAX]; double wts[MMAX]; int iw[MMAX];
    for (unsigned e = 0; e < MMAX; e++) {
        /* self-loops and parallel edges are inside the bound */
        __CPROVER_assume(edges[e].first < n && edges[e].second < n && iw[e] >= 0 && iw[e] <= WMAX);
        if (!weighted) iw[e] = 1;
        wts[e] = (double)iw[e];
    }
    struct vec es = { edges, m, MMAX }; struct valarr ew = { weighted ? m : 0, wts };
    double rows[NMAX][NMAX]; double *D[NMAX];
    for (unsigned i = 0; i < NMAX; i++) D[i] = rows[i];
#if ALGO == 0
    w_floyd_warshall(n, D, &es, &ew);
#else
    w_johnsons(n, D, &es, &ew);
#endif
    /* oracle */
    long long bf[NMAX][NMAX];
    for (unsigned i = 0; i < NMAX; i++) for (unsigned j = 0; j < NMAX; j++) bf[i][j] = (i == j) ? 0 : INF;
    for (unsigned round = 0; round + 1 < NMAX; round++)
        for (unsigned e = 0; e < MMAX; e++) if (e < m)
            for (unsigned s = 0; s < NMAX; s++) {
                unsigned u = edges[e].first, v = edges[e].second;
                if (bf[s][u] + iw[e] < bf[s][v]) bf[s][v] = bf[s][u] + iw[e];
                if (bf[s][v] + iw[e] < bf[s][u]) bf[s][u] = bf[s][v] + iw[e];
            }
    for (unsigned i = 0; i < NMAX; i++) for (unsigned j = 0; j < NMAX; j++) if (i < n && j < n) {
        if (i == j)
            __CPROVER_assert(rows[i][j] == 0, "SPEC all-pairs shortest paths: zero diagonal");
        else if (bf[i][j] >= INF)
            __CPROVER_assert(rows[i][j] == DMAX, "SPEC all-pairs shortest paths: the 'unreachable' sentinel exactly for pairs in different components");
        else
            __CPROVER_assert(rows[i][j] == (double)bf[i][j], "SPEC all-pairs shortest paths: every entry is the length of a shortest path (Bellman-Ford oracle)");
        __CPROVER_assert(rows[i][j] == rows[j][i], "SPEC all-pairs shortest paths: symmetric matrix");
    }
    VERIF_CANARY;
}
#endif
