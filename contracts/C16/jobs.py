"""C16 jobs: libavoid geometry predicates agree with exact arithmetic (DESIGN.md section 5, C16)."""
import os
from vf import *
from common import *
import layout

HERE = os.path.dirname(os.path.abspath(__file__))
GH, GC, GT = "libavoid/geometry.h", "libavoid/geometry.cpp", "libavoid/geomtypes.cpp"

WRAP = {
    "vecDir": 'extern "C" int w_vecDir(void *a, void *b, void *c, double maybeZero)\n'
              '{ return Avoid::vecDir(*(const Avoid::Point *)a, *(const Avoid::Point *)b, *(const Avoid::Point *)c, maybeZero); }\n',
    "colinear": 'extern "C" bool w_colinear(void *a, void *b, void *c, double tolerance)\n'
                '{ return Avoid::colinear(*(const Avoid::Point *)a, *(const Avoid::Point *)b, *(const Avoid::Point *)c, tolerance); }\n',
    "pointOnLine": 'extern "C" bool w_pointOnLine(void *a, void *b, void *c, double tolerance)\n'
                   '{ return Avoid::pointOnLine(*(const Avoid::Point *)a, *(const Avoid::Point *)b, *(const Avoid::Point *)c, tolerance); }\n',
    "inBetween": 'extern "C" bool w_inBetween(void *a, void *b, void *c)\n'
                 '{ return Avoid::inBetween(*(const Avoid::Point *)a, *(const Avoid::Point *)b, *(const Avoid::Point *)c); }\n',
    "point_eq": 'extern "C" bool w_point_eq(void *a, void *b) { return (*(const Avoid::Point *)a) == (*(const Avoid::Point *)b); }\n'
                'extern "C" bool w_point_ne(void *a, void *b) { return (*(const Avoid::Point *)a) != (*(const Avoid::Point *)b); }\n',
    "segmentIntersect": 'extern "C" bool w_segmentIntersect(void *a, void *b, void *c, void *d)\n'
                        '{ return Avoid::segmentIntersect(*(const Avoid::Point *)a, *(const Avoid::Point *)b, *(const Avoid::Point *)c, *(const Avoid::Point *)d); }\n',
    "segmentShapeIntersect": 'extern "C" bool w_segmentShapeIntersect(void *e1, void *e2, void *s1, void *s2, bool *seen)\n'
                             '{ return Avoid::segmentShapeIntersect(*(const Avoid::Point *)e1, *(const Avoid::Point *)e2, *(const Avoid::Point *)s1, *(const Avoid::Point *)s2, *seen); }\n',
}

# one-line shims: the real signature forwards to a body-less extern "C" wrapper that is replaced by its contract
SHIM_DECL = ('extern "C" int w_vecDir(void *a, void *b, void *c, double maybeZero);\n'
             'extern "C" bool w_pointOnLine(void *a, void *b, void *c, double tolerance);\n'
             'extern "C" bool w_segmentIntersect(void *a, void *b, void *c, void *d);\n')
SHIM = {
    "vecDir": 'static inline int vecDir(const Point& a, const Point& b, const Point& c, const double maybeZero = 0.0)\n'
              '{ return w_vecDir((void *)&a, (void *)&b, (void *)&c, maybeZero); }\n',
    "pointOnLine": 'bool pointOnLine(const Point& a, const Point& b, const Point& c, const double tolerance)\n'
                   '{ return w_pointOnLine((void *)&a, (void *)&b, (void *)&c, tolerance); }\n',
    "segmentIntersect": 'bool segmentIntersect(const Point& a, const Point& b, const Point& c, const Point& d)\n'
                        '{ return w_segmentIntersect((void *)&a, (void *)&b, (void *)&c, (void *)&d); }\n',
}


def jobs(tier):
    js = []
    pre = prelude("avoid_geomtypes.h")
    layout.check_layout("avoid_point", pre, ["libavoid/geomtypes.h"],
                        [("Avoid::Point", ["x", "y", "id", "vn"])], sizes=["Avoid::Point"])
    spec = spec_header() + rd(HERE, "geometry.spec.c")
    S = {}
    S["decls"] = slice_region(GH, r'^extern double euclideanDist\(', r'^extern bool inBetween\([^;]*;', "geometry.h declarations")
    S["vecDir"] = slice_func(GH, r'^static inline int vecDir\(const Point& a, const Point& b, const Point& c,', "vecDir")
    S["inBetween"] = slice_func(GC, r'^bool inBetween\(const Point& a, const Point& b, const Point& c\)', "inBetween")
    S["colinear"] = slice_func(GC, r'^bool colinear\(const Point& a, const Point& b, const Point& c,', "colinear")
    S["pointOnLine"] = slice_func(GC, r'^bool pointOnLine\(const Point& a, const Point& b, const Point& c,', "pointOnLine")
    S["segmentIntersect"] = slice_func(GC, r'^bool segmentIntersect\(const Point& a, const Point& b, const Point& c,', "segmentIntersect")
    S["segmentShapeIntersect"] = slice_func(GC, r'^bool segmentShapeIntersect\(const Point& e1, const Point& e2, const Point& s1,', "segmentShapeIntersect")
    S["eq"] = slice_func(GT, r'^bool Point::operator==\(const Point& rhs\) const', "Point::operator==")
    S["ne"] = slice_func(GT, r'^bool Point::operator!=\(const Point& rhs\) const', "Point::operator!=")
    inb_text = subst(S["inBetween"], [(r'std::numeric_limits<double>::epsilon\(\)', 'DBL_EPSILON', 1)])
    fwd = "class Polygon; class PolygonInterface;\n"
    inc = "#include <cfloat>\n#include <cmath>\n"

    def tu(names, wrappers, shims=()):
        body = fwd + S["decls"].text + "\n"
        for n in names:
            if n in shims:
                body += SHIM[n]
            elif n == "inBetween":
                body += inb_text + "\n"
            else:
                body += S[n].text + "\n"
        return "#include <verif_base.h>\n" + inc + pre + (SHIM_DECL if shims else "") + "namespace Avoid {\n" + body + "}\n" + "".join(WRAP[w] for w in wrappers)

    grid = 5 if tier == "quick" else 7
    exp_post = [r'\.postcondition\.\d+']
    dom_grid = "bit-precise IEEE doubles, every coordinate an integer in [0,%d]" % grid
    # ---- leaf: vecDir
    js.append(Job("vecDir_grid", "D", spec, "h_vecDir", cxx=tu(["vecDir"], ["vecDir"]), enforce="w_vecDir",
                  defines=["JOB_vecDir_grid", "GRID=%d" % grid], expect=exp_post + [r'COLA_ASSERT|assertion'],
                  slices=[S["vecDir"]], domain=dom_grid + ", maybeZero = 0", timeout=600))
    js.append(Job("vecDir_any", "U", spec, "h_vecDir", cxx=tu(["vecDir"], ["vecDir"]), enforce="w_vecDir",
                  defines=["JOB_vecDir_any"], expect=exp_post, slices=[S["vecDir"]],
                  domain="all doubles, maybeZero >= 0", timeout=300))
    js.append(Job("vecDir_lemma_tol", "U", spec, "h_vecDir_tol", cxx=tu(["vecDir"], ["vecDir"]),
                  defines=["JOB_vecDir_lemmas"], expect=[r'h_vecDir_tol\.assertion'], slices=[S["vecDir"]],
                  domain="all doubles; two calls of the real vecDir on the same points", timeout=300))
    gs = 3 if tier == "quick" else 5
    js.append(Job("vecDir_lemma_sym", "D", spec, "h_vecDir_sym", cxx=tu(["vecDir"], ["vecDir"]),
                  defines=["JOB_vecDir_sym", "GRID=%d" % gs], expect=[r'h_vecDir_sym\.assertion'], slices=[S["vecDir"]],
                  domain="bit-precise IEEE doubles, every coordinate an integer in [0,%d]; three calls of the real vecDir" % gs,
                  timeout=600))
    # ---- 6-coordinate predicates directly on the grid (real vecDir inlined)
    js.append(Job("colinear_grid", "D", spec, "h_colinear", cxx=tu(["eq", "vecDir", "colinear"], ["colinear"]),
                  enforce="w_colinear", defines=["JOB_colinear_grid", "GRID=%d" % grid], expect=exp_post,
                  slices=[S["colinear"], S["vecDir"], S["eq"]], domain=dom_grid + ", tolerance = 0", timeout=600))
    js.append(Job("pointOnLine_grid", "D", spec, "h_pointOnLine",
                  cxx=tu(["vecDir", "inBetween", "pointOnLine"], ["pointOnLine"]),
                  enforce="w_pointOnLine", defines=["JOB_pointOnLine_grid", "GRID=%d" % grid], expect=exp_post,
                  slices=[S["pointOnLine"], S["inBetween"], S["vecDir"]], domain=dom_grid + ", tolerance = 0", timeout=600))
    js.append(Job("inBetween_grid", "D", spec, "h_inBetween", cxx=tu(["vecDir", "inBetween"], ["inBetween"]),
                  enforce="w_inBetween", defines=["JOB_inBetween_grid", "GRID=%d" % grid], expect=exp_post,
                  slices=[S["inBetween"], S["vecDir"]], domain=dom_grid + ", collinear points", timeout=600))
    # ---- Point comparison
    js.append(Job("point_eq", "U", spec, "h_point_eq", cxx=tu(["eq", "ne"], ["point_eq"]), enforce="w_point_eq",
                  defines=["JOB_point_eq"], expect=exp_post, slices=[S["eq"]], domain="all doubles"))
    js.append(Job("point_ne", "U", spec, "h_point_ne", cxx=tu(["eq", "ne"], ["point_eq"]), enforce="w_point_ne",
                  defines=["JOB_point_eq"], expect=exp_post, slices=[S["ne"]], domain="all doubles"))
    # ---- caller layer over the uninterpreted orientation
    js.append(Job("segmentIntersect", "U", spec, "h_segmentIntersect",
                  cxx=tu(["vecDir", "segmentIntersect"], ["segmentIntersect"], shims=("vecDir",)),
                  enforce="w_segmentIntersect", replace=["w_vecDir"], defines=["JOB_segmentIntersect", "CALLER_LAYER"],
                  expect=exp_post + [r'precondition'], slices=[S["segmentIntersect"]],
                  domain="all doubles; vecDir replaced by its contract over the uninterpreted orientation ORI", timeout=300))
    js.append(Job("segmentShapeIntersect", "U", spec, "h_segmentShapeIntersect",
                  cxx=tu(["eq", "vecDir", "pointOnLine", "segmentIntersect", "segmentShapeIntersect"],
                         ["segmentShapeIntersect"], shims=("vecDir", "pointOnLine", "segmentIntersect")),
                  enforce="w_segmentShapeIntersect", replace=["w_vecDir", "w_pointOnLine", "w_segmentIntersect"],
                  defines=["JOB_segmentShapeIntersect", "CALLER_LAYER"], expect=exp_post + [r'precondition'],
                  slices=[S["segmentShapeIntersect"], S["eq"]],
                  domain="all doubles; vecDir, pointOnLine, segmentIntersect replaced by their contracts", timeout=300))
    js.append(Job("symmetry_lemmas", "U", spec, "h_symmetry", defines=["JOB_symmetry_lemmas"],
                  expect=[r'h_symmetry\.assertion'], domain="every interpretation of ORI satisfying the leaf lemmas",
                  note="lemma over the contracts (no code)"))
    return js


LEVEL = "proof"
TRUSTED = [
    "cbmc/goto-cc/goto-instrument 6.11.0 and the MiniSat back end (bit-precise IEEE-754 semantics of +,-,*,/ and comparisons)",
    "paper composition of the two layers: a caller theorem over the uninterpreted ORI holds for every interpretation, hence for the exact orientation the leaf jobs establish on the integer grid",
    "extraction: verbatim function text from cola/libavoid/geometry.h, geometry.cpp, geomtypes.cpp; substitutions: std::numeric_limits<double>::epsilon() -> DBL_EPSILON; COLA_ASSERT -> __CPROVER_assert",
    "prelude/avoid_geomtypes.h declares Avoid::Point's data members (layout cross-checked against the real header on every run)",
]
ASSUMPTIONS = [
    "class D jobs are complete proofs over the stated finite domain (integer coordinates in a small grid), not over all 'small integers'; the grid side is limited by solver time for floating-point multiplication",
    "the coordinates returned by segmentIntersectPoint/rayIntersectPoint are not claimed (floating-point division accuracy)",
    "pointOnLine/inBetween at the segment's end points: unconstrained (code excludes them, comment says closed; the property does not choose)",
]
EXPLANATION = ("Contracts on the real libavoid geometry predicates. Leaf layer: vecDir, colinear, pointOnLine, inBetween equal the exact integer "
               "orientation/on-segment oracle bit-precisely on an integer grid. Caller layer: segmentIntersect and segmentShapeIntersect equal their "
               "textbook definitions over an uninterpreted orientation for ALL doubles; symmetry lemmas over the contracts.")
