"""C16 jobs: libavoid geometry predicates agree with exact arithmetic (DESIGN.md section 5, C16)."""
import os
from vf import *
from common import *
import layout

HERE = os.path.dirname(os.path.abspath(__file__))
GH, GC, GT = "libavoid/geometry.h", "libavoid/geometry.cpp", "libavoid/geomtypes.cpp"

WRAP = {
    "vecDir": 'extern "C" int w_vecDir(void *a, void *b, void *c, double maybeZero)\n'
              '{ return Avoid::vecDir(*(const Avoid::Point *)a, *(const Avoid::Point *)b, *(const Avoid::Point *)c, maybeZero); }\n',
    "colinear": 'extern "C" bool w_colinear(void *a, void *b, void *c, double tolerance)\n'
                '{ return Avoid::colinear(*(const Avoid::Point *)a, *(const Avoid::Point *)b, *(const Avoid::Point *)c, tolerance); }\n',
    "pointOnLine": 'extern "C" bool w_pointOnLine(void *a, void *b, void *c, double tolerance)\n'
                   '{ return Avoid::pointOnLine(*(const Avoid::Point *)a, *(const Avoid::Point *)b, *(const Avoid::Point *)c, tolerance); }\n',
    "inBetween": 'extern "C" bool w_inBetween(void *a, void *b, void *c)\n'
                 '{ return Avoid::inBetween(*(const Avoid::Point *)a, *(const Avoid::Point *)b, *(const Avoid::Point *)c); }\n',
    "point_eq": 'extern "C" bool w_point_eq(void *a, void *b) { return (*(const Avoid::Point *)a) == (*(const Avoid::Point *)b); }\n'
                'extern "C" bool w_point_ne(void *a, void *b) { return (*(const Avoid::Point *)a) != (*(const Avoid::Point *)b); }\n',
    "segmentIntersect": 'extern "C" bool w_segmentIntersect(void *a, void *b, void *c, void *d)\n'
                        '{ return Avoid::segmentIntersect(*(const Avoid::Point *)a, *(const Avoid::Point *)b, *(const Avoid::Point *)c, *(const Avoid::Point *)d); }\n',
    "segmentShapeIntersect": 'extern "C" bool w_segmentShapeIntersect(void *e1, void *e2, void *s1, void *s2, bool *seen)\n'
                             '{ return Avoid::segmentShapeIntersect(*(const Avoid::Point *)e1, *(const Avoid::Point *)e2, *(const Avoid::Point *)s1, *(const Avoid::Point *)s2, *seen); }\n',
}

# one-line shims: the real signature forwards to a body-less extern "C" wrapper that is replaced by its contract
SHIM_DECL = ('extern "C" int w_vecDir(void *a, void *b, void *c, double maybeZero);\n'
             'extern "C" bool w_pointOnLine(void *a, void *b, void *c, double tolerance);\n'
             'extern "C" bool w_segmentIntersect(void *a, void *b, void *c, void *d);\n')
SHIM = {
    "vecDir": 'static inline int vecDir(const Point& a, const Point& b, const Point& c, const double maybeZero = 0.0)\n'
              '{ return w_vecDir((void *)&a, (void *)&b, (void *)&c, maybeZero); }\n',
    "pointOnLine": 'bool pointOnLine(const Point& a, const Point& b, const Point& c, const double tolerance)\n'
                   '{ return w_pointOnLine((void *)&a, (void *)&b, (void *)&c, tolerance); }\n',
    "segmentIntersect": 'bool segmentIntersect(const Point& a, const Point& b, const Point& c, const Point& d)\n'
                        '{ return w_segmentIntersect((void *)&a, (void *)&b, (void *)&c, (void *)&d); }\n',
}


REPLAY_SRC = r'''
// Native replay for C16: the REAL libavoid predicates against exact integer arithmetic on every configuration of a small
// integer grid (all degenerate cases included).  Oracles are written from the definitions, in 64-bit integers.
#include "libavoid/geometry.h"
#include "libavoid/geomtypes.h"
#include <iostream>
#include "libvpsc/linesegment.h"
#include <cstdio>
using namespace Avoid;
typedef long long ll;
static ll cr(const Point &a, const Point &b, const Point &c) { return (ll)(b.x - a.x) * (ll)(c.y - a.y) - (ll)(c.x - a.x) * (ll)(b.y - a.y); }
static int sg(ll v) { return v > 0 ? 1 : v < 0 ? -1 : 0; }
static bool onClosed(const Point &a, const Point &b, const Point &c) {
  return cr(a, b, c) == 0 && std::min(a.x, b.x) <= c.x && c.x <= std::max(a.x, b.x) && std::min(a.y, b.y) <= c.y && c.y <= std::max(a.y, b.y); }
static int bad = 0;
#define FAIL(...) do { if (bad < 8) { printf(__VA_ARGS__); printf("\n"); } bad++; } while (0)
int main() {
  const int G = 3; std::vector<Point> pts;
  for (int x = 0; x <= G; ++x) for (int y = 0; y <= G; ++y) pts.push_back(Point(x, y));
  size_t N = pts.size();
  for (size_t i = 0; i < N; ++i) for (size_t j = 0; j < N; ++j) for (size_t k = 0; k < N; ++k) {
    const Point &a = pts[i], &b = pts[j], &c = pts[k];
    if (vecDir(a, b, c) != sg(cr(a, b, c))) FAIL("vecDir((%g,%g),(%g,%g),(%g,%g)) = %d, exact %d", a.x, a.y, b.x, b.y, c.x, c.y, vecDir(a, b, c), sg(cr(a, b, c)));
    if (colinear(a, b, c) != (cr(a, b, c) == 0)) FAIL("colinear((%g,%g),(%g,%g),(%g,%g)) wrong", a.x, a.y, b.x, b.y, c.x, c.y);
    bool strict = onClosed(a, b, c) && !(c == a) && !(c == b);
    bool pol = pointOnLine(a, b, c);
    if ((strict && !pol) || (!onClosed(a, b, c) && pol)) FAIL("pointOnLine((%g,%g),(%g,%g),(%g,%g)) = %d", a.x, a.y, b.x, b.y, c.x, c.y, (int)pol);
    // triangles a,b,c (non-degenerate) and query points: inPolyGen / inPoly against the closed-triangle test
    if (cr(a, b, c) != 0) {
      Polygon tri(3); tri.ps[0] = a; tri.ps[1] = b; tri.ps[2] = c;
      for (size_t m = 0; m < N; ++m) {
        const Point &q = pts[m];
        ll o0 = cr(a, b, q), o1 = cr(b, c, q), o2 = cr(c, a, q);
        bool in = (o0 >= 0 && o1 >= 0 && o2 >= 0) || (o0 <= 0 && o1 <= 0 && o2 <= 0);
        if (inPolyGen(tri, q) != in) FAIL("inPolyGen(triangle (%g,%g),(%g,%g),(%g,%g); q=(%g,%g)) = %d, exact %d", a.x, a.y, b.x, b.y, c.x, c.y, q.x, q.y, (int)inPolyGen(tri, q), (int)in);
        if (cr(a, b, c) > 0) {   // inPoly expects the orientation for which inside means vecDir >= 0
          bool inb = o0 >= 0 && o1 >= 0 && o2 >= 0, ins = o0 > 0 && o1 > 0 && o2 > 0;
          if (inPoly(tri, q, true) != inb || inPoly(tri, q, false) != ins) FAIL("inPoly(triangle (%g,%g),(%g,%g),(%g,%g); q=(%g,%g)) wrong", a.x, a.y, b.x, b.y, c.x, c.y, q.x, q.y);
        }
      }
    }
    for (size_t l = 0; l < N; ++l) {
      const Point &d = pts[l];
      bool proper = sg(cr(a, b, c)) * sg(cr(a, b, d)) < 0 && sg(cr(c, d, a)) * sg(cr(c, d, b)) < 0;
      if (segmentIntersect(a, b, c, d) != proper) FAIL("segmentIntersect((%g,%g),(%g,%g),(%g,%g),(%g,%g)) = %d, exact %d", a.x, a.y, b.x, b.y, c.x, c.y, d.x, d.y, (int)segmentIntersect(a, b, c, d), (int)proper);
      double x, y; int code = segmentIntersectPoint(a, b, c, d, &x, &y);
      ll dc = (ll)(b.x - a.x) * (ll)(d.y - c.y) - (ll)(b.y - a.y) * (ll)(d.x - c.x);
      if (dc != 0) { int want = (cr(a, b, c) * cr(a, b, d) <= 0 && cr(c, d, a) * cr(c, d, b) <= 0) ? DO_INTERSECT : DONT_INTERSECT;
        if (code != want) FAIL("segmentIntersectPoint((%g,%g),(%g,%g),(%g,%g),(%g,%g)) = %d, exact %d", a.x, a.y, b.x, b.y, c.x, c.y, d.x, d.y, code, want); }
      else if (code == DO_INTERSECT) FAIL("segmentIntersectPoint reports one point for parallel segments");
      // segmentShapeIntersect(e = a-b, shape edge c-d, flag): crossing blocks; an end point of e on the half-open edge (c, d] with the other end off
      // the edge's line is a contact (first one remembered and let through, a later one blocks); anything else neither blocks nor is remembered
      { bool onA = (a == d) || (onClosed(c, d, a) && !(a == c) && !(a == d)), onB = (b == d) || (onClosed(c, d, b) && !(b == c) && !(b == d));
        bool contact = (onA && cr(c, d, b) != 0) || (onB && cr(c, d, a) != 0);
        for (int seen0 = 0; seen0 < 2; ++seen0) { bool seen = seen0 != 0; bool r = segmentShapeIntersect(a, b, c, d, seen);
          bool wantR = proper ? true : (contact ? seen0 != 0 : false), wantSeen = proper ? seen0 != 0 : (contact ? true : seen0 != 0);
          if (r != wantR || seen != wantSeen) FAIL("segmentShapeIntersect(e=(%g,%g)-(%g,%g), edge (%g,%g)-(%g,%g), seen=%d) = %d, seen=%d; exact %d, %d", a.x, a.y, b.x, b.y, c.x, c.y, d.x, d.y, seen0, (int)r, (int)seen, (int)wantR, (int)wantSeen); } }
    }
  }
  // axis-parallel rectangles, both orientations
  for (int x0 = 0; x0 < G; ++x0) for (int x1 = x0 + 1; x1 <= G; ++x1) for (int y0 = 0; y0 < G; ++y0) for (int y1 = y0 + 1; y1 <= G; ++y1) for (int flip = 0; flip < 2; ++flip) {
    Polygon r(4); r.ps[0] = Point(x0, y0); r.ps[2] = Point(x1, y1); r.ps[1] = flip ? Point(x0, y1) : Point(x1, y0); r.ps[3] = flip ? Point(x1, y0) : Point(x0, y1);
    for (size_t m = 0; m < N; ++m) { const Point &q = pts[m]; bool in = x0 <= q.x && q.x <= x1 && y0 <= q.y && q.y <= y1;
      if (inPolyGen(r, q) != in) FAIL("inPolyGen(rectangle [%d,%d]x[%d,%d]%s; q=(%g,%g)) = %d, exact %d", x0, x1, y0, y1, flip ? " reversed" : "", q.x, q.y, (int)inPolyGen(r, q), (int)in); }
  }
  { // libvpsc's LineSegment::Intersect on the grid [0,3], zero-length segments included
    int lsbad = 0;
    for (int c = 0; c < 65536; ++c) {
      int v[8]; for (int k = 0; k < 8; ++k) v[k] = (c >> (2 * k)) & 3;
      linesegment::LineSegment a(linesegment::Vector(v[0], v[1]), linesegment::Vector(v[2], v[3])), b(linesegment::Vector(v[4], v[5]), linesegment::Vector(v[6], v[7]));
      linesegment::Vector p; int r = (int)a.Intersect(b, p);
      long dx1 = v[2] - v[0], dy1 = v[3] - v[1], dx2 = v[6] - v[4], dy2 = v[7] - v[5];
      long denom = dy2 * dx1 - dy1 * dx2, na = dx2 * (v[1] - v[5]) - dy2 * (v[0] - v[4]), nb = dx1 * (v[1] - v[5]) - dy1 * (v[0] - v[4]);
      bool ia = denom > 0 ? (0 <= na && na <= denom) : (0 >= na && na >= denom), ib = denom > 0 ? (0 <= nb && nb <= denom) : (0 >= nb && nb >= denom);
      int want = denom == 0 ? ((na == 0 && nb == 0) ? 1 : 0) : ((ia && ib) ? 3 : 2);
      if (r != want) { if (lsbad < 3) printf("LineSegment (%d,%d)-(%d,%d) Intersect (%d,%d)-(%d,%d) = %d, exact arithmetic says %d\n", v[0], v[1], v[2], v[3], v[4], v[5], v[6], v[7], r, want); lsbad++; }
    }
    bad += lsbad;
  }
  if (bad) { printf("REPRODUCED: %d disagreement(s) with exact arithmetic\n", bad); return 1; }
  printf("not reproduced on the grid [0,%d]\n", G); return 0;
}
'''


def replay_c16(job, obl, inputs, workdir):
    lib = build_lib("libavoid", workdir)
    rc, out = native_run(REPLAY_SRC, workdir, "replay_c16", extra=["-I", COLA], libs=[lib], timeout=600)
    if rc is None:
        return False, out
    return rc == 1, out


def jobs(tier):
    js = []
    pre = prelude("avoid_geomtypes.h")
    layout.check_layout("avoid_point", pre, ["libavoid/geomtypes.h"],
                        [("Avoid::Point", ["x", "y", "id", "vn"])], sizes=["Avoid::Point"])
    spec = spec_header() + rd(HERE, "geometry.spec.c")
    S = {}
    S["decls"] = slice_region(GH, r'^extern double euclideanDist\(', r'^extern bool inBetween\([^;]*;', "geometry.h declarations")
    S["vecDir"] = slice_func(GH, r'^static inline int vecDir\(const Point& a, const Point& b, const Point& c,', "vecDir")
    S["inBetween"] = slice_func(GC, r'^bool inBetween\(const Point& a, const Point& b, const Point& c\)', "inBetween")
    S["colinear"] = slice_func(GC, r'^bool colinear\(const Point& a, const Point& b, const Point& c,', "colinear")
    S["pointOnLine"] = slice_func(GC, r'^bool pointOnLine\(const Point& a, const Point& b, const Point& c,', "pointOnLine")
    S["segmentIntersect"] = slice_func(GC, r'^bool segmentIntersect\(const Point& a, const Point& b, const Point& c,', "segmentIntersect")
    S["segmentShapeIntersect"] = slice_func(GC, r'^bool segmentShapeIntersect\(const Point& e1, const Point& e2, const Point& s1,', "segmentShapeIntersect")
    S["eq"] = slice_func(GT, r'^bool Point::operator==\(const Point& rhs\) const', "Point::operator==")
    S["ne"] = slice_func(GT, r'^bool Point::operator!=\(const Point& rhs\) const', "Point::operator!=")
    inb_text = subst(S["inBetween"], [(r'std::numeric_limits<double>::epsilon\(\)', 'DBL_EPSILON', 1)])
    fwd = "class Polygon; class PolygonInterface;\n"
    inc = "#include <cfloat>\n#include <cmath>\n"

    def tu(names, wrappers, shims=()):
        body = fwd + S["decls"].text + "\n"
        for n in names:
            if n in shims:
                body += SHIM[n]
            elif n == "inBetween":
                body += inb_text + "\n"
            else:
                body += S[n].text + "\n"
        return "#include <verif_base.h>\n" + inc + pre + (SHIM_DECL if shims else "") + "namespace Avoid {\n" + body + "}\n" + "".join(WRAP[w] for w in wrappers)

    grid = 7 if tier == "quick" else 15
    exp_post = [r'\.postcondition\.\d+']
    dom_grid = "bit-precise IEEE doubles, every coordinate an integer in [0,%d]" % grid
    # ---- leaf: vecDir
    # the grid jobs are case-split on a.x (one job per value): each split finishes in ~30 s even on [0,15], the unsplit grid [0,5] took ~55 s
    def split_jobs(name, entry, cxx, enforce, define, slices, domain_extra):
        for lo in range(grid + 1):
            js.append(Job("%s_ax%d" % (name, lo), "D", spec, entry, cxx=cxx, enforce=enforce,
                          defines=[define, "GRID=%d" % grid, "SPLIT_LO=%d" % lo, "SPLIT_HI=%d" % lo], expect=exp_post, slices=slices,
                          domain=dom_grid + ", a.x = %d%s" % (lo, domain_extra), timeout=900, flags=["--sat-solver", "cadical"], backend="sat:cadical"))
    split_jobs("vecDir_grid", "h_vecDir", tu(["vecDir"], ["vecDir"]), "w_vecDir", "JOB_vecDir_grid", [S["vecDir"]], ", maybeZero = 0")
    js.append(Job("vecDir_any", "U", spec, "h_vecDir", cxx=tu(["vecDir"], ["vecDir"]), enforce="w_vecDir",
                  defines=["JOB_vecDir_any"], expect=exp_post, slices=[S["vecDir"]],
                  domain="all doubles, maybeZero >= 0", timeout=300))
    js.append(Job("vecDir_lemma_tol", "U", spec, "h_vecDir_tol", cxx=tu(["vecDir"], ["vecDir"]),
                  defines=["JOB_vecDir_lemmas"], expect=[r'h_vecDir_tol\.assertion'], slices=[S["vecDir"]],
                  domain="all doubles; two calls of the real vecDir on the same points", timeout=300))
    gs = 3 if tier == "quick" else 5
    js.append(Job("vecDir_lemma_sym", "D", spec, "h_vecDir_sym", cxx=tu(["vecDir"], ["vecDir"]),
                  defines=["JOB_vecDir_sym", "GRID=%d" % gs], expect=[r'h_vecDir_sym\.assertion'], slices=[S["vecDir"]],
                  domain="bit-precise IEEE doubles, every coordinate an integer in [0,%d]; three calls of the real vecDir" % gs,
                  timeout=600))
    # ---- 6-coordinate predicates directly on the grid (real vecDir inlined)
    split_jobs("colinear_grid", "h_colinear", tu(["eq", "vecDir", "colinear"], ["colinear"]), "w_colinear", "JOB_colinear_grid", [S["colinear"], S["vecDir"], S["eq"]], ", tolerance = 0")
    split_jobs("pointOnLine_grid", "h_pointOnLine", tu(["vecDir", "inBetween", "pointOnLine"], ["pointOnLine"]), "w_pointOnLine", "JOB_pointOnLine_grid", [S["pointOnLine"], S["inBetween"], S["vecDir"]], ", tolerance = 0")
    split_jobs("inBetween_grid", "h_inBetween", tu(["vecDir", "inBetween"], ["inBetween"]), "w_inBetween", "JOB_inBetween_grid", [S["inBetween"], S["vecDir"]], ", collinear points")
    # ---- Point comparison
    js.append(Job("point_eq", "U", spec, "h_point_eq", cxx=tu(["eq", "ne"], ["point_eq"]), enforce="w_point_eq",
                  defines=["JOB_point_eq"], expect=exp_post, slices=[S["eq"]], domain="all doubles"))
    js.append(Job("point_ne", "U", spec, "h_point_ne", cxx=tu(["eq", "ne"], ["point_eq"]), enforce="w_point_ne",
                  defines=["JOB_point_eq"], expect=exp_post, slices=[S["ne"]], domain="all doubles"))
    # ---- caller layer over the uninterpreted orientation
    js.append(Job("segmentIntersect", "U", spec, "h_segmentIntersect",
                  cxx=tu(["vecDir", "segmentIntersect"], ["segmentIntersect"], shims=("vecDir",)),
                  enforce="w_segmentIntersect", replace=["w_vecDir"], defines=["JOB_segmentIntersect", "CALLER_LAYER"],
                  expect=exp_post + [r'precondition'], slices=[S["segmentIntersect"]],
                  domain="all doubles; vecDir replaced by its contract over the uninterpreted orientation ORI", timeout=300))
    js.append(Job("segmentShapeIntersect", "U", spec, "h_segmentShapeIntersect",
                  cxx=tu(["eq", "vecDir", "pointOnLine", "segmentIntersect", "segmentShapeIntersect"],
                         ["segmentShapeIntersect"], shims=("vecDir", "pointOnLine", "segmentIntersect")),
                  enforce="w_segmentShapeIntersect", replace=["w_vecDir", "w_pointOnLine", "w_segmentIntersect"],
                  defines=["JOB_segmentShapeIntersect", "CALLER_LAYER"], expect=exp_post + [r'precondition'],
                  slices=[S["segmentShapeIntersect"], S["eq"]],
                  domain="all doubles; vecDir, pointOnLine, segmentIntersect replaced by their contracts", timeout=300))
    js.append(Job("symmetry_lemmas", "U", spec, "h_symmetry", defines=["JOB_symmetry_lemmas"],
                  expect=[r'h_symmetry\.assertion'], domain="every interpretation of ORI satisfying the leaf lemmas",
                  note="lemma over the contracts (no code)"))
    # ---------------- polygons and intersection points
    poly_pre = prelude("avoid_polygon.h")
    layout.check_layout("avoid_polygon16", pre + poly_pre, ["libavoid/geomtypes.h"],
                        [("Avoid::Polygon", ["_id", "ps", "ts", "checkpointsOnRoute"])], sizes=["Avoid::Polygon"])
    S["inPoly"] = slice_func(GC, r'^bool inPoly\(const Polygon& poly, const Point& q, bool countBorder\)', "inPoly")
    S["inPolyGen"] = slice_func(GC, r'^bool inPolyGen\(const PolygonInterface& argpoly, const Point& q\)', "inPolyGen")
    S["psize"] = slice_func(GT, r'^size_t Polygon::size\(void\) const', "Polygon::size")
    S["sip"] = slice_func(GC, r'^int segmentIntersectPoint\(const Point& a1, const Point& a2,', "segmentIntersectPoint")
    S["rip"] = slice_func(GC, r'^int rayIntersectPoint\(const Point& a1, const Point& a2,', "rayIntersectPoint")
    S["codes"] = slice_lines(GH, r'^static const int (DONT_INTERSECT|DO_INTERSECT|PARALLEL) = \d;', 3, "intersection return codes")
    ptu_head = "#include <verif_base.h>\n" + inc + pre + poly_pre
    # inPoly: the function is placed in an extern "C" block so that its symbol has no comma (loop-contract symbol_map limitation)
    inpoly_cxx = (ptu_head + SHIM_DECL + "namespace Avoid {\n" + SHIM["vecDir"] + S["psize"].text + "\n"
                  'extern "C" {\n' + S["inPoly"].text + "\n}\n}\n"
                  'extern "C" bool w_inPoly(void *poly, void *q, bool countBorder) { return Avoid::inPoly(*(const Avoid::Polygon *)poly, *(const Avoid::Point *)q, countBorder); }\n')
    js.append(Job("inPoly", "U", spec, "h_inPoly", cxx=inpoly_cxx, enforce="w_inPoly", replace=["w_vecDir"], defines=["JOB_inPoly"],
                  slices=[S["inPoly"], S["psize"]],
                  loops=loops_file([loop_contract("Avoid::inPoly", 0,
                                                  "i <= n && (verif_g < i ==> verif_gdir != -1) && ((verif_g < i && verif_gdir == 0) ==> onBorder)",
                                                  "i, onBorder", "n - i", {"i": "1::1::i", "n": "1::n", "onBorder": "1::onBorder"})]),
                  domain="all doubles, every polygon size n in [1,10^6], ghost edge index; vecDir replaced by its contract (ghost cell for the ghost edge's orientation)",
                  expect=[r'w_inPoly\.postcondition', r'loop_invariant_base', r'loop_invariant_step', r'loop_decreases', r'index in bounds|assertion']))
    nv = 4 if tier == "quick" else 6
    js.append(Job("inPoly_bounded", "B", spec, "h_inPoly_bounded", cxx=inpoly_cxx, defines=["JOB_inPoly_bounded", "NV=%d" % nv],
                  unwind=nv + 1, bound="polygons with at most %d vertices (unwind %d, unwinding assertions on)" % (nv, nv + 1),
                  slices=[S["inPoly"]], domain="all doubles; orientation abstracted by the uninterpreted ORI", expect=[r'h_inPoly_bounded\.assertion', r'unwind']))
    ipt_cxx = (ptu_head + "namespace Avoid {\n" + S["codes"].text + "\n" + S["sip"].text + "\n" + S["rip"].text + "\n}\n"
               'extern "C" int w_segIntPoint(void *a1, void *a2, void *b1, void *b2, double *x, double *y) { return Avoid::segmentIntersectPoint('
               '*(const Avoid::Point *)a1, *(const Avoid::Point *)a2, *(const Avoid::Point *)b1, *(const Avoid::Point *)b2, x, y); }\n'
               'extern "C" int w_rayIntPoint(void *a1, void *a2, void *b1, void *b2, double *x, double *y) { return Avoid::rayIntersectPoint('
               '*(const Avoid::Point *)a1, *(const Avoid::Point *)a2, *(const Avoid::Point *)b1, *(const Avoid::Point *)b2, x, y); }\n')
    g8 = 1 if tier == "quick" else 2
    for lo in range(g8 + 1):     # case split on the first x-coordinate: one job per value, run in parallel
        js.append(Job("segmentIntersectPoint_grid_a1x%d" % lo, "D", spec, "h_segIntPoint", cxx=ipt_cxx, enforce="w_segIntPoint",
                      defines=["JOB_segIntPoint", "GRID=%d" % g8, "SPLIT_LO=%d" % lo, "SPLIT_HI=%d" % lo],
                      slices=[S["sip"]], domain="bit-precise IEEE doubles, every coordinate an integer in [0,%d] (8 coordinates), a1.x = %d; return code only" % (g8, lo),
                      expect=exp_post, timeout=1500, flags=["--sat-solver", "cadical"], backend="sat:cadical"))
    js.append(Job("rayIntersectPoint_grid", "D", spec, "h_rayIntPoint", cxx=ipt_cxx, enforce="w_rayIntPoint", defines=["JOB_rayIntPoint", "GRID=%d" % g8],
                  slices=[S["rip"]], domain="bit-precise IEEE doubles, every coordinate an integer in [0,%d] (8 coordinates); return code only" % g8,
                  expect=exp_post, timeout=1500, flags=["--sat-solver", "cadical"], backend="sat:cadical"))
    # inPolyGen: bounded; `const PolygonInterface&` parameter retyped `const Polygon&` (the abstract interface has virtual functions the front end
    # cannot take); the local copy `Polygon poly = argpoly;` then uses the bounded stub vector's deep copy
    ipg_text = subst(S["inPolyGen"], [(r'const PolygonInterface& argpoly', 'const Polygon& argpoly', 1)])
    ipg_cxx = (ptu_head + 'extern "C" void *malloc(size_t);\n'
               "namespace Avoid {\nPolygon::Polygon() { }\n"
               "// shim for the implicit copy constructor: deep copy of the vertex vector (the function shifts its private copy in place)\n"
               "Polygon::Polygon(const Polygon& other) { _id = other._id; ps._n = other.ps._n; ps._cap = other.ps._n + 1;\n"
               "  ps._d = (Point *)malloc(sizeof(Point) * (other.ps._n + 1)); for (size_t i = 0; i < other.ps._n; i++) ps._d[i] = other.ps._d[i]; }\n" +
               S["psize"].text + "\n" + ipg_text + "\n}\n"
               'extern "C" bool w_inPolyGen(void *poly, void *q) { return Avoid::inPolyGen(*(const Avoid::Polygon *)poly, *(const Avoid::Point *)q); }\n')
    gq = 2 if tier == "quick" else 3
    for shape, nm in ((3, "triangles"), (4, "rectangles")):
        js.append(Job("inPolyGen_" + nm, "B", spec, "h_inPolyGen", cxx=ipg_cxx, defines=["JOB_inPolyGen", "SHAPE=%d" % shape, "GRID=%d" % gq],
                      unwind=6, stub_variant="bounded", flags=["--sat-solver", "cadical", "--object-bits", "12", "--no-malloc-may-fail"], backend="sat:cadical", timeout=1500,
                      bound="%s only (n = %d vertices), integer coordinates in [0,%d]; unwind 6 with unwinding assertions" % (nm, shape, gq),
                      slices=[S["inPolyGen"]], domain="bit-precise IEEE doubles; every %s on the grid, every query point on the grid" %
                                                       ("non-degenerate triangle (both orientations)" if shape == 3 else "axis-parallel rectangle with positive area (both orientations)"),
                      expect=[r'h_inPolyGen\.assertion']))
    for j in js:
        j.replay = replay_c16
    # ---------------- libvpsc/linesegment.h LineSegment::Intersect: classification (parallel / coincident / not intersecting / intersecting) against exact
    #                  integer arithmetic on a small grid, zero-length segments included; case split on the first coordinate
    LSH = "libvpsc/linesegment.h"
    lsv = slice_block(LSH, r'^class Vector\n\{', "linesegment::Vector")
    lsl = slice_block(LSH, r'^class LineSegment\n\{', "linesegment::LineSegment (with Intersect)")
    ls_cxx = ("#include <verif_base.h>\nnamespace linesegment {\n" + lsv.text + ";\n" + lsl.text + ";\n}\n"
              'extern "C" int w_ls_intersect(double x1, double y1, double x2, double y2, double x3, double y3, double x4, double y4) {\n'
              "  linesegment::LineSegment a(linesegment::Vector(x1, y1), linesegment::Vector(x2, y2)), b(linesegment::Vector(x3, y3), linesegment::Vector(x4, y4));\n"
              "  linesegment::Vector p; return (int)a.Intersect(b, p); }\n")
    lgrid = 2 if tier == "quick" else 3
    for x1 in range(lgrid + 1):
        js.append(Job("linesegment_Intersect_grid_x%d" % x1, "D", spec, "h_ls_intersect", cxx=ls_cxx, defines=["JOB_ls_intersect", "LS_X1=%d" % x1, "LS_GRID=%d" % lgrid],
                      slices=[lsv, lsl], flags=["--sat-solver", "cadical"], backend="sat:cadical", timeout=900, replay=replay_c16,
                      domain="bit-precise IEEE; integer coordinates in [0,%d] with the first x-coordinate fixed to %d; zero-length segments included" % (lgrid, x1),
                      expect=[r'h_ls_intersect\.assertion']))
    return js


LEVEL = "proof"
TRUSTED = [
    "cbmc/goto-cc/goto-instrument 6.11.0; MiniSat and CaDiCaL back ends (bit-precise IEEE-754 semantics of +,-,*,/ and comparisons)",
    "paper composition of the two layers: a caller theorem over the uninterpreted ORI (or over the ghost cell verif_gdir in inPoly) holds for every interpretation, hence for the "
    "exact orientation the leaf jobs establish on the integer grid",
    "extraction: verbatim function text from cola/libavoid/geometry.h, geometry.cpp, geomtypes.cpp; substitutions: std::numeric_limits<double>::epsilon() -> DBL_EPSILON; "
    "COLA_ASSERT -> __CPROVER_assert; inPoly placed in an extern \"C\" block (symbol without commas for the loop contract); inPolyGen's parameter type "
    "const PolygonInterface& -> const Polygon& and an explicit deep-copy shim for Polygon's implicit copy constructor",
    "prelude/avoid_geomtypes.h, prelude/avoid_polygon.h (layout cross-checked against the real header on every run); stub std::vector",
]
ASSUMPTIONS = [
    "class D jobs are complete proofs over the stated finite domain (integer coordinates in a small grid), not over all 'small integers'; the grid side is limited by solver time for "
    "floating-point multiplication and division (8-coordinate functions: grid {0,1} quick, {0,1,2} thorough)",
    "inPoly: the universally quantified direction (reported inside => every edge condition) is unbounded; the converse is the bounded job inPoly_bounded (n <= 4)",
    "inPolyGen: bounded stand-in -- non-degenerate triangles and axis-parallel rectangles on the grid only; general/self-intersecting polygons are not covered",
    "the coordinates returned by segmentIntersectPoint/rayIntersectPoint are not claimed (floating-point division accuracy); only the return code",
    "pointOnLine/inBetween at the segment's end points: unconstrained (code excludes them, comment says closed; the property does not choose)",
]
EXPLANATION = ("Contracts on the real libavoid geometry predicates. Leaf layer: vecDir, colinear, pointOnLine, inBetween, segmentIntersectPoint and rayIntersectPoint return codes equal "
               "the exact integer oracle bit-precisely on an integer grid. Caller layer: segmentIntersect, segmentShapeIntersect and inPoly (loop contract, any polygon size) equal their "
               "textbook definitions over an uninterpreted orientation for ALL doubles (segmentShapeIntersect: a crossing blocks; an end point on the half-open shape edge (s1,s2] with the other end off the edge's line is a contact, the first remembered and let through, a later one blocking; anything else does neither); Point::operator==/!=; symmetry lemmas; bounded stand-ins for inPoly's converse and inPolyGen.")
