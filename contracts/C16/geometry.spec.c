/* C16: libavoid geometry predicates agree with exact arithmetic.
 *
 * One C TU holds every contract; each job enforces one wrapper (w_*) against the real body and
 * replaces callees by their contracts (DESIGN.md 5/C16).  Selected by -DJOB_<name>.
 *
 * Layers:
 *   leaf   (class D): real vecDir / 6-coordinate predicates, bit-precise IEEE, integer-valued
 *                     coordinates in [0,GRID]; oracle = 64-bit integer cross/dot products.
 *   caller (class U): all doubles; vecDir replaced by a contract over the UNINTERPRETED
 *                     orientation ORI(); each predicate equals its textbook definition over ORI.
 *                     A theorem over an uninterpreted symbol holds for every interpretation, in
 *                     particular for the exact one the leaf establishes on the integer domain.
 */
#define PACKED __attribute__((packed))   /* CBMC's C++ front end lays classes out without padding */
struct PACKED Point { double x; double y; unsigned int id; unsigned short vn; };
struct PACKED vec { void *d; size_t n; size_t cap; };
struct PACKED Polygon { void *vptr; int _id; struct vec ps; struct vec ts; struct vec checkpointsOnRoute; };
#define P(p) ((struct Point *)(p))
#define FRESH_PT(p) __CPROVER_is_fresh(p, sizeof(struct Point))

#ifndef GRID
#define GRID 5
#endif
/* integer-valued in [0,GRID] */
#define ONGRID1(v) ((v) >= 0.0 && (v) <= (double)GRID && (v) == (double)(long long)(v))
#define ONGRID(p) (ONGRID1(P(p)->x) && ONGRID1(P(p)->y))
#define IX(p) ((long long)P(p)->x)
#define IY(p) ((long long)P(p)->y)
/* exact oracle: twice the signed area of (a,b,c) */
#define EXCROSS(a, b, c) ((IX(b) - IX(a)) * (IY(c) - IY(a)) - (IX(c) - IX(a)) * (IY(b) - IY(a)))
#define SGNLL(v) ((v) > 0 ? 1 : ((v) < 0 ? -1 : 0))
#define EXORI(a, b, c) SGNLL(EXCROSS(a, b, c))
#define MINLL(u, v) ((u) < (v) ? (u) : (v))
#define MAXLL(u, v) ((u) < (v) ? (v) : (u))
/* c on the closed segment ab: collinear and inside the bounding box */
#define EX_ONCLOSED(a, b, c) (EXCROSS(a, b, c) == 0 && MINLL(IX(a), IX(b)) <= IX(c) && IX(c) <= MAXLL(IX(a), IX(b)) && \
                              MINLL(IY(a), IY(b)) <= IY(c) && IY(c) <= MAXLL(IY(a), IY(b)))
#define EX_SAMEPT(a, b) (IX(a) == IX(b) && IY(a) == IY(b))
#define EX_STRICTLY_INSIDE(a, b, c) (EX_ONCLOSED(a, b, c) && !EX_SAMEPT(c, a) && !EX_SAMEPT(c, b))

/* uninterpreted orientation of c relative to directed line ab, at tolerance t */
int __CPROVER_uninterpreted_ori(double, double, double, double, double, double, double);
#define ORI7(a, b, c, t) __CPROVER_uninterpreted_ori(P(a)->x, P(a)->y, P(b)->x, P(b)->y, P(c)->x, P(c)->y, (t))
#define ORI(a, b, c) ORI7(a, b, c, 0.0)
/* textbook proper crossing of segments ab and cd */
/* (written as a sign test, not a product: no multiplication, no overflow side conditions) */
#define OPPOSITE(u, v) (((u) < 0 && (v) > 0) || ((u) > 0 && (v) < 0))
#define PROPER(a, b, c, d) (OPPOSITE(ORI(a, b, c), ORI(a, b, d)) && OPPOSITE(ORI(c, d, a), ORI(c, d, b)))

/* ------------------------------------------------------------------ vecDir */
#if defined(JOB_vecDir_grid)
/* leaf: vecDir == exact orientation sign on the integer grid */
int w_vecDir(void *a, void *b, void *c, double maybeZero)
__CPROVER_requires(FRESH_PT(a) && FRESH_PT(b) && FRESH_PT(c))
__CPROVER_requires(ONGRID(a) && ONGRID(b) && ONGRID(c))
__CPROVER_requires(maybeZero == 0.0)
#ifdef SPLIT_LO
__CPROVER_requires(P(a)->x >= (double)SPLIT_LO && P(a)->x <= (double)SPLIT_HI)
#endif
__CPROVER_ensures(__CPROVER_return_value == EXORI(a, b, c))
__CPROVER_assigns()
;
void h_vecDir(void) { void *a, *b, *c; double t; w_vecDir(a, b, c, t); VERIF_CANARY; }

#elif defined(JOB_vecDir_any)
/* all doubles: range, frame, the function's own assertion (maybeZero >= 0 is its stated precondition) */
int w_vecDir(void *a, void *b, void *c, double maybeZero)
__CPROVER_requires(FRESH_PT(a) && FRESH_PT(b) && FRESH_PT(c))
__CPROVER_requires(maybeZero >= 0.0)
__CPROVER_ensures(__CPROVER_return_value >= -1 && __CPROVER_return_value <= 1)
__CPROVER_assigns()
;
void h_vecDir(void) { void *a, *b, *c; double t; w_vecDir(a, b, c, t); VERIF_CANARY; }

#elif defined(JOB_vecDir_lemmas)
/* leaf lemmas used by the caller layer, proved on the real body:
 *  L1 (all doubles)   zero at tolerance 0  ==>  zero at every tolerance >= 0
 *  L2 (integer grid)  antisymmetry  vecDir(a,b,c) == -vecDir(b,a,c)  and cyclic invariance */
int w_vecDir(void *a, void *b, void *c, double maybeZero);
void h_vecDir_tol(void)
{
    struct Point a, b, c; double t;
    __CPROVER_assume(t >= 0.0);
    int r0 = w_vecDir(&a, &b, &c, 0.0);
    int r1 = w_vecDir(&a, &b, &c, t);
    __CPROVER_assert(!(r0 == 0) || r1 == 0, "LEMMA vecDir: zero at tolerance 0 implies zero at any tolerance >= 0");
    VERIF_CANARY;
}
#elif defined(JOB_vecDir_sym)
int w_vecDir(void *a, void *b, void *c, double maybeZero);
void h_vecDir_sym(void)
{
    struct Point a, b, c;
    __CPROVER_assume(ONGRID(&a) && ONGRID(&b) && ONGRID(&c));
    int r0 = w_vecDir(&a, &b, &c, 0.0);
    int r1 = w_vecDir(&b, &a, &c, 0.0);
    int r2 = w_vecDir(&b, &c, &a, 0.0);
    __CPROVER_assert(r1 == -r0, "LEMMA vecDir antisymmetric under swapping a and b (integer grid)");
    __CPROVER_assert(r2 == r0, "LEMMA vecDir invariant under cyclic rotation of its arguments (integer grid)");
    VERIF_CANARY;
}
#endif

/* callee contract of vecDir for the caller layer (never enforced here; enforced by the leaf jobs) */
#if defined(CALLER_LAYER)
int w_vecDir(void *a, void *b, void *c, double maybeZero)
__CPROVER_requires(maybeZero >= 0.0)
__CPROVER_ensures(__CPROVER_return_value == ORI7(a, b, c, maybeZero))
__CPROVER_ensures(__CPROVER_return_value >= -1 && __CPROVER_return_value <= 1)
__CPROVER_assigns()
;
#endif

/* ------------------------------------------------------ 6-coordinate predicates, direct on the grid */
#if defined(JOB_colinear_grid)
_Bool w_colinear(void *a, void *b, void *c, double tolerance)
__CPROVER_requires(FRESH_PT(a) && FRESH_PT(b) && FRESH_PT(c))
__CPROVER_requires(ONGRID(a) && ONGRID(b) && ONGRID(c))
#ifdef SPLIT_LO
__CPROVER_requires(P(a)->x >= (double)SPLIT_LO && P(a)->x <= (double)SPLIT_HI)
#endif
__CPROVER_requires(tolerance == 0.0)
__CPROVER_ensures(__CPROVER_return_value == (EXCROSS(a, b, c) == 0))
__CPROVER_assigns()
;
void h_colinear(void) { void *a, *b, *c; double t; w_colinear(a, b, c, t); VERIF_CANARY; }

#elif defined(JOB_pointOnLine_grid)
/* c strictly inside ab => true; c not on the closed segment => false; c at an end point: the code
 * excludes it, its comment says "closed", the property does not choose => unconstrained. */
_Bool w_pointOnLine(void *a, void *b, void *c, double tolerance)
__CPROVER_requires(FRESH_PT(a) && FRESH_PT(b) && FRESH_PT(c))
__CPROVER_requires(ONGRID(a) && ONGRID(b) && ONGRID(c))
#ifdef SPLIT_LO
__CPROVER_requires(P(a)->x >= (double)SPLIT_LO && P(a)->x <= (double)SPLIT_HI)
#endif
__CPROVER_requires(tolerance == 0.0)
__CPROVER_ensures(EX_STRICTLY_INSIDE(a, b, c) ==> __CPROVER_return_value)
__CPROVER_ensures(!EX_ONCLOSED(a, b, c) ==> !__CPROVER_return_value)
__CPROVER_assigns()
;
void h_pointOnLine(void) { void *a, *b, *c; double t; w_pointOnLine(a, b, c, t); VERIF_CANARY; }

#elif defined(JOB_inBetween_grid)
/* precondition: the points are collinear (the function's own COLA_ASSERT, which must then hold) */
_Bool w_inBetween(void *a, void *b, void *c)
__CPROVER_requires(FRESH_PT(a) && FRESH_PT(b) && FRESH_PT(c))
__CPROVER_requires(ONGRID(a) && ONGRID(b) && ONGRID(c))
#ifdef SPLIT_LO
__CPROVER_requires(P(a)->x >= (double)SPLIT_LO && P(a)->x <= (double)SPLIT_HI)
#endif
__CPROVER_requires(EXCROSS(a, b, c) == 0)
__CPROVER_ensures(EX_STRICTLY_INSIDE(a, b, c) ==> __CPROVER_return_value)
__CPROVER_ensures(!EX_ONCLOSED(a, b, c) ==> !__CPROVER_return_value)
__CPROVER_assigns()
;
void h_inBetween(void) { void *a, *b, *c; w_inBetween(a, b, c); VERIF_CANARY; }
#endif

/* ------------------------------------------------------ Point::operator== / != (all doubles) */
#if defined(JOB_point_eq)
_Bool w_point_eq(void *a, void *b)
__CPROVER_requires(FRESH_PT(a) && FRESH_PT(b))
__CPROVER_ensures(__CPROVER_return_value == (P(a)->x == P(b)->x && P(a)->y == P(b)->y))
__CPROVER_assigns()
;
_Bool w_point_ne(void *a, void *b)
__CPROVER_requires(FRESH_PT(a) && FRESH_PT(b))
__CPROVER_ensures(__CPROVER_return_value == !(P(a)->x == P(b)->x && P(a)->y == P(b)->y))
__CPROVER_assigns()
;
void h_point_eq(void) { void *a, *b; w_point_eq(a, b); VERIF_CANARY; }
void h_point_ne(void) { void *a, *b; w_point_ne(a, b); VERIF_CANARY; }
#endif

/* ------------------------------------------------------ caller layer: segmentIntersect */
#if defined(JOB_segmentIntersect) || defined(JOB_segmentShapeIntersect)
_Bool w_segmentIntersect(void *a, void *b, void *c, void *d)
#if defined(JOB_segmentIntersect)
__CPROVER_requires(FRESH_PT(a) && FRESH_PT(b) && FRESH_PT(c) && FRESH_PT(d))
#endif
__CPROVER_ensures(__CPROVER_return_value == PROPER(a, b, c, d))
__CPROVER_assigns()
;
#endif
#if defined(JOB_segmentIntersect)
void h_segmentIntersect(void) { void *a, *b, *c, *d; w_segmentIntersect(a, b, c, d); VERIF_CANARY; }
#endif

/* ------------------------------------------------------ caller layer: segmentShapeIntersect */
#if defined(JOB_segmentShapeIntersect)
/* pointOnLine abstracted by an uninterpreted predicate ONL (its meaning is fixed by the grid job above) */
_Bool __CPROVER_uninterpreted_onl(double, double, double, double, double, double, double);
#define ONL(a, b, c) __CPROVER_uninterpreted_onl(P(a)->x, P(a)->y, P(b)->x, P(b)->y, P(c)->x, P(c)->y, 0.0)
_Bool w_pointOnLine(void *a, void *b, void *c, double tolerance)
__CPROVER_requires(tolerance == 0.0)
__CPROVER_ensures(__CPROVER_return_value == ONL(a, b, c))
__CPROVER_assigns()
;
#define SAMEPT(a, b) (P(a)->x == P(b)->x && P(a)->y == P(b)->y)
/* "the segments have no common point" in terms of the callee abstractions */
#define NOCOMMON(e1, e2, s1, s2) (!PROPER(e1, e2, s1, s2) && !ONL(s1, s2, e1) && !ONL(s1, s2, e2) && \
                                  !SAMEPT(s2, e1) && !SAMEPT(s2, e2))
_Bool w_segmentShapeIntersect(void *e1, void *e2, void *s1, void *s2, _Bool *seen)
__CPROVER_requires(FRESH_PT(e1) && FRESH_PT(e2) && FRESH_PT(s1) && FRESH_PT(s2))
__CPROVER_requires(__CPROVER_is_fresh(seen, sizeof(_Bool)))
/* a proper crossing always blocks */
__CPROVER_ensures(PROPER(e1, e2, s1, s2) ==> __CPROVER_return_value)
/* segments without a common point never block and leave the flag alone */
__CPROVER_ensures(NOCOMMON(e1, e2, s1, s2) ==> (!__CPROVER_return_value && *seen == __CPROVER_old(*seen)))
/* the flag is monotone */
__CPROVER_ensures(__CPROVER_old(*seen) ==> *seen)
/* blocking without a proper crossing needs an end-point contact seen before */
__CPROVER_ensures((__CPROVER_return_value && !PROPER(e1, e2, s1, s2)) ==> __CPROVER_old(*seen))
/* an end point of e on the HALF-OPEN shape edge (s1, s2] -- open at s1, closed at the vertex s2, so that going round a polygon every vertex belongs to
 * exactly one edge -- with the other end point off the edge's line is a contact: the first one is remembered and let through, a later one blocks */
#define ON_HALFOPEN(s1, s2, e) (SAMEPT(s2, e) || ONL(s1, s2, e))
#define CONTACT(e1, e2, s1, s2) ((ON_HALFOPEN(s1, s2, e1) && ORI(s1, s2, e2) != 0) || (ON_HALFOPEN(s1, s2, e2) && ORI(s1, s2, e1) != 0))
__CPROVER_ensures((!PROPER(e1, e2, s1, s2) && CONTACT(e1, e2, s1, s2)) ==> (((__CPROVER_return_value != 0) == (__CPROVER_old(*seen) != 0)) && *seen))
/* and anything that is neither a crossing nor such a contact (e.g. e running along the edge's line) neither blocks nor is remembered */
__CPROVER_ensures((!PROPER(e1, e2, s1, s2) && !CONTACT(e1, e2, s1, s2)) ==> (!__CPROVER_return_value && *seen == __CPROVER_old(*seen)))
__CPROVER_assigns(*seen)
;
void h_segmentShapeIntersect(void) { void *e1, *e2, *s1, *s2; _Bool *seen; w_segmentShapeIntersect(e1, e2, s1, s2, seen); VERIF_CANARY; }
#endif

/* ------------------------------------------------------ symmetry lemmas over the contracts */
#if defined(JOB_symmetry_lemmas)
/* Over the contract formula PROPER and the leaf facts (antisymmetry, proved on the grid by
 * vecDir_sym): swapping the two segments, or reversing either one, does not change the answer. */
void h_symmetry(void)
{
    struct Point a, b, c, d;
    /* hypotheses = instances of the leaf lemma LEMMA-antisymmetry */
    __CPROVER_assume(ORI(&a, &b, &c) >= -1 && ORI(&a, &b, &c) <= 1 && ORI(&a, &b, &d) >= -1 && ORI(&a, &b, &d) <= 1);
    __CPROVER_assume(ORI(&c, &d, &a) >= -1 && ORI(&c, &d, &a) <= 1 && ORI(&c, &d, &b) >= -1 && ORI(&c, &d, &b) <= 1);
    __CPROVER_assume(ORI(&b, &a, &c) == -ORI(&a, &b, &c) && ORI(&b, &a, &d) == -ORI(&a, &b, &d));
    __CPROVER_assume(ORI(&d, &c, &a) == -ORI(&c, &d, &a) && ORI(&d, &c, &b) == -ORI(&c, &d, &b));
    _Bool s = PROPER(&a, &b, &c, &d);
    __CPROVER_assert(s == PROPER(&c, &d, &a, &b), "LEMMA segmentIntersect symmetric under swapping the segments");
    __CPROVER_assert(s == PROPER(&b, &a, &c, &d), "LEMMA segmentIntersect symmetric under reversing the first segment");
    __CPROVER_assert(s == PROPER(&a, &b, &d, &c), "LEMMA segmentIntersect symmetric under reversing the second segment");
    VERIF_CANARY;
}
#endif

/* ------------------------------------------------------------ inPoly (convex containment), caller layer, any n */
#if defined(JOB_inPoly)
/* ghost edge: the edge ending at vertex verif_g; verif_gdir = orientation of q relative to it (what vecDir returns) */
size_t verif_g; void *verif_ga, *verif_gb; int verif_gdir;
int w_vecDir(void *a, void *b, void *c, double maybeZero)
__CPROVER_requires(maybeZero >= 0.0)
__CPROVER_ensures((a == verif_ga && b == verif_gb) ==> __CPROVER_return_value == verif_gdir)
__CPROVER_ensures(__CPROVER_return_value >= -1 && __CPROVER_return_value <= 1)
__CPROVER_assigns()
;
#define PG(p) ((struct Polygon *)(p))
#define VTX(p, i) (&((struct Point *)PG(p)->ps.d)[i])
_Bool w_inPoly(void *poly, void *q, _Bool countBorder)
__CPROVER_requires(__CPROVER_is_fresh(poly, sizeof(struct Polygon)) && FRESH_PT(q))
__CPROVER_requires(PG(poly)->ps.n >= 1 && PG(poly)->ps.n <= 1000000 && __CPROVER_is_fresh(PG(poly)->ps.d, PG(poly)->ps.n * sizeof(struct Point)))
__CPROVER_requires(verif_g < PG(poly)->ps.n && verif_gb == VTX(poly, verif_g) && verif_ga == VTX(poly, (verif_g + PG(poly)->ps.n - 1) % PG(poly)->ps.n))
__CPROVER_requires(verif_gdir >= -1 && verif_gdir <= 1)
/* for EVERY edge (the ghost edge is arbitrary): a point reported inside is not strictly outside that edge ... */
__CPROVER_ensures(__CPROVER_return_value ==> verif_gdir != -1)
/* ... and with the border excluded it is strictly inside every edge */
__CPROVER_ensures((__CPROVER_return_value && !countBorder) ==> verif_gdir == 1)
__CPROVER_assigns()
;
void h_inPoly(void) { void *poly, *q; _Bool cb; w_inPoly(poly, q, cb); VERIF_CANARY; }
#endif

/* ------------------------------------------------------------ inPoly, BOUNDED equivalence (n <= NV) */
#if defined(JOB_inPoly_bounded)
#ifndef NV
#define NV 4
#endif
_Bool w_inPoly(void *poly, void *q, _Bool countBorder);
/* in this plain harness vecDir's shim resolves to the uninterpreted orientation itself */
int w_vecDir(void *a, void *b, void *c, double maybeZero) { int r = ORI7(a, b, c, maybeZero); __CPROVER_assume(r >= -1 && r <= 1); return r; }
void h_inPoly_bounded(void)
{
    struct Polygon poly; struct Point pts[NV], q; size_t n; _Bool cb;
    __CPROVER_assume(n >= 1 && n <= NV);
    poly.ps.d = pts; poly.ps.n = n; poly.ps.cap = NV;
    _Bool r = w_inPoly(&poly, &q, cb);
    _Bool none_out = 1, all_in = 1;
    for (size_t i = 0; i < NV; i++) if (i < n) {
        int o = ORI(&pts[(i + n - 1) % n], &pts[i], &q);
        if (o == -1) none_out = 0;
        if (o != 1) all_in = 0;
    }
    __CPROVER_assert(r == (cb ? none_out : all_in), "SPEC inPoly: inside iff no edge has the point strictly outside (border counted) / every edge has it strictly inside (border excluded)");
    VERIF_CANARY;
}
#endif

/* ------------------------------------------------------------ segmentIntersectPoint / rayIntersectPoint return codes (grid) */
#if defined(JOB_segIntPoint) || defined(JOB_rayIntPoint)
#define DONT_INTERSECT 0
#define DO_INTERSECT 1
#define PARALLEL 3
#define DIRCROSS(a1, a2, b1, b2) ((IX(a2) - IX(a1)) * (IY(b2) - IY(b1)) - (IY(a2) - IY(a1)) * (IX(b2) - IX(b1)))
#define BOXES_MEET(a1, a2, b1, b2) (MAXLL(MINLL(IX(a1), IX(a2)), MINLL(IX(b1), IX(b2))) <= MINLL(MAXLL(IX(a1), IX(a2)), MAXLL(IX(b1), IX(b2))) && \
                                    MAXLL(MINLL(IY(a1), IY(a2)), MINLL(IY(b1), IY(b2))) <= MINLL(MAXLL(IY(a1), IY(a2)), MAXLL(IY(b1), IY(b2))))
#define FOUR_ON_GRID(a1, a2, b1, b2) (FRESH_PT(a1) && FRESH_PT(a2) && FRESH_PT(b1) && FRESH_PT(b2) && ONGRID(a1) && ONGRID(a2) && ONGRID(b1) && ONGRID(b2))
#endif
#if defined(JOB_segIntPoint)
int w_segIntPoint(void *a1, void *a2, void *b1, void *b2, double *x, double *y)
__CPROVER_requires(FOUR_ON_GRID(a1, a2, b1, b2))
__CPROVER_requires(__CPROVER_is_fresh(x, sizeof(double)) && __CPROVER_is_fresh(y, sizeof(double)))
#ifdef SPLIT_LO
__CPROVER_requires(P(a1)->x >= (double)SPLIT_LO && P(a1)->x <= (double)SPLIT_HI)
#endif
/* non-parallel lines: DO_INTERSECT iff the closed segments meet (each segment's end points on opposite closed sides of the other) */
__CPROVER_ensures(DIRCROSS(a1, a2, b1, b2) != 0 ==> (__CPROVER_return_value ==
    ((EXCROSS(a1, a2, b1) * EXCROSS(a1, a2, b2) <= 0 && EXCROSS(b1, b2, a1) * EXCROSS(b1, b2, a2) <= 0) ? DO_INTERSECT : DONT_INTERSECT)))
/* parallel (or zero-length) segments never report a single intersection point */
__CPROVER_ensures(DIRCROSS(a1, a2, b1, b2) == 0 ==> __CPROVER_return_value != DO_INTERSECT)
__CPROVER_ensures((DIRCROSS(a1, a2, b1, b2) == 0 && __CPROVER_return_value == PARALLEL) ==>
    (EXCROSS(a1, a2, b1) == 0 && EXCROSS(a1, a2, b2) == 0 && EXCROSS(b1, b2, a1) == 0 && EXCROSS(b1, b2, a2) == 0 && BOXES_MEET(a1, a2, b1, b2)))
__CPROVER_ensures((DIRCROSS(a1, a2, b1, b2) == 0 && !(EXCROSS(a1, a2, b1) == 0 && EXCROSS(b1, b2, a1) == 0 && EXCROSS(a1, a2, b2) == 0 && EXCROSS(b1, b2, a2) == 0)) ==>
    __CPROVER_return_value == DONT_INTERSECT)
__CPROVER_ensures(__CPROVER_return_value == DONT_INTERSECT || __CPROVER_return_value == DO_INTERSECT || __CPROVER_return_value == PARALLEL)
__CPROVER_assigns(*x, *y)
;
void h_segIntPoint(void) { void *a1, *a2, *b1, *b2; double *x, *y; w_segIntPoint(a1, a2, b1, b2, x, y); VERIF_CANARY; }
#endif
#if defined(JOB_rayIntPoint)
int w_rayIntPoint(void *a1, void *a2, void *b1, void *b2, double *x, double *y)
__CPROVER_requires(FOUR_ON_GRID(a1, a2, b1, b2))
__CPROVER_requires(__CPROVER_is_fresh(x, sizeof(double)) && __CPROVER_is_fresh(y, sizeof(double)))
/* the two lines have a unique common point iff their directions are not parallel */
__CPROVER_ensures(__CPROVER_return_value == (DIRCROSS(a1, a2, b1, b2) == 0 ? PARALLEL : DO_INTERSECT))
__CPROVER_assigns(*x, *y)
;
void h_rayIntPoint(void) { void *a1, *a2, *b1, *b2; double *x, *y; w_rayIntPoint(a1, a2, b1, b2, x, y); VERIF_CANARY; }
#endif

/* ------------------------------------------------------------ inPolyGen, BOUNDED: triangles and axis-parallel rectangles on the grid */
#if defined(JOB_inPolyGen)
_Bool w_inPolyGen(void *poly, void *q);
void h_inPolyGen(void)
{
    struct Polygon poly; struct Point pts[4], q;
    __CPROVER_assume(ONGRID(&q));
#if SHAPE == 3
    /* every non-degenerate triangle, both orientations */
    __CPROVER_assume(ONGRID(&pts[0]) && ONGRID(&pts[1]) && ONGRID(&pts[2]) && EXCROSS(&pts[0], &pts[1], &pts[2]) != 0);
    poly.ps.n = 3;
    long long o0 = EXCROSS(&pts[0], &pts[1], &q), o1 = EXCROSS(&pts[1], &pts[2], &q), o2 = EXCROSS(&pts[2], &pts[0], &q);
    _Bool inside = (o0 >= 0 && o1 >= 0 && o2 >= 0) || (o0 <= 0 && o1 <= 0 && o2 <= 0);     /* closed triangle */
#else
    /* every axis-parallel rectangle with positive area, both orientations */
    double x0, x1, y0, y1; _Bool flip;
    __CPROVER_assume(ONGRID1(x0) && ONGRID1(x1) && ONGRID1(y0) && ONGRID1(y1) && x0 < x1 && y0 < y1);
    pts[0].x = x0; pts[0].y = y0; pts[2].x = x1; pts[2].y = y1;
    pts[1].x = flip ? x0 : x1; pts[1].y = flip ? y1 : y0; pts[3].x = flip ? x1 : x0; pts[3].y = flip ? y0 : y1;
    poly.ps.n = 4;
    _Bool inside = x0 <= q.x && q.x <= x1 && y0 <= q.y && q.y <= y1;                          /* closed rectangle */
#endif
    poly.ps.d = pts; poly.ps.cap = 4;
    _Bool r = w_inPolyGen(&poly, &q);
    __CPROVER_assert(r == inside, "SPEC inPolyGen: a point is reported inside iff it lies in the closed polygon (interior, edges and vertices)");
    VERIF_CANARY;
}
#endif

/* ------------------------------------------------------------ linesegment::LineSegment::Intersect (libvpsc/linesegment.h), used by Rectangle::lineIntersections */
#if defined(JOB_ls_intersect)
int w_ls_intersect(double x1, double y1, double x2, double y2, double x3, double y3, double x4, double y4);
static _Bool in01(long n, long d) { return d > 0 ? (0 <= n && n <= d) : (0 >= n && n >= d); }
void h_ls_intersect(void)
{
  int c[8];
  for (int k = 0; k < 8; ++k) __CPROVER_assume(c[k] >= 0 && c[k] <= LS_GRID);
  __CPROVER_assume(c[0] == LS_X1);
  int r = w_ls_intersect(c[0], c[1], c[2], c[3], c[4], c[5], c[6], c[7]);
  long dx1 = c[2] - c[0], dy1 = c[3] - c[1], dx2 = c[6] - c[4], dy2 = c[7] - c[5];
  long denom = dy2 * dx1 - dy1 * dx2, na = dx2 * (c[1] - c[5]) - dy2 * (c[0] - c[4]), nb = dx1 * (c[1] - c[5]) - dy1 * (c[0] - c[4]);
  /* PARALLEL 0, COINCIDENT 1, NOT_INTERSECTING 2, INTERSECTING 3 */
  int want = denom == 0 ? ((na == 0 && nb == 0) ? 1 : 0) : ((in01(na, denom) && in01(nb, denom)) ? 3 : 2);
  __CPROVER_assert(r == want, "SPEC LineSegment::Intersect classifies as exact integer arithmetic does (zero-length segments included)");
  VERIF_CANARY;
}
#endif
