/* Common definitions for every contract TU (C, compiled by goto-cc). */
#ifndef VERIF_SPEC_H
#define VERIF_SPEC_H
typedef unsigned long size_t;
/* vacuity canary: must be reachable, i.e. this assertion must FAIL (tools/vf.py checks that) */
#define VERIF_CANARY __CPROVER_assert(0, "CANARY reachable after the call")
/* spec-level assertions are counted as contract obligations when their text starts with SPEC/LEMMA */
#define SPEC_ASSERT(e, msg) __CPROVER_assert((e), "SPEC " msg)
#define IS_NAN(x) ((x) != (x))
/* equality of results that may be NaN: equal, or both NaN */
#define FEQ(a, b) ((a) == (b) || (IS_NAN(a) && IS_NAN(b)))
#define IS_FINITE(x) (!IS_NAN(x) && (x) <= 1.7976931348623157e308 && (x) >= -1.7976931348623157e308)
int verif_thrown;   /* monotone "an exception was thrown" ghost flag (DESIGN 2.5) */
#endif
