"""C10 jobs: nudging write-back keeps fixed points, route size and the channel (DESIGN.md 5/C10)."""
import os, importlib.util
from vf import *
from common import *
import layout

HERE = os.path.dirname(os.path.abspath(__file__))
OC, GT = "libavoid/orthogonal.cpp", "libavoid/geomtypes.cpp"


def _c01():
    p = os.path.join(VERIF, "contracts", "C01", "jobs.py")
    spec = importlib.util.spec_from_file_location("jobs_C01_for_C10", p)
    m = importlib.util.module_from_spec(spec)
    spec.loader.exec_module(m)
    return m


REPLAY_SRC = r'''
#include <algorithm>
#include <vector>
// Native replay for C10 write-back obligations: the REAL NudgingShiftSegment (file-local class of orthogonal.cpp, reached
// by including that translation unit) writes solver positions into a real connector's display route.
#include "libavoid/orthogonal.cpp"
#include <cstdio>
using namespace Avoid;
int main() {
  int bad = 0;
  const double FINALS[] = {-50, 0, 7, 10, 13, 500};
  for (int dim = 0; dim < 2; ++dim) for (int f = 0; f < 6; ++f) for (int fixed = 0; fixed < 2; ++fixed) {
    Router router(OrthogonalRouting);
    ConnRef *conn = new ConnRef(&router, ConnEnd(Point(0, 0)), ConnEnd(Point(40, 40)));
    Polygon route(4);
    route.ps[0] = Point(0, 0); route.ps[1] = Point(dim == 0 ? 10 : 0, dim == 0 ? 0 : 10);
    route.ps[2] = Point(dim == 0 ? 10 : 40, dim == 0 ? 40 : 10); route.ps[3] = Point(40, 40);
    conn->setFixedRoute(route);
    Polygon before = conn->displayRoute();
    NudgingShiftSegment *seg = fixed ? new NudgingShiftSegment(conn, 1, 2, dim) : new NudgingShiftSegment(conn, 1, 2, false, false, dim, 5.0, 12.0);
    seg->variable = new Variable(1, 10.0, 1.0);
    seg->variable->finalPosition = FINALS[f];
    seg->updatePositionsFromSolver(false);
    Polygon &after = conn->displayRoute();
    if (after.size() != before.size()) { printf("route size changed %zu -> %zu\n", before.size(), after.size()); bad++; }
    for (size_t i = 0; i < after.size() && i < before.size(); ++i) {
      bool indexed = (i == 1 || i == 2);
      double moved = after.ps[i][dim], other = after.ps[i][1 - dim];
      if (other != before.ps[i][1 - dim]) { printf("dim %d: other coordinate of point %zu changed\n", dim, i); bad++; }
      if ((fixed || !indexed) && moved != before.ps[i][dim]) { printf("dim %d final %g fixed %d: point %zu moved from %g to %g but must stay\n", dim, FINALS[f], fixed, i, before.ps[i][dim], moved); bad++; }
      if (!fixed && indexed && !(5.0 <= moved && moved <= 12.0)) { printf("dim %d final %g: point %zu written to %g, outside the channel [5,12]\n", dim, FINALS[f], i, moved); bad++; }
    }
    delete seg->variable; delete seg;
  }
  // overlapsWith: two connectors whose vertical segments overlap along y in (110,190) and whose shift ranges share a position
  {
    const double RANGES[4][4] = {{90, 90, 50, 90}, {90, 90, 90, 130}, {80, 100, 60, 95}, {90, 90, 90, 90}};   // {minA,maxA,minB,maxB}
    for (int k = 0; k < 4; ++k) {
      Router router(OrthogonalRouting);
      ConnRef *ca = new ConnRef(&router, ConnEnd(Point(90, 110)), ConnEnd(Point(90, 190)));
      ConnRef *cb = new ConnRef(&router, ConnEnd(Point(140, 40)), ConnEnd(Point(140, 260)));
      Polygon ra(2); ra.ps[0] = Point(90, 110); ra.ps[1] = Point(90, 190); ca->setFixedRoute(ra);
      Polygon rb(4); rb.ps[0] = Point(140, 40); rb.ps[1] = Point(90, 40); rb.ps[2] = Point(90, 260); rb.ps[3] = Point(140, 260); cb->setFixedRoute(rb);
      NudgingShiftSegment sa(ca, 0, 1, false, false, 0, RANGES[k][0], RANGES[k][1]);
      NudgingShiftSegment sb(cb, 1, 2, false, false, 0, RANGES[k][2], RANGES[k][3]);
      if (!sa.overlapsWith(&sb, 0) || !sb.overlapsWith(&sa, 0)) {
        printf("overlapsWith: spans overlap on (110,190), shift ranges [%g,%g] and [%g,%g] share a position, yet the segments are not reported as interacting\n",
               RANGES[k][0], RANGES[k][1], RANGES[k][2], RANGES[k][3]); bad++; }
    }
  }
  // regions: a straight connector along y=50 (one fixed end segment) is the only bridge between the middle segments of Z-shaped
  // connectors further left and right; whatever the order in which the connectors were created, none may stay on top of it
  for (int perm = 0; perm < 6; ++perm) {
    static const int P[6][3] = {{0,1,2},{0,2,1},{1,0,2},{1,2,0},{2,0,1},{2,1,0}};
    Router *router = new Router(OrthogonalRouting);
    router->setRoutingParameter(segmentPenalty, 50); router->setRoutingParameter(idealNudgingDistance, 4);
    Rectangle r12(Point(50, 0), Point(70, 20)), r13(Point(80, 80), Point(100, 100)), r14(Point(0, 0), Point(20, 20)), r15(Point(30, 80), Point(50, 100));
    new ShapeRef(router, r12, 12); new ShapeRef(router, r13, 13); new ShapeRef(router, r14, 14); new ShapeRef(router, r15, 15);
    for (int k = 0; k < 3; ++k) {
      int which = P[perm][k];
      if (which == 0) new ConnRef(router, ConnEnd(Point(0, 50)), ConnEnd(Point(100, 50)), 1 + k);
      else if (which == 1) new ConnRef(router, ConnEnd(Point(60, 15), ConnDirDown), ConnEnd(Point(90, 85), ConnDirUp), 1 + k);
      else new ConnRef(router, ConnEnd(Point(10, 15), ConnDirDown), ConnEnd(Point(40, 85), ConnDirUp), 1 + k);
    }
    router->processTransaction();
    if (router->existsOrthogonalSegmentOverlap()) { printf("bridge scene, creation order %d%d%d: two connectors run collinear after nudging although the channel is 60 wide and the nudging distance is 4\n", P[perm][0], P[perm][1], P[perm][2]); bad++; }
    delete router;
  }
  // a straight fixed connector crossed by the middle segments of two Z-shaped connectors that overlap it but not each other: both are moved off it
  {
    Router *router = new Router(OrthogonalRouting);
    router->setRoutingParameter(segmentPenalty, 50); router->setRoutingParameter(idealNudgingDistance, 10);
    const double bx[2] = { 0, 400 }, by[2] = { 175, 325 };
    for (int i = 0; i < 2; ++i) for (int j = 0; j < 2; ++j) { Rectangle rect(Point(bx[i] - 20, by[j] - 10), Point(bx[i] + 20, by[j] + 10)); new ShapeRef(router, rect); }
    new ConnRef(router, ConnEnd(Point(200, 100)), ConnEnd(Point(200, 400)));   // C: vertical, one fixed segment on x = 200
    new ConnRef(router, ConnEnd(Point(400, 150)), ConnEnd(Point(0, 200)));     // A: Z bend between the shapes, middle segment centred onto x = 200, y in [150,200]
    new ConnRef(router, ConnEnd(Point(400, 300)), ConnEnd(Point(0, 350)));     // B: the same further down, y in [300,350]
    router->processTransaction();
    if (router->existsOrthogonalSegmentOverlap(true)) { printf("vertical connector with two Z-bend connectors across it: a middle segment is still collinear with it after nudging\n"); bad++; }
    delete router;
  }
  // shared paths with a common end are NOT nudged apart (option off): X and Y leave one point together; Z shares no end point with them and only meets X's
  // last stretch -- Z must still be separated from both
  {
    Router *router = new Router(OrthogonalRouting);
    router->setRoutingParameter(segmentPenalty, 50); router->setRoutingParameter(idealNudgingDistance, 10);
    router->setRoutingOption(nudgeSharedPathsWithCommonEndPoint, false);
    const double R[7][4] = {{0,0,100,100},{0,120,100,180},{400,220,500,280},{400,320,500,380},{400,-180,500,-120},{240,-400,260,-380},{240,580,260,600}};
    for (int i = 0; i < 7; ++i) { Rectangle rect(Point(R[i][0], R[i][1]), Point(R[i][2], R[i][3])); new ShapeRef(router, rect, i + 1); }
    new ConnRef(router, ConnEnd(Point(100, 150), ConnDirRight), ConnEnd(Point(400, 350), ConnDirLeft), 10);   // Z
    new ConnRef(router, ConnEnd(Point(100, 50), ConnDirRight), ConnEnd(Point(400, -150), ConnDirLeft), 11);   // Y
    new ConnRef(router, ConnEnd(Point(100, 50), ConnDirRight), ConnEnd(Point(400, 250), ConnDirLeft), 12);    // X
    router->processTransaction();
    if (router->existsOrthogonalSegmentOverlap()) { printf("three connectors, two of them sharing a start point (shared paths not nudged): a connector without a common end point runs along another one\n"); bad++; }
    delete router;
  }
  // a fixed straight connector and a movable one hugging an obstacle at the same coordinate: separated in BOTH creation orders
  for (int order = 0; order < 2; ++order) for (int nd = 4; nd <= 10; nd += 6) {
    Router *router = new Router(OrthogonalRouting);
    router->setRoutingParameter(segmentPenalty, 50); router->setRoutingParameter(idealNudgingDistance, nd);
    Rectangle ob(Point(150, 70), Point(250, 130)); new ShapeRef(router, ob, 1);
    for (int k = 0; k < 2; ++k) {
      if ((k == 0) == (order == 0)) new ConnRef(router, ConnEnd(Point(120, 130)), ConnEnd(Point(280, 130)), 10 + k);    // A: straight, fixed end segment on y = 130
      else new ConnRef(router, ConnEnd(Point(100, 120)), ConnEnd(Point(300, 120)), 10 + k);                              // B: dips under the obstacle along y = 130
    }
    router->processTransaction();
    if (router->existsOrthogonalSegmentOverlap(true)) { printf("fixed connector and obstacle-hugging connector at one coordinate (creation order %d, nudging distance %d): still collinear after nudging\n", order, nd); bad++; }
    delete router;
  }
  // checkpoints stay on their routes: a connector with a checkpoint in the interior of a segment next to an S (or, mirrored, Z) bend that shares
  // its corridor with a second connector
  for (int mirror = 0; mirror < 2; ++mirror) {
    Router *router = new Router(OrthogonalRouting);
    router->setRoutingParameter(segmentPenalty, 50); router->setRoutingParameter(idealNudgingDistance, 10);
    const double CX[4] = {500, 150, 500, 150}, CY[4] = {100, 300, 200, 400};
    for (int k = 0; k < 4; ++k) { double cx = mirror ? 650.0 - CX[k] : CX[k]; Rectangle r(Point(cx - 20, CY[k] - 20), Point(cx + 20, CY[k] + 20)); new ShapeRef(router, r, 1 + k); }
    ConnDirFlags leave = mirror ? ConnDirRight : ConnDirLeft, arrive = mirror ? ConnDirLeft : ConnDirRight;
    #define MXX(x) (mirror ? 650.0 - (x) : (x))
    ConnRef *A = new ConnRef(router, ConnEnd(Point(MXX(500), 100), leave), ConnEnd(Point(MXX(150), 300), arrive), 11);
    new ConnRef(router, ConnEnd(Point(MXX(500), 200), leave), ConnEnd(Point(MXX(150), 400), arrive), 12);
    Point cp(MXX(300), 100);
    std::vector<Checkpoint> cps; cps.push_back(Checkpoint(cp, arrive, leave)); A->setRoutingCheckpoints(cps);
    router->processTransaction();
    const PolyLine& rt = A->displayRoute(); bool on = false;
    for (size_t i = 1; i < rt.size(); ++i) {
      const Point &a = rt.ps[i - 1], &b = rt.ps[i];
      if (cp.x >= std::min(a.x, b.x) - 1e-9 && cp.x <= std::max(a.x, b.x) + 1e-9 && cp.y >= std::min(a.y, b.y) - 1e-9 && cp.y <= std::max(a.y, b.y) + 1e-9) on = true;
    }
    if (!on) { printf("%s scene: after nudging the route no longer passes through its checkpoint (%g,%g):", mirror ? "mirrored (Z-bend)" : "S-bend", cp.x, cp.y);
      for (size_t i = 0; i < rt.size(); ++i) printf(" (%g,%g)", rt.ps[i].x, rt.ps[i].y); printf("\n"); bad++; }
    delete router;
  }
  if (bad) { printf("REPRODUCED: %d violation(s)\n", bad); return 1; }
  printf("not reproduced\n"); return 0;
}
'''


def replay_c10(job, obl, inputs, workdir):
    lib = build_lib("libavoid", workdir, exclude=("orthogonal.cpp",))
    rc, out = native_run(REPLAY_SRC, workdir, "replay_c10", extra=["-I", COLA], libs=[lib])
    if rc is None:
        return False, out
    return rc == 1, out


def jobs(tier):
    js = []
    c01 = _c01()
    base = "#include <verif_base.h>\n#include <algorithm>\n"
    pt_pre, poly_pre, nd_pre = prelude("avoid_geomtypes.h"), prelude("avoid_polygon.h"), prelude("avoid_nudging.h")
    enums = [slice_block("libavoid/router.h", r'^enum RoutingParameter\n\{', "enum RoutingParameter"),
             slice_block("libavoid/router.h", r'^enum RoutingOption\n\{', "enum RoutingOption")]
    nd_pre = nd_pre.replace("@ROUTER_ENUMS@", "\n".join(e.text for e in enums))
    layout.check_layout("avoid_nudging", pt_pre + poly_pre + nd_pre.replace("@NUDGE_UPDATE@", ""), ["libavoid/orthogonal.cpp"],
                        [("Avoid::NudgingShiftSegment", ["dimension", "minSpaceLimit", "maxSpaceLimit", "connRef", "variable", "indexes", "fixed",
                                                         "finalSegment", "endsInShape", "singleConnectedSegment", "checkpoints", "sBend", "zBend"]),
                         ("Avoid::Variable", ["id", "desiredPosition", "finalPosition"]),
                         ("Avoid::Polygon", ["_id", "ps", "ts", "checkpointsOnRoute"])],
                        sizes=["Avoid::NudgingShiftSegment", "Avoid::Polygon"])
    upd = slice_func(OC, r'^\s*void updatePositionsFromSolver\(const bool justUnifying\)', "NudgingShiftSegment::updatePositionsFromSolver")
    idx1 = slice_func(GT, r'^double& Point::operator\[\]\(const size_t dimension\)', "Point::operator[]")
    idx2 = slice_func(GT, r'^const double& Point::operator\[\]\(const size_t dimension\) const', "Point::operator[] const")
    # cbmc 6.11 crashes (symex_dereference) on a reference returned through `?:`; the return statement is rewritten into the
    # equivalent if/return form (must-fire, one hit per operator)
    rw = [(r'return \(\(dimension == 0\) \? x : y\);', 'if (dimension == 0) return x; return y;', 1)]
    idx_text = subst(idx1, rw) + "\n" + subst(idx2, rw)
    spec = spec_header() + rd(HERE, "nudging.spec.c")
    shim = ('extern "C" void *w_displayRoute(void *conn);\n'
            "namespace Avoid {\nPolygon& ConnRef::displayRoute(void) { return *(Polygon *)w_displayRoute((void *)this); }\n" + idx_text + "\n}\n")
    hdr, body = fragment_loop(upd, r'for \(size_t it = 0; it < indexes\.size\(\); \+\+it\)', "updatePositionsFromSolver [loop body]")
    head = fragment_between(upd, r'double newPos = variable->finalPosition;', r'for \(size_t it = 0; it < indexes\.size\(\); \+\+it\)',
                            "updatePositionsFromSolver [clamp: from `double newPos` to the loop]")

    def tu(member_text, wrappers):
        return (base + pt_pre + poly_pre + nd_pre.replace("@NUDGE_UPDATE@", member_text) + shim + wrappers)

    w_upd = 'extern "C" void w_update(void *seg) { ((Avoid::NudgingShiftSegment *)seg)->updatePositionsFromSolver(false); }\n'
    mirror = [("Avoid::NudgingShiftSegment", "struct Seg", ["dimension", "minSpaceLimit", "maxSpaceLimit", "connRef", "variable", "indexes", "fixed",
                                                            "finalSegment", "endsInShape", "singleConnectedSegment", "checkpoints", "sBend", "zBend"]),
              ("Avoid::Polygon", "struct Polygon", ["_id", "ps", "ts", "checkpointsOnRoute"]),
              ("Avoid::Point", "struct Point", ["x", "y", "id", "vn"]),
              ("Avoid::Variable", "struct AVariable", ["id", "desiredPosition", "finalPosition"])]
    js.append(c01.mirror_job(pt_pre + poly_pre + nd_pre.replace("@NUDGE_UPDATE@", ""), spec, mirror))
    js.append(Job("fixed_writes_nothing", "U", spec, "h_fixed", replay=replay_c10, cxx=tu(upd.text, w_upd), enforce="w_update", replace=["w_displayRoute"],
                  defines=["JOB_fixed"], slices=[upd], domain="every segment state with fixed == true", expect=[r'w_update\.assigns|assigns', r'unwind'],
                  unwind=1, note="the write loop is unreachable when fixed: unwound once with an unwinding assertion, which holds because the path is infeasible"))
    js.append(Job("clamp", "U", spec, "h_clamp", replay=replay_c10,
                  cxx=tu("        double verif_clamp(void)\n        {\n" + head.text + "\n            return newPos;\n        }\n",
                         'extern "C" double w_clamp(void *seg) { return ((Avoid::NudgingShiftSegment *)seg)->verif_clamp(); }\n'),
                  defines=["JOB_clamp"], slices=[upd, head], domain="all doubles that are numbers (solver position and both limits)",
                  expect=[r'h_clamp\.assertion']))
    js.append(Job("loop_body", "U", spec, "h_body", replay=replay_c10,
                  cxx=tu("        void verif_body(size_t it, double newPos)\n" + body_continue_to_return(body) + "\n",
                         'extern "C" void w_body(void *seg, size_t it, double newPos) { ((Avoid::NudgingShiftSegment *)seg)->verif_body(it, newPos); }\n'),
                  enforce="w_body", replace=["w_displayRoute"], defines=["JOB_body"], slices=[upd, body, idx1],
                  domain="one arbitrary in-range index of a route of any length (<= 10^6 points), every double as new position",
                  expect=[r'w_body\.postcondition', r'assigns']))
    nidx = 4 if tier == "quick" else 6
    npts = nidx + 1
    js.append(Job("whole_function", "B", spec, "h_whole", replay=replay_c10, cxx=tu(upd.text, w_upd), defines=["JOB_whole", "NIDX=%d" % nidx, "NPTS=%d" % npts],
                  unwind=npts + 1, flags=["--sat-solver", "cadical"], backend="sat:cadical",
                  bound="at most %d indexes into a route of at most %d points (unwind %d, unwinding assertions on)" % (nidx, npts, npts + 1),
                  slices=[upd, idx1], domain="every index pattern (duplicates allowed), fixed or not, non-empty channel interval",
                  expect=[r'h_whole\.assertion', r'unwind'], timeout=900,
                  note="displayRoute() is a body-less shim returning the harness route (plain harness, no dfcc)"))
    # ---- overlapsWith: pairs that could coincide along a positive stretch must be reported as interacting
    ow = slice_func(OC, r'^\s*bool overlapsWith\(const ShiftSegment \*rhsSuper, const size_t dim\) const', "NudgingShiftSegment::overlapsWith")
    lowc = slice_func(OC, r'^\s*const Point& lowPoint\(void\) const', "NudgingShiftSegment::lowPoint const")
    highc = slice_func(OC, r'^\s*const Point& highPoint\(void\) const', "NudgingShiftSegment::highPoint const")
    shim2 = ('extern "C" { void *w_router(void *conn); double w_routingParameter(void *r, int p); bool w_routingOption(void *r, int o); }\n'
             "namespace Avoid {\nRouter *ConnRef::router(void) const { return (Router *)w_router((void *)this); }\n"
             "double Router::routingParameter(const RoutingParameter parameter) const { return w_routingParameter((void *)this, (int)parameter); }\n"
             "bool Router::routingOption(const RoutingOption option) const { return w_routingOption((void *)this, (int)option); }\n}\n")
    js.append(Job("overlapsWith", "U", spec, "h_overlaps", replay=replay_c10,
                  cxx=tu(lowc.text + "\n" + highc.text + "\n" + ow.text + "\n",
                         shim2 + 'extern "C" bool w_overlapsWith(void *a, void *b, size_t dim) { return ((const Avoid::NudgingShiftSegment *)a)->overlapsWith('
                         '(const Avoid::ShiftSegment *)(const Avoid::NudgingShiftSegment *)b, dim); }\n'),
                  defines=["JOB_overlaps"], slices=[ow, lowc, highc], unwind=4,
                  domain="all doubles as coordinates and limits, every pair of segments of two different connectors (routes of 4 points, 1 to 3 indexes per segment: "
                         "only the first and last index are read), both dimensions; plain harness, routing options/parameters arbitrary",
                  expect=[r'h_overlaps\.assertion']))
    # ---- the region-building loop of nudgeOrthogonalRoutes: a region handed to the solver is CLOSED under "overlaps" (bounded: <= 4 segments)
    ngr = slice_func(OC, r'^void ImproveOrthogonalRoutes::nudgeOrthogonalRoutes\(size_t dimension,', "ImproveOrthogonalRoutes::nudgeOrthogonalRoutes")
    reg = fragment_between(ngr, r'ShiftSegment \*currentSegment = m_segment_list\.front\(\);', r'if \(! justUnifying\)',
                           "nudgeOrthogonalRoutes [building one region of transitively overlapping segments]")
    reg_cxx = ("#include <verif_base.h>\n#include <list>\n"
               'extern "C" bool w_overlaps(void *a, void *b, size_t dim);\n'
               "namespace Avoid {\n// stand-in for the abstract ShiftSegment: overlapsWith (virtual in the real class) forwards to the harness's relation\n"
               "class ShiftSegment { public: void *_verif_vptr; size_t dimension; double minSpaceLimit; double maxSpaceLimit;   // the real data members (scanline.h)\n"
               "    bool overlapsWith(const ShiftSegment *rhs, const size_t dim) const { return w_overlaps((void *)this, (void *)rhs, dim); } };\n"
               "struct ShiftSegmentList : std::list<ShiftSegment *> {};   // real: typedef std::list<ShiftSegment *> ShiftSegmentList; (goto-cc does not resolve ::iterator through the typedef)\n"
               "class ImproveOrthogonalRoutes { public: ShiftSegmentList m_segment_list; void verif_region(size_t dimension, ShiftSegmentList& currentRegion); };\n"
               "void ImproveOrthogonalRoutes::verif_region(size_t dimension, ShiftSegmentList& currentRegion)\n{\n" + reg.text + "\n}\n}\n"
               'extern "C" void w_region(void *self, size_t dimension, void *region) { ((Avoid::ImproveOrthogonalRoutes *)self)->verif_region(dimension, *(Avoid::ShiftSegmentList *)region); }\n')
    js.append(Job("region_closed_under_overlap", "B", spec, "h_region", cxx=reg_cxx, defines=["JOB_region"], slices=[ngr, reg], stub_variant="bounded", unwind=14,
                  flags=["--sat-solver", "cadical"], backend="sat:cadical", timeout=900,
                  bound="1 to 4 segments in the list, every symmetric overlap relation among them; all loops unwound 14 times with unwinding assertions",
                  domain="every list of up to 4 segments and every symmetric overlap relation (overlapsWith behind an arbitrary relation)",
                  expect=[r'h_region\.assertion', r'unwind'], replay=replay_c10,
                  note="std::list modelled by an array-backed stub (stubs/bounded/list); the fragment re-derives its iterator after every erase"))
    # ---- buildOrthogonalNudgingSegments: the channel limits of a middle segment -- checkpoints on the adjoining segments and the span of an S/Z bend
    #      are all respected (a limit, once imposed, is never loosened), so nudging cannot pull a neighbouring segment past its checkpoint
    bons = slice_func(OC, r'^static void buildOrthogonalNudgingSegments\(Router \*router,', "buildOrthogonalNudgingSegments")
    lim = fragment_between(bons, r'// The segment probably has space to be shifted\.\s*double minLim = -CHANNEL_MAX;', r'NudgingShiftSegment \*nss = new NudgingShiftSegment\(\*curr,\s*indexLow, indexHigh, isSBend, isZBend, dim,',
                           "buildOrthogonalNudgingSegments [channel limits of a middle segment]")
    cmax = slice_lines("libavoid/scanline.h", r'^static const double CHANNEL_MAX = \d+;', 1, "CHANNEL_MAX")
    lim_cxx = ("#include <verif_base.h>\n#include <vector>\n#include <algorithm>\n" + pt_pre + poly_pre + "namespace Avoid {\n" + cmax.text + "\n" + idx_text + "\n"
               "// the fragment's free variables become parameters, with the types they have in buildOrthogonalNudgingSegments; its results are handed out\n"
               "static void verif_limits(std::vector<Point>& nextCheckpoints, std::vector<Point>& prevCheckpoints, std::vector<Point>& checkpoints, double thisPos, size_t dim,\n"
               "        Polygon& displayRoute, size_t i, double *outMin, double *outMax, int *outS, int *outZ)\n{\n" + lim.text +
               "\n    *outMin = minLim; *outMax = maxLim; *outS = isSBend ? 1 : 0; *outZ = isZBend ? 1 : 0;\n}\n}\n"
               'extern "C" void w_limits(void *nextCp, void *prevCp, void *cp, double thisPos, size_t dim, void *route, size_t i, double *outMin, double *outMax, int *outS, int *outZ) {\n'
               "  Avoid::verif_limits(*(std::vector<Avoid::Point> *)nextCp, *(std::vector<Avoid::Point> *)prevCp, *(std::vector<Avoid::Point> *)cp, thisPos, dim, *(Avoid::Polygon *)route, i, outMin, outMax, outS, outZ); }\n")
    js.append(Job("channel_limits_respect_checkpoints_and_bends", "B", spec, "h_limits", cxx=lim_cxx, defines=["JOB_limits"], slices=[bons, lim, cmax, idx1], unwind=8,
                  flags=["--sat-solver", "cadical"], backend="sat:cadical", replay=replay_c10, timeout=600,
                  bound="at most 2 checkpoints on each adjoining segment and on the segment itself (loops unwound 8 times with unwinding assertions); all doubles that are numbers",
                  domain="every position of the segment, its neighbours and up to 2+2 checkpoints, both dimensions, with and without checkpoints on the segment itself",
                  expect=[r'h_limits\.assertion']))
    # ---- NudgingShiftSegment::fixedOrder: the tie-break of CmpLineOrder.  Its out-parameter is shared by the two calls of the comparator
    #      (`lhs->fixedOrder(oneIsFixed); rhs->fixedOrder(oneIsFixed);`), so a call may only ever SET it -- "one of the two is fixed" must not depend on the argument order
    fo = slice_func(OC, r'^\s*int fixedOrder\(bool& isFixed\) const', "NudgingShiftSegment::fixedOrder")
    fo_cxx = ("#include <verif_base.h>\n" + 'extern "C" { double w_nudgeDistance(void *seg); void *w_lowPoint(void *seg); }\n' + pt_pre + "namespace Avoid {\n" + idx_text + "\n"
              "// the data members fixedOrder reads, with their real types (ShiftSegment / NudgingShiftSegment); nudgeDistance() and lowPoint() forward to the harness\n"
              "class NudgingShiftSegment { public: size_t dimension; double minSpaceLimit; double maxSpaceLimit; bool fixed;\n"
              "    double nudgeDistance(void) const { return w_nudgeDistance((void *)this); }\n    Point& lowPoint(void) const { Point *verif_p = (Point *)w_lowPoint((void *)this); return *verif_p; }   // (goto-cc rejects the const-reference form)\n" +
              fo.text + "\n};\n}\n"
              "static Avoid::NudgingShiftSegment verif_seg; static double verif_pos[2]; static double verif_nd;\n"
              'extern "C" double w_nudgeDistance(void *seg) { return verif_nd; }\n'
              'extern "C" void *malloc(size_t);\n'
              'extern "C" void *w_lowPoint(void *seg) { Avoid::Point *p = (Avoid::Point *)malloc(sizeof(Avoid::Point)); __CPROVER_assume(p != 0); p->x = verif_pos[0]; p->y = verif_pos[1]; return p; }\n'
              'extern "C" int w_fixedOrder(unsigned long dim, double pos, double minLim, double maxLim, int fixed, double nd, int *isFixed) {\n'
              "  verif_seg.dimension = dim; verif_seg.minSpaceLimit = minLim; verif_seg.maxSpaceLimit = maxLim; verif_seg.fixed = fixed != 0; verif_nd = nd; verif_pos[dim] = pos;\n"
              "  bool f = *isFixed != 0; int r = verif_seg.fixedOrder(f); *isFixed = f ? 1 : 0; return r; }\n")
    js.append(Job("fixedOrder_only_sets_its_flag", "U", spec, "h_fixedOrder", cxx=fo_cxx, defines=["JOB_fixedOrder"], slices=[fo, idx1], replay=replay_c10,
                  flags=["--sat-solver", "cadical"], backend="sat:cadical",
                  domain="every segment state (all doubles that are numbers), both dimensions, the out-parameter set or not on entry",
                  expect=[r'h_fixedOrder\.assertion']))
    # ---- nudgeOrthogonalRoutes, inside a region: the current segment is constrained against EVERY earlier segment it overlaps (unless both are fixed),
    #      with the full nudging distance unless one of the three alignment/shared-path exemptions applies  (bounded: up to 2 earlier segments)
    _, seg_body = fragment_loop(ngr, r'for \(ShiftSegmentList::iterator currSegmentIt = currentRegion\.begin\(\);', "nudgeOrthogonalRoutes [body of the loop over a region's segments]")
    pairs = items_between(seg_body, r'channelLeftID', r'channelRightID', "nudgeOrthogonalRoutes [constraints against the earlier segments of the region]", allow_loop_break=True)
    pc_cxx = ("#include <verif_base.h>\n#include <vector>\n#include <list>\n"
              'extern "C" { int w_q(int what, void *cur, void *prev); void w_new_constraint(void *l, void *r, double gap, int eq); void w_pushed(int which, void *c); }\n'
              "namespace Avoid {\n// stand-ins: every question the fragment asks about a pair of segments goes to the harness; constructing a Constraint is recorded there\n"
              "class Variable { public: int id; };\n"
              "class Constraint { public: Constraint(Variable *l, Variable *r, double g, bool e = false) { w_new_constraint((void *)l, (void *)r, g, e ? 1 : 0); } };\n"
              "struct VerifConstraints { void push_back(Constraint *c) { w_pushed(which, (void *)c); } int which; };\n"
              "class ConnRef { public: unsigned m_id; unsigned id() const { return m_id; } };\n"
              "class UnsignedPair { public: UnsignedPair(unsigned a, unsigned b) : first(a), second(b) {} unsigned first, second; };\n"
              "class ShiftSegment { public: void *_verif_vptr; };\n"
              "class NudgingShiftSegment : public ShiftSegment { public: ConnRef *connRef; Variable *variable; bool fixed;\n"
              "    bool overlapsWith(const ShiftSegment *rhs, const size_t dim) const { return w_q(1, (void *)this, (void *)rhs) != 0; }\n"
              "    bool shouldAlignWith(const ShiftSegment *rhs, const size_t dim) const { return w_q(2, (void *)this, (void *)rhs) != 0; }\n"
              "    bool canAlignWith(const NudgingShiftSegment *rhs, const size_t dim) const { return w_q(3, (void *)this, (void *)rhs) != 0; } };\n"
              "struct VerifSharedSet { size_t count(const UnsignedPair& p) const { return w_q(4, (void *)(unsigned long)p.first, (void *)(unsigned long)p.second) != 0 ? 1 : 0; } };\n"
              "typedef std::list<ShiftSegment *> ShiftSegmentPtrList;\n"
              "static void verif_pair_constraints(NudgingShiftSegment *currSegment, std::list<ShiftSegment *>& prevVars, std::vector<Variable *>& vs, size_t index, VerifConstraints& cs, VerifConstraints& gapcs,\n"
              "        double sepDist, size_t dimension, bool nudgeSharedPathsWithCommonEnd, VerifSharedSet& m_shared_path_connectors_with_common_endpoints)\n{\n" +
              # front-end workaround: `::iterator` / `::reverse_iterator` through the typedef of a template instance is not resolved by goto-cc
              re.sub(r'\bShiftSegmentPtrList::(reverse_iterator|iterator)\b', r'std::list<ShiftSegment *>::\1', pairs.text) + "\n}\n}\n"
              "static Avoid::NudgingShiftSegment verif_cur, verif_prev[2]; static Avoid::ConnRef verif_conn[3]; static Avoid::Variable verif_var[3]; static Avoid::Variable *verif_vsd[3];\n"
              'extern "C" void w_pairs(unsigned nprev, int curFixed, int f0, int f1, double sepDist, int nudgeShared) {\n'
              "  std::list<Avoid::ShiftSegment *> prevVars; prevVars._n = 0; std::vector<Avoid::Variable *> vs; Avoid::VerifConstraints cs, gapcs; Avoid::VerifSharedSet shared; cs.which = 0; gapcs.which = 1;\n"
              "  int F[2] = {f0, f1};\n"
              "  for (unsigned k = 0; k < 3; ++k) { verif_conn[k].m_id = 10 + k; verif_var[k].id = k; verif_vsd[k] = &verif_var[k]; }\n"
              "  for (unsigned k = 0; k < 2; ++k) { verif_prev[k].connRef = &verif_conn[k]; verif_prev[k].variable = &verif_var[k]; verif_prev[k].fixed = F[k] != 0; if (k < nprev) prevVars.push_back(&verif_prev[k]); }\n"
              "  verif_cur.connRef = &verif_conn[2]; verif_cur.variable = &verif_var[2]; verif_cur.fixed = curFixed != 0; vs._d = verif_vsd; vs._n = 3; vs._cap = 3;\n"
              "  Avoid::verif_pair_constraints(&verif_cur, prevVars, vs, 2, cs, gapcs, sepDist, 0, nudgeShared != 0, shared); }\n"
              'extern "C" int verif_prev_index(void *seg) { return seg == (void *)&verif_prev[0] ? 0 : seg == (void *)&verif_prev[1] ? 1 : -1; }\n'
              'extern "C" int verif_var_index(void *v) { for (int k = 0; k < 3; ++k) if (v == (void *)&verif_var[k]) return k; return -1; }\n')
    js.append(Job("region_constrains_every_overlapping_pair", "B", spec, "h_pairs", cxx=pc_cxx, defines=["JOB_pairs"], slices=[ngr, seg_body, pairs], stub_variant="bounded", unwind=5,
                  flags=["--sat-solver", "cadical"], backend="sat:cadical", replay=replay_c10, timeout=600,
                  bound="0 to 2 earlier segments in the region (loops unwound 5 times with unwinding assertions); every answer of overlapsWith / shouldAlignWith / canAlignWith / the shared-path set per pair",
                  domain="every such region prefix; the fragment is anchored on its neighbours (the two channel-edge blocks), so a rewritten loop is still extracted",
                  expect=[r'h_pairs\.assertion']))
    # ---- buildOrthogonalNudgingOrderInfo, one pair of connectors: the pair is recorded as "shared path with a common end point" (which later turns its separation
    #      into a zero-gap equality) only on evidence from THIS pair's own crossing detection.  Loop body of the pair loop; a scalar the body uses but does not
    #      declare itself is carried state and arrives with an arbitrary value.
    bo = slice_func("libavoid/orthogonal.cpp", r'^void ImproveOrthogonalRoutes::buildOrthogonalNudgingOrderInfo\(void\)', "ImproveOrthogonalRoutes::buildOrthogonalNudgingOrderInfo")
    _, pb = fragment_loop(bo, r'for \(size_t ind2 = ind1 \+ 1; ind2 < connRefs\.size\(\); \+\+ind2\)', "buildOrthogonalNudgingOrderInfo [body of the pair loop]")
    cflags = slice_lines("libavoid/connector.h", r'^const unsigned int CROSSING_(NONE|TOUCHES|SHARES_PATH|SHARES_PATH_AT_END|SHARES_FIXED_SEGMENT) = \d+;', 5, "CROSSING_* flags")
    carried = "" if re.search(r'\bunsigned int crossingFlags\b', strip_comments(pb.text)) else ", unsigned int& crossingFlags"
    carried_call = "" if not carried else ", verif_carried_flags"
    po_cxx = ("#include <verif_base.h>\n#include <vector>\n"
              'extern "C" { unsigned w_count_for_segment(unsigned long i, int finalSegment); void w_recorded(unsigned a, unsigned b); extern unsigned verif_carried_flags; }\n'
              "namespace Avoid {\n" + cflags.text + "\nenum ConnType { ConnType_None = 0, ConnType_PolyLine = 1, ConnType_Orthogonal = 2 };\n"
              "// stand-ins: the crossing detector answers from the harness, the shared-path set records insertions there\n"
              "class ConnRef { public: unsigned m_id; int m_type; unsigned id() const { return m_id; } ConnType routingType() const { return (ConnType)m_type; } };\n"
              "class Polygon { public: size_t m_n; size_t size() const { return m_n; } };\n"
              "class UnsignedPair { public: UnsignedPair(unsigned a, unsigned b) : first(a), second(b) {} unsigned first, second; };\n"
              "struct VerifPairSet { void insert(const UnsignedPair& p) { w_recorded(p.first, p.second); } };\n"
              "struct PtOrderMap { int verif_pad; };\n"
              "class ConnectorCrossings { public: ConnectorCrossings(Polygon& poly, bool polyIsConn, Polygon& conn, ConnRef *polyConnRef = 0, ConnRef *connConnRef = 0) { crossingCount = 0; crossingFlags = 0; pointOrders = 0; }\n"
              "    void countForSegment(size_t cIndex, const bool finalSegment) { crossingFlags = w_count_for_segment(cIndex, finalSegment ? 1 : 0); crossingCount = 0; }\n"
              "    unsigned int crossingCount; unsigned int crossingFlags; PtOrderMap *pointOrders; };\n"
              "static void verif_pair_body(size_t ind1, size_t ind2, ConnRef *conn, std::vector<ConnRef *>& connRefs, std::vector<Polygon>& connRoutes, bool buildSharedPathInfo, int& crossingsN,\n"
              "        PtOrderMap& m_point_orders, VerifPairSet& m_shared_path_connectors_with_common_endpoints" + carried + ")\n" +
              body_continue_to_return(pb) + "\n}\n"
              "static Avoid::ConnRef verif_c[2]; static Avoid::ConnRef *verif_cd[2]; static Avoid::Polygon verif_r[2];\n"
              'extern "C" void w_pair(int type1, int type2, unsigned long n1, unsigned long n2, int build) {\n'
              "  verif_c[0].m_id = 11; verif_c[1].m_id = 12; verif_c[0].m_type = type1; verif_c[1].m_type = type2; verif_cd[0] = &verif_c[0]; verif_cd[1] = &verif_c[1]; verif_r[0].m_n = n1; verif_r[1].m_n = n2;\n"
              "  std::vector<Avoid::ConnRef *> connRefs; connRefs._d = verif_cd; connRefs._n = 2; connRefs._cap = 2; std::vector<Avoid::Polygon> connRoutes; connRoutes._d = verif_r; connRoutes._n = 2; connRoutes._cap = 2;\n"
              "  int crossingsN = 0; Avoid::PtOrderMap po; Avoid::VerifPairSet shared;\n"
              "  Avoid::verif_pair_body(0, 1, &verif_c[0], connRefs, connRoutes, build != 0, crossingsN, po, shared" + carried_call + "); }\n")
    js.append(Job("shared_path_recorded_only_on_this_pairs_evidence", "B", spec, "h_pair_order", cxx=po_cxx, defines=["JOB_pair_order"], slices=[bo, pb, cflags], unwind=6,
                  flags=["--sat-solver", "cadical"], backend="sat:cadical", replay=replay_c10, timeout=600,
                  bound="routes of 0 to 4 points (loops unwound 6 times with unwinding assertions); every answer of the crossing detector per segment",
                  domain="one arbitrary pair of connectors of any routing types, with and without shared-path recording; carried scalar state arbitrary",
                  expect=[r'h_pair_order\.assertion']))
    return js


LEVEL = "proof"
TRUSTED = [
    "cbmc/goto-cc/goto-instrument 6.11.0 and the MiniSat back end",
    "assumed contract of ConnRef::displayRoute(): returns the connector's display route and changes nothing (the real function lazily computes it on first use)",
    "prelude/avoid_nudging.h (layout cross-checked against libavoid/orthogonal.cpp), stub std::vector; Point::operator[]'s `return (c ? x : y)` rewritten to if/return (cbmc crash work-around)",
    "the paper step from 'loop body for one arbitrary index' + 'whole function for <= 4 indexes' to every index list (DESIGN 2.9); the whole-function job is listed under 'bounded' and not counted",
]
ASSUMPTIONS = [
    "this is the only place nudging writes a route (by inspection of orthogonal.cpp: the other writers are the router's own path-setting code)",
    "region_closed_under_overlap is a BOUNDED stand-in (at most 4 segments, std::list modelled by an array-backed stub, overlapsWith an arbitrary symmetric relation): "
    "the region handed to the solver is the reference segment's whole component under 'overlaps'",
    "channel_limits_respect_checkpoints_and_bends is a BOUNDED stand-in (up to 2 checkpoints per list; coordinates within +-CHANNEL_MAX): the limits imposed by checkpoints on "
    "the adjoining segments and by an S/Z bend's span all hold together for the limits handed to NudgingShiftSegment",
    "fixedOrder_only_sets_its_flag: NudgingShiftSegment::fixedOrder with nudgeDistance() and lowPoint() behind the harness: its out-parameter comes out as (value on entry) OR "
    "(effectively fixed), which is what lets CmpLineOrder share one flag between its two calls; CmpLineOrder itself and linesort are not under contract",
    "region_constrains_every_overlapping_pair is a BOUNDED stand-in (0 to 2 earlier segments; overlapsWith / shouldAlignWith / canAlignWith / the shared-path set answer arbitrarily per pair; "
    "Constraint is a recording stand-in): inside a region the current segment gets exactly one constraint against every earlier segment it overlaps unless both are fixed, with the full "
    "nudging distance unless an alignment/shared-path exemption applies",
    "shared_path_recorded_only_on_this_pairs_evidence is a BOUNDED stand-in (routes of up to 4 points; ConnectorCrossings, ConnRef, Polygon behind stand-ins; carried scalar state arbitrary): "
    "a pair of connectors enters the shared-path-with-common-end set exactly when recording is on and its OWN crossing detection reported CROSSING_SHARES_PATH_AT_END",
    "NOT decided (residue): which segments are built fixed, ordering of shared paths (PtOrderMap), channel computation (min/maxSpaceLimit), the channel-edge constraints and "
    "the later gap reduction inside a region, the resulting separation, checkpoints staying on routes",
]
EXPLANATION = ("Write-back kernel of nudging under contract: a fixed segment writes nothing (empty frame); the written position is the solver position clamped into "
               "[minSpaceLimit,maxSpaceLimit]; the loop body writes exactly one coordinate of one indexed route point and keeps the route's size; bounded whole-function check; bounded check that a nudging region is closed under overlap; bounded check that a region's segment is constrained against every earlier segment it overlaps.")
