/* C10: nudging write-back keeps fixed points, route size and the channel (DESIGN.md 5/C10).
 * NudgingShiftSegment::updatePositionsFromSolver is the only place where nudging writes a connector's route. */
#define PACKED __attribute__((packed))
struct PACKED vec { void *d; size_t n; size_t cap; };
struct PACKED Point { double x; double y; unsigned int id; unsigned short vn; };
struct PACKED Polygon { void *vptr; int _id; struct vec ps; struct vec ts; struct vec checkpointsOnRoute; };
struct PACKED AVariable { int id; double desiredPosition; double finalPosition; };
struct PACKED Seg { void *vptr; size_t dimension; double minSpaceLimit; double maxSpaceLimit; void *connRef; struct AVariable *variable;
                    struct vec indexes; _Bool fixed; _Bool finalSegment; _Bool endsInShape; _Bool singleConnectedSegment; struct vec checkpoints;
                    _Bool sBend; _Bool zBend; };
#define SG(p) ((struct Seg *)(p))
static unsigned long long bits(double d) { union { double d; unsigned long long u; } c; c.d = d; return c.u; }

/* the connector's display route (what ConnRef::displayRoute() returns) */
void *verif_route;

#if defined(JOB_mirror_layout)
@MIRROR_CHECKS@
#endif

#if defined(JOB_fixed) || defined(JOB_body)
/* ConnRef::displayRoute(): assumed contract -- returns the (already computed) display route and changes nothing */
void *w_displayRoute(void *conn)
__CPROVER_ensures(__CPROVER_return_value == verif_route)
__CPROVER_assigns()
;
#endif

/* ------------------------------------------------------------ a fixed segment writes nothing */
#if defined(JOB_fixed)
void w_update(void *seg)
__CPROVER_requires(__CPROVER_is_fresh(seg, sizeof(struct Seg)))
__CPROVER_requires(SG(seg)->fixed)
__CPROVER_assigns()      /* empty frame: first/last segments (built fixed) stay exactly where they are */
;
void h_fixed(void) { void *seg; w_update(seg); VERIF_CANARY; }
#endif

/* ------------------------------------------------------------ the clamp (head fragment: from `double newPos` to the loop) */
#if defined(JOB_clamp)
double w_clamp(void *seg);
void h_clamp(void)
{
    struct Seg s; struct AVariable v; s.variable = &v;
    __CPROVER_assume(!IS_NAN(v.finalPosition) && !IS_NAN(s.minSpaceLimit) && !IS_NAN(s.maxSpaceLimit));
    double r = w_clamp(&s);
    /* whenever the channel interval is non-empty the written position lies inside it ... */
    __CPROVER_assert(!(s.minSpaceLimit <= s.maxSpaceLimit) || (s.minSpaceLimit <= r && r <= s.maxSpaceLimit), "SPEC write-back position lies within [minSpaceLimit, maxSpaceLimit]");
    /* ... and is the solver's position whenever that already lies inside */
    __CPROVER_assert(!(s.minSpaceLimit <= v.finalPosition && v.finalPosition <= s.maxSpaceLimit) || r == v.finalPosition, "SPEC write-back keeps a solver position that is inside the channel");
    VERIF_CANARY;
}
#endif

/* ------------------------------------------------------------ loop body for ONE index (unbounded) */
#if defined(JOB_body)
#define RT ((struct Polygon *)verif_route)
#define PT(i) (((struct Point *)RT->ps.d)[i])
void w_body(void *seg, size_t it, double newPos)
__CPROVER_requires(__CPROVER_is_fresh(seg, sizeof(struct Seg)))
__CPROVER_requires(__CPROVER_is_fresh(verif_route, sizeof(struct Polygon)))
__CPROVER_requires(SG(seg)->dimension <= 1)
__CPROVER_requires(SG(seg)->indexes.n >= 1 && SG(seg)->indexes.n <= 1000000 && it < SG(seg)->indexes.n)
__CPROVER_requires(__CPROVER_is_fresh(SG(seg)->indexes.d, SG(seg)->indexes.n * sizeof(size_t)))
__CPROVER_requires(RT->ps.n >= 1 && RT->ps.n <= 1000000 && __CPROVER_is_fresh(RT->ps.d, RT->ps.n * sizeof(struct Point)))
/* the segment's indexes refer to points of the route */
__CPROVER_requires(((size_t *)SG(seg)->indexes.d)[it] < RT->ps.n)
/* the indexed point gets the new position in the segment's dimension ... */
__CPROVER_ensures(bits(SG(seg)->dimension == 0 ? PT(((size_t *)SG(seg)->indexes.d)[it]).x : PT(((size_t *)SG(seg)->indexes.d)[it]).y) == bits(newPos))
/* ... the route keeps its number of points (no segment is added or removed) ... */
__CPROVER_ensures(RT->ps.n == __CPROVER_old(RT->ps.n) && RT->ps.d == __CPROVER_old(RT->ps.d))
/* ... and nothing but that one coordinate may be written (frame) */
__CPROVER_assigns(SG(seg)->dimension == 0: PT(((size_t *)SG(seg)->indexes.d)[it]).x)
__CPROVER_assigns(SG(seg)->dimension != 0: PT(((size_t *)SG(seg)->indexes.d)[it]).y)
;
void h_body(void) { void *seg; size_t it; double p; w_body(seg, it, p); VERIF_CANARY; }
#endif

/* ------------------------------------------------------------ whole function, BOUNDED */
#if defined(JOB_whole)
#ifndef NIDX
#define NIDX 4
#endif
#ifndef NPTS
#define NPTS 5
#endif
void w_update(void *seg);
/* in this plain harness ConnRef::displayRoute()'s shim resolves to the harness route */
void *w_displayRoute(void *conn) { return verif_route; }
void h_whole(void)
{
    struct Seg s; struct AVariable v; struct Polygon route; struct Point pts[NPTS]; size_t idx[NIDX];
    s.variable = &v; s.connRef = 0; verif_route = &route;
    size_t ni, np; __CPROVER_assume(ni <= NIDX && np <= NPTS && s.dimension <= 1);
    for (size_t i = 0; i < NIDX; i++) __CPROVER_assume(idx[i] < np);
    s.indexes.d = idx; s.indexes.n = ni; s.indexes.cap = NIDX;
    route.ps.d = pts; route.ps.n = np; route.ps.cap = NPTS;
    __CPROVER_assume(!IS_NAN(v.finalPosition) && !IS_NAN(s.minSpaceLimit) && !IS_NAN(s.maxSpaceLimit) && s.minSpaceLimit <= s.maxSpaceLimit);
    struct Point before[NPTS]; for (size_t i = 0; i < NPTS; i++) before[i] = pts[i];
    w_update(&s);
    __CPROVER_assert(route.ps.n == np, "SPEC nudging write-back never adds or removes route points");
    for (size_t p = 0; p < NPTS; p++) {
        _Bool indexed = 0;
        for (size_t i = 0; i < NIDX; i++) if (i < ni && idx[i] == p) indexed = 1;
        double moved = s.dimension == 0 ? pts[p].x : pts[p].y, other = s.dimension == 0 ? pts[p].y : pts[p].x;
        double moved0 = s.dimension == 0 ? before[p].x : before[p].y, other0 = s.dimension == 0 ? before[p].y : before[p].x;
        __CPROVER_assert(bits(other) == bits(other0) && pts[p].id == before[p].id && pts[p].vn == before[p].vn, "SPEC write-back leaves the other coordinate and the point identity alone");
        if (s.fixed || !indexed)
            __CPROVER_assert(bits(moved) == bits(moved0), "SPEC write-back never moves a point of a fixed segment or a point it does not index");
        else
            __CPROVER_assert(s.minSpaceLimit <= moved && moved <= s.maxSpaceLimit, "SPEC every moved point stays inside the channel [minSpaceLimit, maxSpaceLimit]");
    }
    VERIF_CANARY;
}
#endif

/* ------------------------------------------------------------ overlapsWith: which segment pairs nudging must separate */
#if defined(JOB_overlaps)
/* Two segments whose spans overlap along a stretch of positive length and whose shift ranges have a common value could
 * end up collinear and overlapping: nudging has to treat them as interacting (C10: "never run collinear and overlapping
 * along a stretch of positive length when the channel is wide enough").  Everything else about the grouping heuristics
 * (touching spans, s/z-bends, shared-path penalties) is left unconstrained. */
/* plain harness (objects allocated here): the dfcc version with eight is_fresh objects produced a 71M-clause formula */
void *verif_connA, *verif_routeA, *verif_routeB;
void *w_displayRoute(void *conn) { return conn == verif_connA ? verif_routeA : verif_routeB; }
void *w_router(void *conn) { return (void *)0; }
double nondet_double(void); _Bool nondet_bool(void);
double w_routingParameter(void *r, int p) { return nondet_double(); }
_Bool w_routingOption(void *r, int o) { return nondet_bool(); }
_Bool w_overlapsWith(void *a, void *b, size_t dim);
#define NPT 4
void h_overlaps(void)
{
    struct Seg sa, sb; struct Polygon ra, rb; struct Point pa[NPT], pb[NPT]; size_t ia[3], ib[3]; char ca, cb; size_t dim;
    __CPROVER_assume(dim <= 1);
    ra.ps.d = pa; ra.ps.n = NPT; ra.ps.cap = NPT; rb.ps.d = pb; rb.ps.n = NPT; rb.ps.cap = NPT;
    verif_connA = &ca; verif_routeA = &ra; verif_routeB = &rb;
    sa.connRef = &ca; sb.connRef = &cb;                       /* two different connectors */
    size_t na, nb; __CPROVER_assume(na >= 1 && na <= 3 && nb >= 1 && nb <= 3);
    sa.indexes.d = ia; sa.indexes.n = na; sa.indexes.cap = 3; sb.indexes.d = ib; sb.indexes.n = nb; sb.indexes.cap = 3;
    for (int k = 0; k < 3; k++) __CPROVER_assume(ia[k] < NPT && ib[k] < NPT);
    size_t alt = 1 - dim;
    double lowA = alt == 0 ? pa[ia[0]].x : pa[ia[0]].y, highA = alt == 0 ? pa[ia[na - 1]].x : pa[ia[na - 1]].y;
    double lowB = alt == 0 ? pb[ib[0]].x : pb[ib[0]].y, highB = alt == 0 ? pb[ib[nb - 1]].x : pb[ib[nb - 1]].y;
    _Bool r = w_overlapsWith(&sa, &sb, dim);
    _Bool spans_overlap = lowA < highB && lowB < highA;                                   /* positive length */
    _Bool common_position = sa.minSpaceLimit <= sb.maxSpaceLimit && sb.minSpaceLimit <= sa.maxSpaceLimit;
    __CPROVER_assert(!(spans_overlap && common_position) || r,
                     "SPEC overlapsWith: segments of different connectors whose spans overlap along a positive stretch and whose shift ranges share a position are reported as interacting");
    VERIF_CANARY;
}
#endif

/* ------------------------------------------------------------------------------------------------
 * nudgeOrthogonalRoutes, building one region: the segments handed to the solver together are the reference segment's whole
 * connected component under "overlaps".  If a segment that overlaps a region member is left behind, the two get no
 * separation constraint and can end up collinear (C10's headline).  BOUNDED: at most 4 segments. */
#if defined(JOB_region)
struct PACKED Seg4 { void *vptr; size_t dimension; double minSpaceLimit; double maxSpaceLimit; };
static struct Seg4 *seg_base;
struct PACKED list8 { void *a[8]; size_t n; };
static _Bool rel[4][4];
_Bool w_overlaps(void *a, void *b, size_t dim) { long i = (struct Seg4 *)a - seg_base, j = (struct Seg4 *)b - seg_base; __CPROVER_assert(i >= 0 && i < 4 && j >= 0 && j < 4, "SPEC overlapsWith on list members"); return rel[i][j]; }
void w_region(void *self, size_t dimension, void *region);
void h_region(void)
{
  struct Seg4 seg[4]; struct list8 lst, region; size_t n, dim;
  _Bool r[4][4];
  __CPROVER_assume(n >= 1 && n <= 4);
  seg_base = seg;
  for (int i = 0; i < 4; ++i) { for (int j = 0; j < 4; ++j) { __CPROVER_assume(r[i][j] == r[j][i]); rel[i][j] = r[i][j]; } }
  for (int i = 0; i < 4; ++i) lst.a[i] = &seg[i];
  lst.n = n; region.n = 0;
  w_region(&lst, dim, &region);
  /* nothing is lost or duplicated, the reference segment leads its region */
  __CPROVER_assert(region.n >= 1 && region.a[0] == (void *)&seg[0] && region.n + lst.n == n, "SPEC the region starts with the reference segment and nothing is lost");
  /* closure: no segment left in the list overlaps a member of the region */
  for (int i = 0; i < 4; ++i) for (int j = 0; j < 4; ++j)
    if ((size_t)i < lst.n && (size_t)j < region.n)
      __CPROVER_assert(!rel[(struct Seg4 *)lst.a[i] - seg][(struct Seg4 *)region.a[j] - seg], "SPEC no segment left behind overlaps a member of the region");
  VERIF_CANARY;
}
#endif

/* ------------------------------------------------------------------------------------------------
 * buildOrthogonalNudgingSegments, channel limits of a middle segment at position thisPos (dimension dim): every checkpoint on an adjoining
 * segment that lies before thisPos bounds the channel from below, every one after it from above; for a segment without checkpoints of its
 * own that forms an S or Z bend the channel stays within the span of its two neighbours.  All of these hold TOGETHER.  BOUNDED. */
#if defined(JOB_limits)
void w_limits(void *nextCp, void *prevCp, void *cp, double thisPos, size_t dim, void *route, size_t i, double *outMin, double *outMax, int *outS, int *outZ);
static double coord(struct Point *p, size_t dim) { return dim == 0 ? p->x : p->y; }
void h_limits(void)
{
  struct Point nx[2], pv[2], own[2], rt[6]; struct vec vnx = { nx, 0, 2 }, vpv = { pv, 0, 2 }, vown = { own, 0, 2 }; struct Polygon route;
  size_t n1, n2, n3, dim; double thisPos, mn, mx; int isS, isZ;
  __CPROVER_assume(n1 <= 2 && n2 <= 2 && n3 <= 2 && dim <= 1 && thisPos >= -100000000.0 && thisPos <= 100000000.0);   /* coordinates within +-CHANNEL_MAX */
  vnx.n = n1; vpv.n = n2; vown.n = n3;
  for (int k = 0; k < 2; ++k) __CPROVER_assume(!IS_NAN(coord(&nx[k], dim)) && !IS_NAN(coord(&pv[k], dim)));
  for (int k = 0; k < 6; ++k) __CPROVER_assume(!IS_NAN(coord(&rt[k], dim)));
  route.ps.d = rt; route.ps.n = 6; route.ps.cap = 6;
  size_t i = 2;                                      /* the segment is rt[i-1] -> rt[i]; its neighbours start at rt[i-2] and end at rt[i+1] */
  w_limits(&vnx, &vpv, &vown, thisPos, dim, &route, i, &mn, &mx, &isS, &isZ);
  for (size_t k = 0; k < 2; ++k) {
    if (k < n1 && coord(&nx[k], dim) < thisPos) __CPROVER_assert(mn >= coord(&nx[k], dim), "SPEC a checkpoint before the segment on the NEXT adjoining segment bounds the channel from below");
    if (k < n1 && coord(&nx[k], dim) > thisPos) __CPROVER_assert(mx <= coord(&nx[k], dim), "SPEC a checkpoint after the segment on the NEXT adjoining segment bounds the channel from above");
    if (k < n2 && coord(&pv[k], dim) < thisPos) __CPROVER_assert(mn >= coord(&pv[k], dim), "SPEC a checkpoint before the segment on the PREVIOUS adjoining segment bounds the channel from below");
    if (k < n2 && coord(&pv[k], dim) > thisPos) __CPROVER_assert(mx <= coord(&pv[k], dim), "SPEC a checkpoint after the segment on the PREVIOUS adjoining segment bounds the channel from above");
  }
  double prevPos = coord(&rt[i - 2], dim), nextPos = coord(&rt[i + 1], dim);
  if (n3 == 0 && prevPos < thisPos && nextPos > thisPos) __CPROVER_assert(isZ && !isS && mn >= prevPos && mx <= nextPos, "SPEC Z bend: the channel stays within the span of the two neighbours");
  if (n3 == 0 && prevPos > thisPos && nextPos < thisPos) __CPROVER_assert(isS && !isZ && mn >= nextPos && mx <= prevPos, "SPEC S bend: the channel stays within the span of the two neighbours");
  __CPROVER_assert(mn <= thisPos && thisPos <= mx, "SPEC the segment's own position lies in its channel");
  VERIF_CANARY;
}
#endif

/* ------------------------------------------------------------------------------------------------
 * NudgingShiftSegment::fixedOrder(bool& isFixed): CmpLineOrder passes ONE flag to the calls for both segments, so the flag must come out
 * as (flag on entry) OR (this segment is fixed / limited on both sides); the return value ranks a one-sidedly limited segment. */
#if defined(JOB_fixedOrder)
int w_fixedOrder(unsigned long dim, double pos, double minLim, double maxLim, int fixed, double nd, int *isFixed);
void h_fixedOrder(void)
{
  unsigned long dim; double pos, lo, hi, nd; int fixed, in, flag;
  __CPROVER_assume(dim <= 1 && (fixed == 0 || fixed == 1) && (in == 0 || in == 1) && !IS_NAN(pos) && !IS_NAN(lo) && !IS_NAN(hi) && !IS_NAN(nd));
  flag = in;
  int r = w_fixedOrder(dim, pos, lo, hi, fixed, nd, &flag);
  _Bool minLimited = (pos - lo) < nd, maxLimited = (hi - pos) < nd, eff = fixed || (minLimited && maxLimited);
  __CPROVER_assert((flag != 0) == (in != 0 || eff), "SPEC fixedOrder only ever SETS its out-parameter: afterwards it is (value on entry) OR (this segment is effectively fixed)");
  __CPROVER_assert(r == (eff ? 0 : minLimited ? 1 : maxLimited ? -1 : 0), "SPEC fixedOrder ranks a segment limited on its low side after, on its high side before, the others");
  VERIF_CANARY;
}
#endif

/* ------------------------------------------------------------------------------------------------
 * nudgeOrthogonalRoutes, constraints inside a region: the current segment gets ONE constraint against EVERY earlier segment it overlaps
 * (unless both are fixed): earlier + gap <= current, the gap being the nudging distance unless the two should/can be aligned or belong to a
 * shared path with a common end (then 0, as an equality in the first and the last case); only full-gap constraints are remembered for
 * later gap reduction.  BOUNDED: up to 2 earlier segments. */
#if defined(JOB_pairs)
void w_pairs(unsigned nprev, int curFixed, int f0, int f1, double sepDist, int nudgeShared); int verif_prev_index(void *seg); int verif_var_index(void *v);
static _Bool ov[2], sa[2], ca[2], sh[2]; static int ncon; static int cl[4], cr[4], ceq[4]; static double cgap[4]; static void *cptr[4]; static int ngap; static void *gptr[4]; static int ncs;
int w_q(int what, void *cur, void *prev)
{
  if (what == 4) { unsigned long a = (unsigned long)cur, b = (unsigned long)prev; int k = (a == 12 ? (int)b : (int)a) - 10; __CPROVER_assert(k == 0 || k == 1, "SPEC shared-path lookup for the current pair"); return sh[k]; }
  int k = verif_prev_index(prev); __CPROVER_assert(k >= 0, "SPEC pair questions are asked about an earlier segment of the region");
  return what == 1 ? ov[k] : what == 2 ? sa[k] : ca[k];
}
void w_new_constraint(void *l, void *r, double gap, int eq) { __CPROVER_assert(ncon < 4, "SPEC at most one constraint per earlier segment"); cl[ncon] = verif_var_index(l); cr[ncon] = verif_var_index(r); cgap[ncon] = gap; ceq[ncon] = eq; ncon++; }
void w_pushed(int which, void *c) { if (which == 0) ncs++; else ngap++; }
void h_pairs(void)
{
  unsigned nprev; int curFixed, f[2], nudgeShared; double sepDist; _Bool o[2], s_[2], c_[2], h_[2];
  __CPROVER_assume(nprev <= 2 && sepDist > 0.0 && (curFixed == 0 || curFixed == 1) && (nudgeShared == 0 || nudgeShared == 1));
  for (int k = 0; k < 2; ++k) { __CPROVER_assume(f[k] == 0 || f[k] == 1); ov[k] = o[k]; sa[k] = s_[k]; ca[k] = c_[k]; sh[k] = h_[k]; }
  ncon = 0; ngap = 0; ncs = 0;
  w_pairs(nprev, curFixed, f[0], f[1], sepDist, nudgeShared);
  int expected = 0, expectedGap = 0;
  for (unsigned k = 0; k < 2; ++k) if (k < nprev) {
    _Bool want = o[k] && !(curFixed && f[k]);
    double g = (s_[k] || c_[k] || (!nudgeShared && h_[k])) ? 0.0 : sepDist; int eq = s_[k] ? 1 : (c_[k] ? 0 : ((!nudgeShared && h_[k]) ? 1 : 0));
    int found = 0;
    for (int j = 0; j < 4; ++j) if (j < ncon && cl[j] == (int)k && cr[j] == 2) { found++; if (want) __CPROVER_assert(cgap[j] == g && ceq[j] == eq, "SPEC the constraint against an earlier segment has the nudging distance unless an exemption applies"); }
    __CPROVER_assert(found == (want ? 1 : 0), "SPEC exactly one constraint against EVERY earlier segment the current one overlaps (unless both are fixed), none otherwise");
    if (want) { expected++; if (g != 0.0) expectedGap++; }
  }
  __CPROVER_assert(ncon == expected && ncs == expected && ngap == expectedGap, "SPEC every constraint is handed to the solver's list, the full-gap ones also to the gap list");
  VERIF_CANARY;
}
#endif

/* ------------------------------------------------------------------------------------------------
 * buildOrthogonalNudgingOrderInfo, one pair (conn, conn2) of orthogonal connectors: the pair enters the "shared path with a common end point" set exactly when
 * recording is on and the crossing detector reported CROSSING_SHARES_PATH_AT_END for one of THIS pair's segments -- never because of what an earlier pair
 * left behind.  (Pairs in that set get a zero-gap equality instead of a separation.)  BOUNDED: routes of up to 4 points. */
#if defined(JOB_pair_order)
void w_pair(int type1, int type2, unsigned long n1, unsigned long n2, int build);
unsigned verif_carried_flags; static unsigned segflags[4]; static int nrec; static unsigned reca, recb; static int asked_final_ok = 1; static unsigned long n1g;
unsigned w_count_for_segment(unsigned long i, int finalSegment) { __CPROVER_assert(i >= 1 && i < n1g, "SPEC segments 1 .. size-1 of the first route are examined"); if ((finalSegment != 0) != (i + 1 == n1g)) asked_final_ok = 0; return segflags[i < 4 ? i : 0]; }
void w_recorded(unsigned a, unsigned b) { nrec++; reca = a; recb = b; }
void h_pair_order(void)
{
  int t1, t2, build; unsigned long n1, n2; unsigned f[4], carried;
  __CPROVER_assume(t1 >= 0 && t1 <= 2 && t2 >= 0 && t2 <= 2 && n1 <= 4 && n2 <= 4 && (build == 0 || build == 1));
  for (int k = 0; k < 4; ++k) { __CPROVER_assume(f[k] < 32); segflags[k] = f[k]; }
  verif_carried_flags = carried; n1g = n1; nrec = 0;
  w_pair(t1, t2, n1, n2, build);
  _Bool evidence = 0;
  for (unsigned long i = 1; i < 4; ++i) if (i < n1 && (f[i] & 4u)) evidence = 1;
  _Bool want = (t1 == 2 && t2 == 2 && build && evidence);     /* the outer loop only hands over orthogonal `conn`; a non-orthogonal partner is skipped */
  if (t1 == 2) {
    __CPROVER_assert(nrec == (want ? 1 : 0), "SPEC a pair is recorded as sharing a path with a common end exactly on evidence from its own crossing detection");
    if (want && nrec == 1) __CPROVER_assert((reca == 11 && recb == 12) || (reca == 12 && recb == 11), "SPEC the recorded pair is this pair");
    __CPROVER_assert(asked_final_ok, "SPEC the last segment, and only it, is examined as the final segment");
  }
  VERIF_CANARY;
}
#endif
