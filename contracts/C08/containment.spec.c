/* C08 -- PARTIAL: the translation of cluster containment into VPSC constraints.  For every member entry (node or child cluster side)
 * recorded by the constructor -- (variable, dimension, offset, which boundary, boundary variable) -- generateSeparationConstraints
 * emits, in that dimension only, the inequality that keeps the member at least `offset` inside that boundary. */
#define PACKED __attribute__((packed))
struct PACKED vec { void *d; size_t n; size_t cap; };
struct PACKED Variable { int id; double desiredPosition, finalPosition, weight, scale, offset; void *block; _Bool visited; _Bool fixedDesiredPosition; struct vec in; struct vec out; };
struct PACKED Constraint { void *left, *right; double gap, lm; long timeStamp; _Bool active; _Bool equality; _Bool unsatisfiable; _Bool needsScaling; void *creator; };
struct PACKED Compound { void *vptr; int _primaryDim; int _secondaryDim; unsigned _priority; _Bool _combineSubConstraints; struct vec _subConstraintInfo; size_t _currSubConstraintIndex; };
struct PACKED CSO { void *vptr; unsigned varIndex; _Bool satisfied; double offset; int dim; int boundarySide; unsigned boundaryVar; };
struct PACKED Rect { double minX, maxX, minY, maxY; _Bool overlap; };
struct PACKED Box4 { double m_min[2]; double m_max[2]; };
struct PACKED OSO { void *vptr; unsigned varIndex; _Bool satisfied; void *cluster; double halfDim[2]; struct Box4 rectPadding; unsigned group; };
struct PACKED SPI { unsigned short order, varIndex1, varIndex2; _Bool satisfied, processed; double overlapMax; };
static unsigned long long bits(double d) { union { double d; unsigned long long u; } c; c.d = d; return c.u; }
#define VS(v) ((struct vec *)(v))
#define AT(v, i) (((void **)VS(v)->d)[i])
#define LASTC(cs) ((struct Constraint *)AT(cs, VS(cs)->n - 1))
#define FRESH_VEC(v, maxn) (__CPROVER_is_fresh(v, sizeof(struct vec)) && VS(v)->n <= (maxn) && __CPROVER_is_fresh(VS(v)->d, VS(v)->n * sizeof(void *)))
#define FRESH_OUT(v) (__CPROVER_is_fresh(v, sizeof(struct vec)) && VS(v)->n < VS(v)->cap && VS(v)->cap <= 64 && __CPROVER_is_fresh(VS(v)->d, VS(v)->cap * sizeof(void *)))
static _Bool is_constraint(struct Constraint *c, void *left, void *right, double gap, _Bool eq, void *creator) {
  return c->left == left && c->right == right && bits(c->gap) == bits(gap) && c->equality == eq && c->creator == creator && !c->unsatisfiable && !c->active;
}

#if defined(JOB_mirror_layout)
@MIRROR_CHECKS@
#endif

#if defined(JOB_containment_body)
#define INFO ((struct CSO *)*(void **)slot)
void w_body(void *self, void *slot, int dim, void *vars, void *cs)
__CPROVER_requires(__CPROVER_is_fresh(self, sizeof(struct Compound)) && (dim == 0 || dim == 1))
__CPROVER_requires(__CPROVER_is_fresh(slot, sizeof(void *)) && __CPROVER_is_fresh(*(void **)slot, sizeof(struct CSO)))
__CPROVER_requires(FRESH_VEC(vars, 64) && FRESH_OUT(cs) && INFO->varIndex < VS(vars)->n && INFO->boundaryVar < VS(vars)->n)
/* upper boundary (BelowBoundary = -1):  member + offset <= boundary;   lower boundary (AboveBoundary = 1):  boundary + offset <= member */
__CPROVER_ensures((dim == INFO->dim && INFO->boundarySide == -1) ==> (VS(cs)->n == __CPROVER_old(VS(cs)->n) + 1 &&
    is_constraint(LASTC(cs), AT(vars, INFO->varIndex), AT(vars, INFO->boundaryVar), INFO->offset, 0, self)))
__CPROVER_ensures((dim == INFO->dim && INFO->boundarySide == 1) ==> (VS(cs)->n == __CPROVER_old(VS(cs)->n) + 1 &&
    is_constraint(LASTC(cs), AT(vars, INFO->boundaryVar), AT(vars, INFO->varIndex), INFO->offset, 0, self)))
/* an entry of the other dimension generates nothing */
__CPROVER_ensures(dim != INFO->dim ==> VS(cs)->n == __CPROVER_old(VS(cs)->n))
__CPROVER_assigns(VS(cs)->n, __CPROVER_object_whole(VS(cs)->d))
;
void h_body(void) { void *self, *slot, *vars, *cs; int dim; w_body(self, slot, dim, vars, cs); VERIF_CANARY; }
#endif

#if defined(JOB_containment_shell)
unsigned long verif_visited;
void *verif_last_slot;
extern int verif_g_dim; extern void *verif_g_vars; extern void *verif_g_cs;
void w_visit(void *self, void *slot)
__CPROVER_requires(1)
__CPROVER_ensures(verif_visited == __CPROVER_old(verif_visited) + 1 && verif_last_slot == slot)
__CPROVER_assigns(verif_visited, verif_last_slot)
;
#define CC(p) ((struct Compound *)(p))
void w_shell(void *self, int dim, void *vars, void *cs)
__CPROVER_requires(__CPROVER_is_fresh(self, sizeof(struct Compound)) && (dim == 0 || dim == 1) && verif_visited == 0)
__CPROVER_requires(CC(self)->_subConstraintInfo.n <= 1000000 && __CPROVER_is_fresh(CC(self)->_subConstraintInfo.d, CC(self)->_subConstraintInfo.n * sizeof(void *)))
__CPROVER_requires(__CPROVER_is_fresh(vars, sizeof(struct vec)) && __CPROVER_is_fresh(cs, sizeof(struct vec)))
__CPROVER_ensures(verif_visited == CC(self)->_subConstraintInfo.n)       /* every entry is visited, in both dimensions' calls */
__CPROVER_assigns(verif_visited, verif_last_slot, verif_g_dim, verif_g_vars, verif_g_cs)
;
void h_shell(void) { void *self, *vars, *cs; int dim; w_shell(self, dim, vars, cs); VERIF_CANARY; }
#endif

/* ------------------------------------------------------------ NonOverlapConstraints::generateSeparationConstraints, one pair of plain shapes:
 * when the two rectangles overlap in the OTHER axis by more than 0.0005 they get a full separation in this axis -- the one whose
 * centre is smaller goes first, the gap is the sum of the two half sizes -- and otherwise nothing. */
#if defined(JOB_pair)
/* plain harness (goto-instrument --dfcc ran out of memory on this body): concrete small containers, symbolic contents */
double __CPROVER_uninterpreted_centre(double, double, double, double, unsigned);
double __CPROVER_uninterpreted_overlap(double, double, double, double, double, double, double, double, unsigned);
static struct OSO s1, s2; static unsigned i1, i2; static int bad_lookup;
double w_centreD(double a, double b, double c, double d, unsigned dim) { __CPROVER_assert(dim <= 1, "SPEC getCentreD called with a dimension"); return __CPROVER_uninterpreted_centre(a, b, c, d, dim); }
double w_overlapD(double a, double b, double c, double d, double e, double f, double g, double h, unsigned dim)
{ __CPROVER_assert(dim <= 1, "SPEC overlapD called with a dimension"); return __CPROVER_uninterpreted_overlap(a, b, c, d, e, f, g, h, dim); }
void *w_offsets(void *map, unsigned i) { __CPROVER_assert(i == i1 || i == i2, "SPEC shape offsets are looked up for the pair's own two indices only"); return i == i1 ? (void *)&s1 : (void *)&s2; }
void w_pair(void *self, void *info, int dim, void *vs, void *cs, void *bbs);
#define CEN(r, d) __CPROVER_uninterpreted_centre((r).minX, (r).maxX, (r).minY, (r).maxY, d)
#define OVL(r, q, d) __CPROVER_uninterpreted_overlap((r).minX, (r).maxX, (r).minY, (r).maxY, (q).minX, (q).maxX, (q).minY, (q).maxY, d)
void h_pair(void)
{
  struct PACKED { struct Compound c; char map[8]; } self;            /* locals without initialiser: arbitrary contents */
  struct SPI info; struct Variable var[3]; struct Rect rect[3]; struct OSO nd1, nd2;
  void *vsd[3], *bbd[3], *csd[4];
  s1 = nd1; s2 = nd2;
  struct vec vs = { vsd, 3, 3 }, bbs = { bbd, 3, 3 }, cs = { csd, 0, 4 };
  size_t n0; int dim;
  __CPROVER_assume(dim == 0 || dim == 1);
  __CPROVER_assume(n0 < 4); cs.n = n0;
  for (int k = 0; k < 3; ++k) { vsd[k] = &var[k]; bbd[k] = &rect[k]; }
  __CPROVER_assume(info.varIndex1 < info.varIndex2 && info.varIndex2 < 3);       /* ShapePairInfo's constructor orders the two indices */
  i1 = info.varIndex1; i2 = info.varIndex2;
  __CPROVER_assume(s1.cluster == (void *)0 && s2.cluster == (void *)0);           /* plain shapes */
  struct Rect r1 = rect[i1], r2 = rect[i2];
  double want = s1.halfDim[dim] + s2.halfDim[dim];
  verif_thrown = 0;
  w_pair(&self, &info, dim, &vs, &cs, &bbs);
  __CPROVER_assert(!verif_thrown, "SPEC valid indices are not reported");
  if (OVL(r1, r2, 1 - dim) > 0.0005) {
    __CPROVER_assert(cs.n == n0 + 1, "SPEC a pair overlapping in the other axis gets exactly one separation in this axis");
    struct Constraint *c = (struct Constraint *)csd[n0];
    if (CEN(r1, dim) < CEN(r2, dim))
      __CPROVER_assert(is_constraint(c, &var[i1], &var[i2], want, 0, &self), "SPEC smaller centre first: shape1 + (half1 + half2) <= shape2");
    else if (CEN(r2, dim) < CEN(r1, dim))
      __CPROVER_assert(is_constraint(c, &var[i2], &var[i1], want, 0, &self), "SPEC smaller centre first: shape2 + (half1 + half2) <= shape1");
    else     /* equal centres: either order separates the pair */
      __CPROVER_assert(is_constraint(c, &var[i1], &var[i2], want, 0, &self) || is_constraint(c, &var[i2], &var[i1], want, 0, &self), "SPEC equal centres: a full separation in either order");
  } else
    __CPROVER_assert(cs.n == n0, "SPEC a pair not overlapping in the other axis gets no constraint");
  VERIF_CANARY;
}
#endif

/* ------------------------------------------------------------ the containment constructor, one child cluster: the child's lower boundary
 * variable stays at least padding.min + margin.min above the parent's lower one, its upper boundary variable at least padding.max +
 * margin.max below the parent's upper one -- in X and in Y.  (Entries: variable, dimension, offset, side, boundary variable.) */
#if defined(JOB_child_body)
struct PACKED ClusterM { unsigned clusterVarId; };
static struct Box4 the_margin;
void w_margin(void *cluster, void *box) { *(struct Box4 *)box = the_margin; }
void w_child_body(void *self, void *slot, void *padding, void *cluster);
static _Bool entry_is(struct CSO *e, unsigned var, int dim, double off, int side, unsigned bvar)
{ return e->varIndex == var && e->dim == dim && bits(e->offset) == bits(off) && e->boundarySide == side && e->boundaryVar == bvar; }
void h_child_body(void)
{
  struct Compound self; struct ClusterM child, parent; struct Box4 padding, mar; void *infos[8]; void *childp = &child; size_t n0;
  __CPROVER_assume(n0 <= 3 && child.clusterVarId < 1000000 && parent.clusterVarId < 1000000);
  the_margin = mar;
  self._subConstraintInfo.d = infos; self._subConstraintInfo.n = n0; self._subConstraintInfo.cap = 8;
  w_child_body(&self, &childp, &padding, &parent);
  __CPROVER_assert(self._subConstraintInfo.n == n0 + 4, "SPEC four entries per child cluster");
  struct CSO *e[4]; for (int k = 0; k < 4; ++k) e[k] = (struct CSO *)infos[n0 + k];
  for (int d = 0; d < 2; ++d) {
    double lo = padding.m_min[d] + mar.m_min[d], hi = padding.m_max[d] + mar.m_max[d];
    _Bool has_lo = 0, has_hi = 0;
    for (int k = 0; k < 4; ++k) {
      if (entry_is(e[k], child.clusterVarId, d, lo, 1, parent.clusterVarId)) has_lo = 1;               /* parent.lower + lo <= child.lower */
      if (entry_is(e[k], child.clusterVarId + 1, d, hi, -1, parent.clusterVarId + 1)) has_hi = 1;      /* child.upper + hi <= parent.upper */
    }
    __CPROVER_assert(has_lo, "SPEC the child's LOWER boundary variable is held above the parent's lower one (this dimension)");
    __CPROVER_assert(has_hi, "SPEC the child's UPPER boundary variable is held below the parent's upper one (this dimension)");
  }
  VERIF_CANARY;
}
#endif

/* ------------------------------------------------------------ ShapePair (libcola/shapepair.cpp): key of the non-overlap exemption set */
#if defined(JOB_pair_less)
int w_pair_less(unsigned a1, unsigned a2, unsigned b1, unsigned b2);
void h_pair_less(void)
{
  unsigned a1, a2, b1, b2;
  __CPROVER_assume(a1 != a2 && b1 != b2 && a1 < 65536 && a2 < 65536 && b1 < 65536 && b2 < 65536);
  unsigned alo = a1 < a2 ? a1 : a2, ahi = a1 < a2 ? a2 : a1, blo = b1 < b2 ? b1 : b2, bhi = b1 < b2 ? b2 : b1;
  int ab = w_pair_less(a1, a2, b1, b2), ba = w_pair_less(b1, b2, a1, a2);
  /* the order is the lexicographic order on (smaller index, larger index) -- in particular */
  __CPROVER_assert((ab != 0) == (alo < blo || (alo == blo && ahi < bhi)), "SPEC ShapePair::operator< is the lexicographic order on (smaller index, larger index)");
  /* ... two pairs are equivalent keys (neither is less) exactly when they are the same unordered pair */
  __CPROVER_assert((!ab && !ba) == (alo == blo && ahi == bhi), "SPEC two pairs are the same set key iff they are the same unordered pair");
  VERIF_CANARY;
}
#endif

/* ------------------------------------------------------------------------------------------------
 * RectangularCluster::generateFixedRectangleConstraints: a cluster bound to node rectangle R (m_rectangle_index >= 0) gets exactly four equalities
 *    X: lower + w/2 == x(R),  x(R) + w/2 == upper        Y: lower + h/2 == y(R),  y(R) + h/2 == upper
 * (lower/upper being variables clusterVarId / clusterVarId + 1, w and h the width and height of R), all handed to the idle-constraint list;
 * a cluster not bound to a rectangle gets none.  Containment of the members in such a cluster, hence C08's clause for them, rests on these. */
#if defined(JOB_fixed_rect)
void w_fixed(int rectIndex, unsigned clusterVarId); int verif_rect_index(void *r);
static double Wd[3], Hd[3]; static int nsep, npushed; static int sdim[6], seq[6]; static unsigned sl[6], sr[6]; static double sgap[6];
double w_width(void *r) { int k = verif_rect_index(r); __CPROVER_assert(k >= 0, "SPEC width() asked of one of the rectangles"); return Wd[k]; }
double w_height(void *r) { int k = verif_rect_index(r); __CPROVER_assert(k >= 0, "SPEC height() asked of one of the rectangles"); return Hd[k]; }
void w_new_sep(int dim, unsigned l, unsigned r, double gap, int eq) { __CPROVER_assert(nsep < 6, "SPEC no more than four constraints"); sdim[nsep] = dim; sl[nsep] = l; sr[nsep] = r; sgap[nsep] = gap; seq[nsep] = eq; nsep++; }
void w_pushed(void *c) { npushed++; }
static int count_sep(int dim, unsigned l, unsigned r, double gap)
{ int n = 0; for (int k = 0; k < 6; ++k) if (k < nsep && sdim[k] == dim && sl[k] == l && sr[k] == r && sgap[k] == gap && seq[k] == 1) n++; return n; }
void h_fixed(void)
{
  int rectIndex; unsigned cv; double w[3], h[3];
  __CPROVER_assume(rectIndex >= -1 && rectIndex <= 2 && cv >= 3 && cv < (1u << 30));   /* cluster variables come after the node variables */
  for (int k = 0; k < 3; ++k) { __CPROVER_assume(!__CPROVER_isnand(w[k]) && !__CPROVER_isnand(h[k])); Wd[k] = w[k]; Hd[k] = h[k]; }
  nsep = 0; npushed = 0;
  w_fixed(rectIndex, cv);
  if (rectIndex < 0) __CPROVER_assert(nsep == 0 && npushed == 0, "SPEC a cluster not bound to a rectangle gets no fixed-rectangle constraints");
  else {
    unsigned R = (unsigned)rectIndex; double hw = w[rectIndex] / 2, hh = h[rectIndex] / 2;
    __CPROVER_assert(nsep == 4 && npushed == 4, "SPEC exactly four constraints, all handed to the idle list");
    __CPROVER_assert(count_sep(0, cv, R, hw) == 1, "SPEC X: lower boundary + width/2 == rectangle centre");
    __CPROVER_assert(count_sep(0, R, cv + 1, hw) == 1, "SPEC X: rectangle centre + width/2 == upper boundary");
    __CPROVER_assert(count_sep(1, cv, R, hh) == 1, "SPEC Y: lower boundary + height/2 == rectangle centre");
    __CPROVER_assert(count_sep(1, R, cv + 1, hh) == 1, "SPEC Y: rectangle centre + height/2 == upper boundary");
  }
  VERIF_CANARY;
}
#endif
