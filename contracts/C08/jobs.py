"""C08 jobs: PARTIAL -- the per-pair / per-member translation links of overlap avoidance and cluster containment (see containment.spec.c)."""
import os, sys, re, importlib.util
from vf import *
from common import *
import layout

HERE = os.path.dirname(os.path.abspath(__file__))
CCC = "libcola/cc_clustercontainmentconstraints.cpp"


def _mod(pid):
    spec = importlib.util.spec_from_file_location("jobs_%s_for_C08" % pid, os.path.join(VERIF, "contracts", pid, "jobs.py"))
    m = importlib.util.module_from_spec(spec); spec.loader.exec_module(m)
    return m


REPLAY_SRC = r'''
// Native replay for the C08 containment translation: the REAL ClusterContainmentConstraints (rebuilt from the working tree) for a
// rectangular cluster with two member nodes; the generated constraints must hold each member's box between the cluster's two
// boundary variables in each dimension, and a placement violating containment must violate one of them.
#include "libcola/cola.h"
#include "libcola/cluster.h"
#include "libcola/cc_clustercontainmentconstraints.h"
#include "libcola/cc_nonoverlapconstraints.h"
#include <cstdio>
using namespace cola;
int main() {
  int bad = 0;
  vpsc::Rectangles bbs;
  bbs.push_back(new vpsc::Rectangle(0, 10, 0, 20)); bbs.push_back(new vpsc::Rectangle(30, 36, 5, 9));
  RectangularCluster c; c.addChildNode(0); c.addChildNode(1);
  c.clusterVarId = 2;
  ClusterContainmentConstraints cc(&c, 1000, bbs);
  for (int d = 0; d < 2; ++d) {
    vpsc::Variables vs; vpsc::Constraints cs;
    for (int i = 0; i < 4; ++i) vs.push_back(new vpsc::Variable(i, 0));
    cc.generateSeparationConstraints((vpsc::Dim)d, vs, cs, bbs);
    if (cs.size() != 4) { printf("dim %d: %zu constraints for 2 members (expected 4)\n", d, cs.size()); bad++; continue; }
    double half[2] = { d == 0 ? 5.0 : 10.0, d == 0 ? 3.0 : 2.0 };
    int seenLo[2] = {0, 0}, seenHi[2] = {0, 0};
    for (size_t k = 0; k < cs.size(); ++k) {
      vpsc::Constraint *q = cs[k];
      if (q->creator != &cc || q->equality) { printf("dim %d: constraint %zu has the wrong creator or is an equality\n", d, k); bad++; }
      if (q->left->id == 2 && q->right->id < 2 && q->gap == half[q->right->id]) seenLo[q->right->id]++;        // lower boundary + half <= member
      else if (q->right->id == 3 && q->left->id < 2 && q->gap == half[q->left->id]) seenHi[q->left->id]++;     // member + half <= upper boundary
      else { printf("dim %d: unexpected constraint var%d + %g <= var%d\n", d, q->left->id, q->gap, q->right->id); bad++; }
    }
    for (int m = 0; m < 2; ++m) if (seenLo[m] != 1 || seenHi[m] != 1) { printf("dim %d: member %d is not held between the two boundary variables\n", d, m); bad++; }
  }
  // two exemption groups {0,1} and {2,3}: pairs ACROSS the groups are not exempt
  {
    NonOverlapConstraintExemptions ex2; std::vector<std::vector<unsigned> > groups(2); groups[0].push_back(0); groups[0].push_back(1); groups[1].push_back(2); groups[1].push_back(3);
    ex2.addExemptGroupOfNodes(groups);
    if (!ex2.shapePairIsExempt(ShapePair(0, 1)) || !ex2.shapePairIsExempt(ShapePair(3, 2)) || ex2.shapePairIsExempt(ShapePair(1, 2)) || ex2.shapePairIsExempt(ShapePair(0, 3))) {
      printf("exemption groups {0,1},{2,3}: (0,1) %d (2,3) %d (1,2) %d (0,3) %d -- expected 1 1 0 0\n", ex2.shapePairIsExempt(ShapePair(0, 1)), ex2.shapePairIsExempt(ShapePair(3, 2)), ex2.shapePairIsExempt(ShapePair(1, 2)), ex2.shapePairIsExempt(ShapePair(0, 3))); bad++; }
  }
  // exemptions: declaring (0,1) exempt must not exempt (0,2): both overlapping pairs (0,2) and (1,2) still get their separation
  {
    vpsc::Rectangles xs; for (int i = 0; i < 3; ++i) xs.push_back(new vpsc::Rectangle(2.0 * i, 2.0 * i + 10, 0, 10));
    NonOverlapConstraintExemptions ex; std::vector<std::vector<unsigned> > groups(1); groups[0].push_back(0); groups[0].push_back(1); ex.addExemptGroupOfNodes(groups);
    NonOverlapConstraints noc(&ex, 1000);
    for (unsigned i = 0; i < 3; ++i) noc.addShape(i, 5, 5);
    vpsc::Variables vs; vpsc::Constraints cs; for (int i = 0; i < 3; ++i) vs.push_back(new vpsc::Variable(i, 0));
    noc.generateSeparationConstraints(vpsc::XDIM, vs, cs, xs);
    bool has02 = false, has12 = false, has01 = false;
    for (size_t k = 0; k < cs.size(); ++k) { int a = cs[k]->left->id, b = cs[k]->right->id; if (a > b) { int t = a; a = b; b = t; }
      if (a == 0 && b == 2) has02 = true; if (a == 1 && b == 2) has12 = true; if (a == 0 && b == 1) has01 = true; }
    if (!has02 || !has12 || has01) { printf("exemption group {0,1}: separations generated for (0,2): %d, (1,2): %d, (0,1): %d -- expected 1, 1, 0\n", has02, has12, has01); bad++; }
  }
  // nested clusters: the child's two boundary variables are held inside the parent's, in both dimensions
  {
    vpsc::Rectangles nb; nb.push_back(new vpsc::Rectangle(0, 10, 0, 10)); nb.push_back(new vpsc::Rectangle(30, 40, 30, 40));
    RectangularCluster parent, *child = new RectangularCluster();
    child->addChildNode(0); parent.addChildNode(1); parent.addChildCluster(child);
    parent.setPadding(cola::Box(2, 3, 5, 7)); child->setMargin(cola::Box(11, 13, 17, 19));
    parent.clusterVarId = 2; child->clusterVarId = 4;        // parent: vars 2,3   child: vars 4,5
    ClusterContainmentConstraints pc(&parent, 1000, nb);
    for (int d = 0; d < 2; ++d) {
      vpsc::Variables vs; vpsc::Constraints cs;
      for (int i = 0; i < 6; ++i) vs.push_back(new vpsc::Variable(i, 0));
      pc.generateSeparationConstraints((vpsc::Dim)d, vs, cs, nb);
      double lo = d == 0 ? 2 + 11 : 5 + 17, hi = d == 0 ? 3 + 13 : 7 + 19; int seenLo = 0, seenHi = 0;
      for (size_t k = 0; k < cs.size(); ++k) {
        if (cs[k]->left->id == 2 && cs[k]->right->id == 4 && cs[k]->gap == lo) seenLo++;      // parent.lower + lo <= child.lower
        if (cs[k]->left->id == 5 && cs[k]->right->id == 3 && cs[k]->gap == hi) seenHi++;      // child.upper + hi <= parent.upper
      }
      if (seenLo != 1 || seenHi != 1) { printf("nested clusters, dim %d: the child cluster's boundaries are not held inside the parent's (lower: %d, upper: %d constraint(s) of the expected form)\n", d, seenLo, seenHi); bad++; }
    }
  }
  // non-overlap, plain shapes: a pair overlapping in the other axis gets one full separation in this axis, smaller centre first
  for (int d = 0; d < 2; ++d) for (int swap = 0; swap < 2; ++swap) for (int apart = 0; apart < 2; ++apart) {
    vpsc::Rectangles rs;      // shape 0: 10 x 20 at the origin; shape 1: 6 x 4, shifted by 3 in this axis (swap: -3); `apart`: far away in the other axis
    double off = swap ? -3 : 3, far = apart ? 100 : 1;
    rs.push_back(new vpsc::Rectangle(-5, 5, -10, 10));
    if (d == 0) rs.push_back(new vpsc::Rectangle(off - 3, off + 3, far - 2, far + 2)); else rs.push_back(new vpsc::Rectangle(far - 3, far + 3, off - 2, off + 2));
    NonOverlapConstraints noc(nullptr, 1000);
    noc.addShape(0, 5, 10); noc.addShape(1, 3, 2);
    vpsc::Variables vs; vpsc::Constraints cs;
    for (int i = 0; i < 2; ++i) vs.push_back(new vpsc::Variable(i, 0));
    noc.generateSeparationConstraints((vpsc::Dim)d, vs, cs, rs);
    double want = d == 0 ? 5 + 3 : 10 + 2;
    if (apart) { if (cs.size() != 0) { printf("non-overlap dim %d: a pair that does not overlap in the other axis got %zu constraint(s)\n", d, cs.size()); bad++; } }
    else if (cs.size() != 1) { printf("non-overlap dim %d: an overlapping pair got %zu constraints (expected 1)\n", d, cs.size()); bad++; }
    else {
      vpsc::Constraint *q = cs[0]; int first = swap ? 1 : 0;
      if (q->left->id != first || q->right->id != 1 - first || q->gap != want || q->equality || q->creator != &noc) {
        printf("non-overlap dim %d (shape 1 at %g): generated var%d + %g <= var%d, expected var%d + %g <= var%d\n", d, off, q->left->id, q->gap, q->right->id, first, want, 1 - first); bad++; }
    }
  }
  { // a cluster bound to a 200 x 60 node rectangle: its boundary variables are tied to the rectangle's sides, X by half the width, Y by half the height
    vpsc::Rectangles rs2; rs2.push_back(new vpsc::Rectangle(0, 200, 0, 60)); rs2.push_back(new vpsc::Rectangle(90, 110, 20, 40));
    RectangularCluster rc(0); rc.addChildNode(1); rc.clusterVarId = 2;
    CompoundConstraints idle; vpsc::Variables unused[2]; rc.generateFixedRectangleConstraints(idle, rs2, unused);
    if (idle.size() != 4) { printf("rectangle-bound cluster: %zu fixed-rectangle constraints (expected 4)\n", idle.size()); bad++; }
    for (int d = 0; d < 2; ++d) {
      vpsc::Variables vs; vpsc::Constraints cs; for (int i = 0; i < 4; ++i) vs.push_back(new vpsc::Variable(i, 0));
      for (size_t k = 0; k < idle.size(); ++k) idle[k]->generateSeparationConstraints((vpsc::Dim)d, vs, cs, rs2);
      double half = d == 0 ? 100 : 30; int lo = 0, hi = 0;
      for (size_t k = 0; k < cs.size(); ++k) {
        if (cs[k]->left->id == 2 && cs[k]->right->id == 0 && cs[k]->gap == half && cs[k]->equality) lo++;
        else if (cs[k]->left->id == 0 && cs[k]->right->id == 3 && cs[k]->gap == half && cs[k]->equality) hi++;
        else { printf("rectangle-bound cluster dim %d: unexpected constraint var%d + %g %s var%d (half extent is %g)\n", d, cs[k]->left->id, cs[k]->gap, cs[k]->equality ? "==" : "<=", cs[k]->right->id, half); bad++; } }
      if (lo != 1 || hi != 1) { printf("rectangle-bound cluster dim %d: boundary not tied to the rectangle's sides (lower %d, upper %d)\n", d, lo, hi); bad++; }
    }
  }
  if (bad) { printf("REPRODUCED: %d problem(s) in the generated containment / non-overlap constraints\n", bad); return 1; }
  printf("not reproduced\n"); return 0;
}
'''


def replay_c08(job, obl, inputs, workdir):
    libs = [build_lib(l, workdir) for l in ("libcola", "libvpsc")]
    rc, out = native_run(REPLAY_SRC, workdir, "replay_c08", extra=["-I", COLA], libs=libs, timeout=600)
    if rc is None:
        return False, out
    return rc == 1, out


def jobs(tier):
    js = []
    c01 = _mod("C01")
    spec = spec_header() + rd(HERE, "containment.spec.c")
    base = "#include <verif_base.h>\n#include <vector>\n"
    dim = slice_block("libvpsc/rectangle.h", r'^enum Dim \{', "enum vpsc::Dim")
    cctor = slice_func("libvpsc/constraint.cpp", r'^Constraint::Constraint\(Variable \*left, Variable \*right, double gap, bool equality\)', "vpsc::Constraint::Constraint")
    cdecl = slice_region("libvpsc/constraint.h", r'^\tConstraint\(Variable \*left, Variable \*right, double gap,', r'\);', "Constraint ctor declaration")
    if re.sub(r'\s+', ' ', cdecl.text).strip() != "Constraint(Variable *left, Variable *right, double gap, bool equality = false);":
        raise Undecided("C08: the constructor declaration in constraint.h changed (default argument?): " + cdecl.text)
    vp = c01.fill(prelude("vpsc.h"), "", "", "")
    rect = prelude("vpsc_rectangle.h").replace("@RECT_INLINES@", "")
    vpsc_part = vp + "namespace vpsc {\n" + dim.text + "\n}\n" + rect + "namespace vpsc {\n" + cctor.text + "\n}\n"
    pre0 = prelude("cola_compound.h")
    for k in ("Boundary", "Alignment", "MultiSeparation", "Distribution", "FixedRelative", "VarIndexPair"):
        pre0 = pre0.replace("@MEMBERS:%s@" % k, "")
    consts = slice_lines(CCC, r'^static const int (Above|Below)Boundary = -?1;', 2, "AboveBoundary/BelowBoundary")

    def cpre(members):
        return (pre0 + "namespace cola {\n// file-local info class of cc_clustercontainmentconstraints.cpp and the constraint class (data members in the real order)\n"
                "class ClusterShapeOffsets : public SubConstraintInfo { public: double offset; vpsc::Dim dim; int boundarySide; unsigned int boundaryVar; };\n"
                "class ClusterContainmentConstraints : public CompoundConstraint { public:\n" + members + "};\n}\n")
    layout.check_layout("cola_containment", vp + "namespace vpsc {\n" + dim.text + "\n}\n" + rect + cpre(""), [CCC],
                        [("cola::ClusterShapeOffsets", ["varIndex", "satisfied", "offset", "dim", "boundarySide", "boundaryVar"]),
                         ("cola::CompoundConstraint", ["_primaryDim", "_secondaryDim", "_priority", "_combineSubConstraints", "_subConstraintInfo", "_currSubConstraintIndex"])],
                        sizes=["cola::ClusterShapeOffsets", "cola::ClusterContainmentConstraints", "cola::CompoundConstraint"])
    CF = ["_primaryDim", "_secondaryDim", "_priority", "_combineSubConstraints", "_subConstraintInfo", "_currSubConstraintIndex"]
    mirror = [("vpsc::Variable", "struct Variable", ["id", "desiredPosition", "finalPosition", "weight", "scale", "offset", "block", "visited", "fixedDesiredPosition", "in", "out"]),
              ("vpsc::Constraint", "struct Constraint", ["left", "right", "gap", "lm", "timeStamp", "active", "equality", "unsatisfiable", "needsScaling", "creator"]),
              ("cola::ClusterContainmentConstraints", "struct Compound", CF),
              ("cola::ClusterShapeOffsets", "struct CSO", ["varIndex", "satisfied", "offset", "dim", "boundarySide", "boundaryVar"])]
    js.append(c01.mirror_job("#include <vector>\n" + vp + "namespace vpsc {\n" + dim.text + "\n}\n" + rect + cpre(""), spec, mirror))
    NEW_HELPER = (
        "// `new vpsc::Constraint(args)` substituted (must-fire) by malloc + the REAL constructor on a temporary + field-wise copy (dfcc has no model of operator new)\n"
        'extern "C" void *malloc(size_t);\n'
        "static vpsc::Constraint *verif_new_Constraint(vpsc::Variable *l, vpsc::Variable *r, double g) { vpsc::Constraint t(l, r, g);\n"
        "  vpsc::Constraint *p = (vpsc::Constraint *)malloc(sizeof(vpsc::Constraint)); __CPROVER_assume(p != 0);\n"
        "  p->left = t.left; p->right = t.right; p->gap = t.gap; p->lm = t.lm; p->timeStamp = t.timeStamp; p->active = t.active;\n"
        "  *(bool *)&p->equality = t.equality; p->unsatisfiable = t.unsatisfiable; p->needsScaling = t.needsScaling; p->creator = t.creator; return p; }\n")
    f = slice_func(CCC, r'^void ClusterContainmentConstraints::generateSeparationConstraints\(', "ClusterContainmentConstraints::generateSeparationConstraints")
    hdr_, _ = body_of(f.text)
    m = re.search(r'const vpsc::Dim (\w+),\s*vpsc::Variables& (\w+),\s*vpsc::Constraints& (\w+),\s*std::vector<vpsc::Rectangle\*>& (\w+)\)', hdr_)
    if not m:
        raise Undecided("C08: signature of ClusterContainmentConstraints::generateSeparationConstraints changed")
    pdim, pvars, pcs, pbbs = m.groups()
    _, body = fragment_loop(f, r'for \(SubConstraintInfoList::iterator o = _subConstraintInfo\.begin\(\);\s*o != _subConstraintInfo\.end\(\); \+\+o\)',
                            "ClusterContainmentConstraints::generateSeparationConstraints [loop body]")
    body_orig = body.text
    body.text = subst(body, [(r'new vpsc::Constraint\(', 'verif_new_Constraint(', 2)])
    decl = "        void verif_body(SubConstraintInfoList::iterator o, const vpsc::Dim %s, vpsc::Variables& %s, vpsc::Constraints& %s);\n" % (pdim, pvars, pcs)
    code = ("void ClusterContainmentConstraints::verif_body(SubConstraintInfoList::iterator o, const vpsc::Dim %s, vpsc::Variables& %s, vpsc::Constraints& %s)\n" % (pdim, pvars, pcs) +
            body_continue_to_return(body))
    wr = ('extern "C" void w_body(void *self, void *slot, int dim, void *vars, void *cs) { ((cola::ClusterContainmentConstraints *)self)->verif_body('
          '(cola::SubConstraintInfo **)slot, (vpsc::Dim)dim, *(vpsc::Variables *)vars, *(vpsc::Constraints *)cs); }\n')
    js.append(Job("containment_body", "U", spec, "h_body", cxx=base + vpsc_part + cpre(decl) + NEW_HELPER + "namespace cola {\n" + consts.text + "\n" + code + "\n}\n" + wr,
                  enforce="w_body", replay=replay_c08, defines=["JOB_containment_body"], slices=[f, body, consts, cctor, cdecl],
                  flags=["--object-bits", "12", "--sat-solver", "cadical"], backend="sat:cadical",
                  domain="one arbitrary member entry of one arbitrary cluster, both dimensions, every offset (all doubles), variable lists of up to 64 entries",
                  expect=[r'w_body\.postcondition']))
    if f.text.count(body_orig) != 1:
        raise Undecided("C08: containment loop body not found exactly once")
    _, fbody = body_of(f.text.replace(body_orig, "{ w_visit((void *)this, (void *)o); }"))
    scode = ("void ClusterContainmentConstraints::verif_shell()\n{ const vpsc::Dim %s = (vpsc::Dim)verif_g_dim; vpsc::Variables& %s = *(vpsc::Variables *)verif_g_vars; "
             "vpsc::Constraints& %s = *(vpsc::Constraints *)verif_g_cs; vpsc::Rectangles verif_bbs; vpsc::Rectangles& %s = verif_bbs;\n" % (pdim, pvars, pcs, pbbs) + fbody + "\n}\n")
    swr = 'extern "C" void w_shell(void *self, int dim, void *vars, void *cs) { verif_g_dim = dim; verif_g_vars = vars; verif_g_cs = cs; ((cola::ClusterContainmentConstraints *)self)->verif_shell(); }\n'
    this_vec = "((struct{void*vptr;int a;int b;unsigned c;_Bool e;void*d;unsigned long n;unsigned long cap;}__attribute__((packed))*)this)"
    inv = ("__CPROVER_same_object(o, {T}->d) && verif_visited <= {T}->n && (char *)o == (char *){T}->d + 8 * verif_visited").replace("{T}", this_vec)
    js.append(Job("containment_shell", "U", spec, "h_shell", enforce="w_shell", replace=["w_visit"], replay=replay_c08,
                  cxx=(base + 'extern "C" { int verif_g_dim; void *verif_g_vars; void *verif_g_cs; void w_visit(void *, void *); }\n' + vpsc_part +
                       cpre("        void verif_shell();\n") + "namespace cola {\n" + scode + "\n}\n" + swr),
                  defines=["JOB_containment_shell"], slices=[f, body], flags=["--object-bits", "12", "--sat-solver", "cadical"], backend="sat:cadical",
                  loops=loops_file([loop_contract("cola::ClusterContainmentConstraints::verif_shell(this)", 0, inv, "o, verif_visited, verif_last_slot",
                                                  "%s->n - verif_visited" % this_vec, {"o": "1::1::o", "this": "this"})]),
                  domain="every cluster with up to 10^6 member entries, both dimensions",
                  expect=[r'w_shell\.postcondition', r'loop_invariant_base', r'loop_invariant_step', r'loop_decreases', r'precondition']))
    # ---------------- the containment constructor, one CHILD CLUSTER: its two boundary variables are held inside the parent's, in both dimensions
    ctor = slice_func(CCC, r'^ClusterContainmentConstraints::ClusterContainmentConstraints\(Cluster \*cluster,', "ClusterContainmentConstraints::ClusterContainmentConstraints")
    _, cbody = fragment_loop(ctor, r'for \(std::vector<Cluster \*>::iterator curr = cluster->clusters\.begin\(\);\s*curr != cluster->clusters\.end\(\); \+\+curr\)',
                             "ClusterContainmentConstraints ctor [loop body: one child cluster]")
    n_new = len(re.findall(r'new ClusterShapeOffsets\(', strip_comments(cbody.text)))
    cbody.text = subst(cbody, [(r'new ClusterShapeOffsets\(', 'verif_new_CSO(', n_new)])
    cso = slice_block(CCC, r'^class ClusterShapeOffsets : public SubConstraintInfo', "class ClusterShapeOffsets")
    sci = slice_func("libcola/compound_constraints.h", r'^\s*SubConstraintInfo\(unsigned ind\) :', "SubConstraintInfo::SubConstraintInfo")
    bmin = slice_func("libcola/box.cpp", r'^double Box::min\(size_t dim\) const', "Box::min")
    bmax = slice_func("libcola/box.cpp", r'^double Box::max\(size_t dim\) const', "Box::max")
    usings = slice_lines(CCC, r'^using vpsc::[XY]DIM;', 2, "using vpsc::XDIM / YDIM")
    pre_ctor = pre0.replace("class SubConstraintInfo {\n    public:\n", "class SubConstraintInfo {\n    public:\n" + sci.text +
                            "\n        SubConstraintInfo() {}   // only so that the other prelude classes derived from it still compile; never called\n")
    if pre_ctor == pre0:
        raise Undecided("C08: prelude/cola_compound.h: class SubConstraintInfo head not found")
    cb_cxx = (base + 'extern "C" { void w_margin(void *cluster, void *box); void *malloc(size_t); }\n' + vpsc_part + usings.text + "\n" + pre_ctor +
              "namespace cola {\n" + consts.text + "\n" + cso.text + ";\n"
              "class Box { public: double min(size_t dim) const; double max(size_t dim) const; double m_min[2]; double m_max[2]; };\n"
              "// front-end workaround: goto-cc types `(c) ? <double> : 0` as int (and converts the double); the literal is written 0.0 (must-fire)\n" +
              subst(bmin, [(r'\? m_min\[dim\] : 0;', '? m_min[dim] : 0.0;', 1)]) + "\n" + subst(bmax, [(r'\? m_max\[dim\] : 0;', '? m_max[dim] : 0.0;', 1)]) + "\n"
              "// Cluster: the two members the body reads; margin() (virtual in the real class) forwards to the harness\n"
              "class Cluster { public: unsigned clusterVarId; Box margin() const { Box b; w_margin((void *)this, (void *)&b); return b; } };\n"
              "class ClusterContainmentConstraints : public CompoundConstraint { public: void verif_child_body(Cluster **curr, Box& padding, Cluster *cluster); };\n"
              "// `new ClusterShapeOffsets(args)` substituted (must-fire) by malloc + the REAL constructor on a temporary + field-wise copy\n"
              "static ClusterShapeOffsets *verif_new_CSO(unsigned ind, vpsc::Dim dim, double offset, int boundarySide, unsigned int boundaryVar) {\n"
              "  ClusterShapeOffsets t(ind, dim, offset, boundarySide, boundaryVar); ClusterShapeOffsets *p = (ClusterShapeOffsets *)malloc(sizeof(ClusterShapeOffsets)); __CPROVER_assume(p != 0);\n"
              "  p->varIndex = t.varIndex; p->satisfied = t.satisfied; p->offset = t.offset; p->dim = t.dim; p->boundarySide = t.boundarySide; p->boundaryVar = t.boundaryVar; return p; }\n"
              "void ClusterContainmentConstraints::verif_child_body(Cluster **curr, Box& padding, Cluster *cluster)\n" + cbody.text + "\n}\n"
              'extern "C" void w_child_body(void *self, void *slot, void *padding, void *cluster) { ((cola::ClusterContainmentConstraints *)self)->verif_child_body('
              '(cola::Cluster **)slot, *(cola::Box *)padding, (cola::Cluster *)cluster); }\n')
    js.append(Job("containment_ctor_child_body", "U", spec, "h_child_body", cxx=cb_cxx, defines=["JOB_child_body"], slices=[ctor, cbody, cso, sci, bmin, bmax, consts],
                  flags=["--sat-solver", "cadical"], backend="sat:cadical", unwind=6, replay=replay_c08, timeout=900,
                  domain="one arbitrary child cluster of one arbitrary cluster, every padding and margin (all doubles), 0..3 earlier entries; plain harness; the order of the four entries is free",
                  expect=[r'h_child_body\.assertion']))
    # ---------------- NonOverlapConstraints::generateSeparationConstraints: one pair of plain shapes (no cluster on either side)
    NOC = "libcola/cc_nonoverlapconstraints.cpp"
    nf = slice_func(NOC, r'^void NonOverlapConstraints::generateSeparationConstraints\(', "NonOverlapConstraints::generateSeparationConstraints")
    _, nbody = fragment_loop(nf, r'for \(std::list<ShapePairInfo>::iterator info = pairInfoList\.begin\(\);\s*info != pairInfoList\.end\(\); \+\+info\)',
                             "NonOverlapConstraints::generateSeparationConstraints [loop body: one pair]")
    av = slice_func("libcola/compound_constraints.cpp", r'^void CompoundConstraint::assertValidVariableIndex\(const vpsc::Variables& vars,', "CompoundConstraint::assertValidVariableIndex")
    av_text = subst(av, [(r'throw InvalidVariableIndexException\(this, index\);', '{ verif_thrown = 1; return; }', 1)])
    nbody.text = subst(nbody, [(r'new vpsc::Constraint\(', 'verif_new_Constraint(', 2),
                               (r'(assertValidVariableIndex\([^;]*\);)', r'\1 if (verif_thrown) return;', 2)])
    rshim = ("    double getCentreD(unsigned const d) const { return w_centreD(minX, maxX, minY, maxY, d); }\n"
             "    double overlapD(const unsigned d, Rectangle* r) { return w_overlapD(minX, maxX, minY, maxY, r->minX, r->maxX, r->minY, r->maxY, d); }\n")
    rect_s = prelude("vpsc_rectangle.h").replace("@RECT_INLINES@", rshim)
    no_pre = ("namespace cola {\n"
              "// classes the pair body mentions; Cluster/Box members are only reached when a shape stands for a cluster, which the contract excludes (bodies absent)\n"
              "#define VERIF_EXCLUDED(ret) { VERIF_STUB_ASSERT(0, \"cluster branch reached although the contract excludes cluster shapes\"); return ret; }\n"
              "class Box { public: double min(size_t dim) const VERIF_EXCLUDED(0) double max(size_t dim) const VERIF_EXCLUDED(0)\n"
              "    vpsc::Rectangle rectangleByApplyingBox(const vpsc::Rectangle rectangle) const VERIF_EXCLUDED(rectangle) double m_min[2]; double m_max[2]; };\n"
              "class Cluster { public: vpsc::Rectangle bounds; unsigned clusterVarId; Box margin() const { Box b; VERIF_EXCLUDED(b) } };\n"
              "class OverlapShapeOffsets : public SubConstraintInfo { public: Cluster *cluster; double halfDim[2]; Box rectPadding; unsigned int group; };\n"
              "class ShapePairInfo { public: unsigned short order; unsigned short varIndex1; unsigned short varIndex2; bool satisfied; bool processed; double overlapMax; };\n"
              "// stand-in for std::map<unsigned, OverlapShapeOffsets>: operator[] forwards to a contract that hands out the entry\n"
              "struct VerifOffsetsMap { OverlapShapeOffsets& operator[](unsigned i) { return *(OverlapShapeOffsets *)w_offsets((void *)this, i); } };\n"
              "class NonOverlapConstraints : public CompoundConstraint { public:\n"
              "    void verif_pair(ShapePairInfo *info, const vpsc::Dim dim, vpsc::Variables& vs, vpsc::Constraints& cs, std::vector<vpsc::Rectangle*>& boundingBoxes);\n"
              "    VerifOffsetsMap shapeOffsets; };\n}\n")
    no_pre_l = no_pre.replace("    void verif_pair(ShapePairInfo *info, const vpsc::Dim dim, vpsc::Variables& vs, vpsc::Constraints& cs, std::vector<vpsc::Rectangle*>& boundingBoxes);\n", "") \
                     .replace("{ return *(OverlapShapeOffsets *)w_offsets((void *)this, i); }", ";")
    layout.check_layout("cola_nonoverlap", vp + "namespace vpsc {\n" + dim.text + "\n}\n" + rect + pre0 + no_pre_l, ["libcola/cc_nonoverlapconstraints.h"],
                        [("cola::OverlapShapeOffsets", ["varIndex", "cluster", "halfDim", "rectPadding", "group"]),
                         ("cola::ShapePairInfo", ["order", "varIndex1", "varIndex2", "satisfied", "processed", "overlapMax"])],
                        sizes=["cola::OverlapShapeOffsets", "cola::ShapePairInfo", "cola::Box"])
    mirror2 = [("cola::OverlapShapeOffsets", "struct OSO", ["varIndex", "satisfied", "cluster", "halfDim", "rectPadding", "group"]),
               ("cola::ShapePairInfo", "struct SPI", ["order", "varIndex1", "varIndex2", "satisfied", "processed", "overlapMax"]),
               ("vpsc::Rectangle", "struct Rect", ["minX", "maxX", "minY", "maxY", "overlap"])]
    js.append(c01.mirror_job("#include <vector>\n" + 'extern "C" { double w_centreD(double, double, double, double, unsigned); double w_overlapD(double, double, double, double, double, double, double, double, unsigned); void *w_offsets(void *, unsigned); }\n' +
                             vp + "namespace vpsc {\n" + dim.text + "\n}\n" + rect_s + pre0 + no_pre, spec, mirror2, name="mirror_layout_nonoverlap"))
    ncode = ("void NonOverlapConstraints::verif_pair(ShapePairInfo *info, const vpsc::Dim dim, vpsc::Variables& vs, vpsc::Constraints& cs, std::vector<vpsc::Rectangle*>& boundingBoxes)\n" +
             body_continue_to_return(nbody))
    nwr = ('extern "C" void w_pair(void *self, void *info, int dim, void *vs, void *cs, void *bbs) { ((cola::NonOverlapConstraints *)self)->verif_pair((cola::ShapePairInfo *)info, '
           '(vpsc::Dim)dim, *(vpsc::Variables *)vs, *(vpsc::Constraints *)cs, *(std::vector<vpsc::Rectangle*> *)bbs); }\n')
    ncxx = (base + 'extern "C" { double w_centreD(double, double, double, double, unsigned); double w_overlapD(double, double, double, double, double, double, double, double, unsigned); void *w_offsets(void *, unsigned); }\n' +
            vp + "namespace vpsc {\n" + dim.text + "\n}\n" + rect_s + "namespace vpsc {\n" + cctor.text + "\n}\n" + pre0 + no_pre + NEW_HELPER +
            "namespace cola {\n" + av_text + "\n" + ncode + "\n}\n" + nwr)
    js.append(Job("nonoverlap_pair_body", "U", spec, "h_pair", cxx=ncxx, defines=["JOB_pair"],
                  slices=[nf, nbody, av, cctor], flags=["--sat-solver", "cadical"], backend="sat:cadical", unwind=4, replay=replay_c08, timeout=900,
                  domain="one arbitrary pair of plain shapes (neither stands for a cluster), both dimensions, all doubles; Rectangle::getCentreD/overlapD behind contracts (uninterpreted)",
                  expect=[r'h_pair\.assertion'],
                  note="plain harness: three variables/rectangles with symbolic contents, any two distinct indices among them, a constraint list with 0..3 earlier entries"))
    # ---------------- ShapePair: the key of the exemption set.  Two pairs are the same key only if they are the same unordered pair of indices
    # (std::set treats a and b as equal when neither a<b nor b<a), so an undeclared pair can never be taken for a declared exempt one
    spc = slice_block("libcola/shapepair.h", r'^class ShapePair\n\{', "class ShapePair")
    spk = slice_func("libcola/shapepair.cpp", r'^ShapePair::ShapePair\(unsigned ind1, unsigned ind2\)', "ShapePair::ShapePair")
    spl = slice_func("libcola/shapepair.cpp", r'^bool ShapePair::operator<\(const ShapePair& rhs\) const', "ShapePair::operator<")
    sp_cxx = ("#include <verif_base.h>\nnamespace cola {\n" + spc.text + ";\n" + spk.text + "\n" + spl.text + "\n}\n"
              'extern "C" int w_pair_less(unsigned a1, unsigned a2, unsigned b1, unsigned b2) { cola::ShapePair a(a1, a2), b(b1, b2); return (a < b) ? 1 : 0; }\n')
    js.append(Job("ShapePair_order", "U", spec, "h_pair_less", cxx=sp_cxx, defines=["JOB_pair_less"], slices=[spc, spk, spl], replay=replay_c08,
                  domain="every two pairs of distinct indices below 2^16 (the class stores unsigned short), given in either order",
                  expect=[r'h_pair_less\.assertion']))
    # (NonOverlapConstraintExemptions::addExemptGroupOfNodes -- vector of vectors, std::sort/unique/erase, std::set -- was tried as a bounded job with stub
    #  models of those library functions; cbmc did not finish in 900 s even for two groups of two ids, so it is NOT under obligation: seed C08-3 is a miss)
    # ---------------- RectangularCluster::generateFixedRectangleConstraints: a cluster bound to a node rectangle has its four boundary variables tied to that
    # rectangle's sides -- X with half the WIDTH, Y with half the HEIGHT, as equalities (whole function, straight-line; SeparationConstraint is a recording stand-in)
    gf = slice_func("libcola/cluster.cpp", r'^void RectangularCluster::generateFixedRectangleConstraints\(', "RectangularCluster::generateFixedRectangleConstraints")
    sdecl = slice_region("libcola/compound_constraints.h", r'^        SeparationConstraint\(const vpsc::Dim dim, unsigned l, unsigned r,', r'\);', "SeparationConstraint(dim, l, r, g, equality) declaration")
    if re.sub(r'\s+', ' ', sdecl.text).strip() != "SeparationConstraint(const vpsc::Dim dim, unsigned l, unsigned r, double g, bool equality = false);":
        raise Undecided("C08: the declaration of SeparationConstraint(dim, l, r, g, equality) changed: " + sdecl.text)
    gf_cxx = (base + 'extern "C" { void w_new_sep(int dim, unsigned l, unsigned r, double gap, int eq); void w_pushed(void *c); double w_width(void *r); double w_height(void *r); }\n'
              "namespace vpsc {\n" + dim.text + "\nclass Variable; typedef std::vector<Variable *> Variables;\n"
              "class Rectangle { public: double width() const { return w_width((void *)this); } double height() const { return w_height((void *)this); } int verif_pad; };\n"
              "typedef std::vector<Rectangle *> Rectangles;\n}\n"
              "namespace cola {\nclass CompoundConstraint { public: int verif_pad; };\n"
              "// recording stand-in with the parameter list of the real declaration (checked textually above)\n"
              "class SeparationConstraint : public CompoundConstraint { public: SeparationConstraint(const vpsc::Dim dim, unsigned l, unsigned r, double g, bool equality = false) { w_new_sep((int)dim, l, r, g, equality ? 1 : 0); } };\n"
              "struct CompoundConstraints { void push_back(CompoundConstraint *c) { w_pushed((void *)c); } };\n"
              "class RectangularCluster { public: unsigned clusterVarId; int m_rectangle_index;\n"
              "    void generateFixedRectangleConstraints(cola::CompoundConstraints& idleConstraints, vpsc::Rectangles& rc, vpsc::Variables (&vars)[2]) const; };\n" +
              gf.text + "\n}\n"
              "static vpsc::Rectangle verif_rect[3]; static vpsc::Rectangle *verif_rcd[3];\n"
              'extern "C" int verif_rect_index(void *r) { for (int k = 0; k < 3; ++k) if (r == (void *)&verif_rect[k]) return k; return -1; }\n'
              'extern "C" void w_fixed(int rectIndex, unsigned clusterVarId) { cola::RectangularCluster c; c.clusterVarId = clusterVarId; c.m_rectangle_index = rectIndex;\n'
              "  vpsc::Rectangles rc; for (int k = 0; k < 3; ++k) verif_rcd[k] = &verif_rect[k]; rc._d = verif_rcd; rc._n = 3; rc._cap = 3; vpsc::Variables vars[2]; cola::CompoundConstraints idle;\n"
              "  c.generateFixedRectangleConstraints(idle, rc, vars); }\n")
    js.append(Job("fixed_rectangle_cluster_constraints", "U", spec, "h_fixed", cxx=gf_cxx, defines=["JOB_fixed_rect"], slices=[gf, sdecl, dim], replay=replay_c08,
                  flags=["--sat-solver", "cadical"], backend="sat:cadical", timeout=600,
                  domain="every rectangle index in [-1,2] of three rectangles, every cluster variable id below 2^30, every width and height (all doubles)",
                  expect=[r'h_fixed\.assertion'],
                  note="plain harness, loop-free function: complete over the stated domain"))
    return js


LEVEL = "other"
TRUSTED = [
    "cbmc/goto-cc/goto-instrument 6.11.0; CaDiCaL back end",
    "prelude/cola_compound.h + the two class declarations in contracts/C08/jobs.py (data members only; layout cross-checked on every run against "
    "libcola/cc_clustercontainmentconstraints.cpp, which defines the file-local ClusterShapeOffsets); C mirror structs proved equal to CBMC's layout (job mirror_layout)",
    "`new vpsc::Constraint(..)` substituted by malloc + the REAL constructor on a temporary + field-wise copy; allocation assumed to succeed",
    "loop shell: the loop body is replaced textually (exactly one occurrence, checked) by a call behind a counting contract",
]
ASSUMPTIONS = [
    "PARTIAL CLAIM: the statement of C08 is NOT decided.  Under contract are only (1) the translation of one cluster's member entries into VPSC constraints "
    "(ClusterContainmentConstraints::generateSeparationConstraints) and (2) the body of NonOverlapConstraints::generateSeparationConstraints for one pair of plain shapes.  "
    "Also under contract: the containment constructor's loop body for one CHILD CLUSTER (four entries, order free), and RectangularCluster::generateFixedRectangleConstraints "
    "(a cluster bound to a node rectangle: four equalities tying its boundary variables to the rectangle's sides; SeparationConstraint and Rectangle are recording stand-ins). Not under any obligation: the entries the constructor "
    "builds for member NODES (std::set iteration), pairs in which a shape stands "
    "for a cluster, the pair list itself (std::list, every pair present; of the exemption set only its key order ShapePair::operator< is under contract), makeFeasible's choice among the four directions, the descent loop ending in a projection "
    "(see C07), cluster bounding boxes, and hence 'no two rectangles overlap' / containment in the result",
    "non-overlap pair job: plain harness (goto-instrument --dfcc ran out of memory): three variables and rectangles with arbitrary contents, any two distinct indices, 0..3 "
    "earlier constraints; std::map<unsigned,OverlapShapeOffsets> behind a stand-in whose operator[] may only be asked for the pair's own indices; Rectangle::getCentreD and "
    "overlapD are uninterpreted functions of the rectangle's four coordinates and the dimension (what they compute is C09's business); Cluster/Box members have asserting "
    "bodies (unreachable under the no-cluster precondition, and proved so)",
    "variable indices inside the variable list are a precondition here (the function itself does not check them)",
]
EXPLANATION = ("Contract on the real ClusterContainmentConstraints::generateSeparationConstraints: each member entry yields, in its own dimension only, exactly the inequality that "
               "keeps the member at least its offset inside the named cluster boundary variable (lower boundary + offset <= member, or member + offset <= upper boundary), with the "
               "creator back-pointer set; every entry is visited. The constructor's loop body for one child cluster records exactly the four entries that hold the child's two boundary variables inside the parent's (padding + margin). Contract-style harness on the real pair body of NonOverlapConstraints::generateSeparationConstraints: a pair of plain "
               "shapes overlapping in the other axis by more than 0.0005 gets one separation in this axis, smaller centre first, gap = sum of half sizes. A cluster bound to a node rectangle gets exactly the four equalities that tie its boundary variables to that rectangle's sides (half the width in X, half the height in Y). Everything else C08 states is undecided.")
