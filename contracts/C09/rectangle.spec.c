/* C09: removeoverlaps -- sizes kept, borders restored, generated separations separate (DESIGN.md 5/C09).
 *
 * Scaled-integer mode (INT_MODE): every `double` of the sliced code is retyped `long long` and `/2.0` becomes `/2`;
 * all inputs are multiples of 4 with |v| <= 2^40, overflow-checked.  This is the semantics IEEE doubles have on
 * such inputs (all operands and results exactly representable); real-valued inputs near a rounding edge are outside
 * the claim (a 1-ulp-wide rectangle at 1e6 gives a 2-ulp "overlap": recorded observation, far below 1e-6).
 */
#ifdef INT_MODE
#define double long long
#endif
#define PACKED __attribute__((packed))
struct PACKED Rect { double minX, maxX, minY, maxY; _Bool overlap; };
struct PACKED NodeM { void *v; struct Rect *r; double pos; void *firstAbove, *firstBelow; void *leftNeighbours, *rightNeighbours; };

/* accessors/wrappers defined in the C++ TU (the border statics are C++ static members) */
double verif_get_xBorder(void); double verif_get_yBorder(void); void verif_set_borders(double x, double y);
double w_width(void *r); double w_height(void *r); double w_getMinX(void *r); double w_getMaxX(void *r);
double w_getMinY(void *r); double w_getMaxY(void *r); double w_getCentreX(void *r); double w_getCentreY(void *r);
void w_moveCentreX(void *r, double x); void w_moveCentreY(void *r, double y);
void w_moveMinX(void *r, double x); void w_moveMinY(void *r, double y);
double w_overlapX(void *u, void *v); double w_overlapY(void *u, void *v);

#if defined(JOB_mirror_layout)
@MIRROR_CHECKS@
#endif

#ifdef INT_MODE
#ifndef LIM
#define LIM (1LL << 40)
#endif
#define M4(x) ((x) % 4 == 0 && (x) >= -LIM && (x) <= LIM)
#define VALID_RECT(r) (M4((r).minX) && M4((r).maxX) && M4((r).minY) && M4((r).maxY) && (r).minX <= (r).maxX && (r).minY <= (r).maxY)
#define SETUP_BORDERS double xb, yb; __CPROVER_assume(M4(xb) && M4(yb) && xb >= 0 && yb >= 0 && xb <= 4096 && yb <= 4096); verif_set_borders(xb, yb)
#define SAME_BUT_X(a, b) ((a).minY == (b).minY && (a).maxY == (b).maxY && (a).overlap == (b).overlap)
#define SAME_BUT_Y(a, b) ((a).minX == (b).minX && (a).maxX == (b).maxX && (a).overlap == (b).overlap)
#endif

/* ------------------------------------------------------------ size preservation */
#if defined(JOB_move)
void h_move(void)
{
    SETUP_BORDERS;
    struct Rect r; __CPROVER_assume(VALID_RECT(r));
    struct Rect r0 = r; double p; __CPROVER_assume(M4(p));
    double w0 = w_width(&r), h0 = w_height(&r);
#if WHICH == 0
    w_moveCentreX(&r, p);
    __CPROVER_assert(w_getCentreX(&r) == p, "SPEC moveCentreX puts the centre where asked");
    __CPROVER_assert(SAME_BUT_X(r, r0), "SPEC moveCentreX leaves the y-extent and the flag alone");
#elif WHICH == 1
    w_moveCentreY(&r, p);
    __CPROVER_assert(w_getCentreY(&r) == p, "SPEC moveCentreY puts the centre where asked");
    __CPROVER_assert(SAME_BUT_Y(r, r0), "SPEC moveCentreY leaves the x-extent and the flag alone");
#elif WHICH == 2
    w_moveMinX(&r, p);
    __CPROVER_assert(w_getMinX(&r) == p, "SPEC moveMinX puts the (border-extended) minimum where asked");
    __CPROVER_assert(SAME_BUT_X(r, r0), "SPEC moveMinX leaves the y-extent and the flag alone");
#else
    w_moveMinY(&r, p);
    __CPROVER_assert(w_getMinY(&r) == p, "SPEC moveMinY puts the (border-extended) minimum where asked");
    __CPROVER_assert(SAME_BUT_Y(r, r0), "SPEC moveMinY leaves the x-extent and the flag alone");
#endif
    __CPROVER_assert(w_width(&r) == w0 && w_height(&r) == h0, "SPEC moving a rectangle keeps its width and height");
    __CPROVER_assert(verif_get_xBorder() == xb && verif_get_yBorder() == yb, "SPEC moving a rectangle does not touch the border settings");
    VERIF_CANARY;
}
#endif

/* ------------------------------------------------------------ overlap predicate == geometry */
#if defined(JOB_overlap)
void h_overlap(void)
{
    SETUP_BORDERS;
    struct Rect u, v; __CPROVER_assume(VALID_RECT(u) && VALID_RECT(v));
    /* border-extended open extents */
    double ul = u.minX - xb, ur = u.maxX + xb, vl = v.minX - xb, vr = v.maxX + xb;
    double ut = u.minY - yb, ub = u.maxY + yb, vt = v.minY - yb, vb = v.maxY + yb;
    double ox = w_overlapX(&u, &v), oy = w_overlapY(&u, &v);
    __CPROVER_assert((ox > 0) == (ul < vr && vl < ur), "SPEC overlapX > 0 iff the open x-extents intersect");
    __CPROVER_assert((oy > 0) == (ut < vb && vt < ub), "SPEC overlapY > 0 iff the open y-extents intersect");
    __CPROVER_assert(ox >= 0 && oy >= 0, "SPEC overlap amounts are never negative");
    VERIF_CANARY;
}
#endif

/* ------------------------------------------------------------ separation lemma for the generated constraints */
#if defined(JOB_sep)
double w_sep(int k, void *v, void *u);    /* the k-th `double sep = ...;` expression of generateX/YConstraints */
void h_sep(void)
{
    SETUP_BORDERS;
    struct Rect ru, rv; __CPROVER_assume(VALID_RECT(ru) && VALID_RECT(rv));
    struct NodeM nu, nv; nu.r = &ru; nv.r = &rv;
    int k; __CPROVER_assume(k == KIDX);
    double sep = w_sep(k, &nv, &nu);
    double pu, pv; __CPROVER_assume(M4(pu) && M4(pv));
    /* any placement of the two centres satisfying the generated constraint  left + sep <= right ... */
    __CPROVER_assume(pu + sep <= pv);
#if KDIM == 0
    w_moveCentreX(&ru, pu); w_moveCentreX(&rv, pv);
    __CPROVER_assert(!(w_overlapX(&ru, &rv) > 0), "SPEC a placement satisfying a generated x-separation has no x-overlap for that pair");
    __CPROVER_assert(ru.maxX + xb <= rv.minX - xb, "SPEC ... the border-extended x-extents are disjoint");
#else
    w_moveCentreY(&ru, pu); w_moveCentreY(&rv, pv);
    __CPROVER_assert(!(w_overlapY(&ru, &rv) > 0), "SPEC a placement satisfying a generated y-separation has no y-overlap for that pair");
    __CPROVER_assert(ru.maxY + yb <= rv.minY - yb, "SPEC ... the border-extended y-extents are disjoint");
#endif
    VERIF_CANARY;
}
#endif

/* ------------------------------------------------------------ border settings restored (IEEE, bitwise) */
#if defined(JOB_borders)
void w_removeoverlaps_projection(_Bool thirdPass);
static unsigned long long bits(double d) { union { double d; unsigned long long u; } c; c.d = d; return c.u; }
void h_borders(void)
{
    double x1, y1, x2, y2; _Bool t1, t2;
    verif_set_borders(x1, y1);
    w_removeoverlaps_projection(t1);
    __CPROVER_assert(bits(verif_get_xBorder()) == bits(x1) && bits(verif_get_yBorder()) == bits(y1),
                     "SPEC removeoverlaps restores the global x/y border settings (first call)");
    /* the application changes the borders and calls again */
    verif_set_borders(x2, y2);
    w_removeoverlaps_projection(t2);
    __CPROVER_assert(bits(verif_get_xBorder()) == bits(x2) && bits(verif_get_yBorder()) == bits(y2),
                     "SPEC removeoverlaps restores the global x/y border settings (a later call under different borders)");
    VERIF_CANARY;
}
#endif

/* ------------------------------------------------------------ scan-line Close event: a separation for every neighbour */
#if defined(JOB_close_event)
/* When a node closes, the scan line must emit one separation constraint towards its neighbour above (l -> v) and one
 * towards its neighbour below (v -> r), and link the two neighbours to each other.  "Any placement satisfying the generated
 * constraints has no overlapping pair" rests on no neighbouring pair being skipped here (the gap itself is covered by the
 * separation_* jobs, which slice the same `double sep = ...` lines). */
struct PACKED vecp { void **d; size_t n; size_t cap; };
struct PACKED Con { void *left, *right; double gap, lm; long timeStamp; _Bool active; _Bool equality; _Bool unsatisfiable; _Bool needsScaling; void *creator; };
void w_close_event(void *v, void *cs);
void h_close_event(void)
{
    struct Rect rv, rl, rr; struct NodeM v, l, r; char varv, varl, varr; void *slots[4]; struct vecp cs; _Bool hasl, hasr; void *a0, *b0;
    v.r = &rv; l.r = &rl; r.r = &rr; v.v = &varv; l.v = &varl; r.v = &varr;
    v.firstAbove = hasl ? &l : (void *)0; v.firstBelow = hasr ? &r : (void *)0;
    l.firstBelow = &v; r.firstAbove = &v; l.firstAbove = a0; r.firstBelow = b0;
    size_t n0; __CPROVER_assume(n0 <= 2);
    cs.d = slots; cs.n = n0; cs.cap = 4;
    w_close_event(&v, &cs);
    __CPROVER_assert(cs.n == n0 + (hasl ? 1 : 0) + (hasr ? 1 : 0), "SPEC scan-line close: exactly one separation constraint per existing neighbour (above, below)");
    size_t k = n0;
    if (hasl) {
        struct Con *c = (struct Con *)slots[k];
        __CPROVER_assert(c->left == (void *)&varl && c->right == (void *)&varv && !c->equality, "SPEC scan-line close: the neighbour above is constrained to stay before the closing node");
        __CPROVER_assert(l.firstBelow == v.firstBelow, "SPEC scan-line close: the neighbour above is re-linked to the closing node's lower neighbour");
        k++;
    }
    if (hasr) {
        struct Con *c = (struct Con *)slots[k];
        __CPROVER_assert(c->left == (void *)&varv && c->right == (void *)&varr && !c->equality, "SPEC scan-line close: the closing node is constrained to stay before the neighbour below");
        __CPROVER_assert(r.firstAbove == v.firstAbove, "SPEC scan-line close: the neighbour below is re-linked to the closing node's upper neighbour");
    }
    VERIF_CANARY;
}
#endif

/* ------------------------------------------------------------------------------------------------
 * Head of generateXConstraints / generateYConstraints: each variable's desired position is set to its rectangle's current
 * centre -- for EVERY rectangle, in EVERY call (also for 0 or 1 rectangles).  removeoverlaps creates the variables at 0 and
 * gives fixed rectangles weight 10000; "fixed rectangles move by a negligible amount" rests on this assignment. */
struct PACKED vec9 { void *d; size_t n; size_t cap; };
#define V9(p) ((struct vec9 *)(p))
#if defined(JOB_head_shell)
unsigned long verif_visited;
extern void *verif_g_rs, *verif_g_vars;
void w_head_visit(void *ri, void *vi, unsigned long i)
#if defined(HEAD_X)
__CPROVER_requires(i == verif_visited)                         /* indices in order, none skipped */
#else
__CPROVER_requires(ri == (void *)((void **)V9(verif_g_rs)->d + verif_visited) && vi == (void *)((void **)V9(verif_g_vars)->d + verif_visited))
#endif
__CPROVER_ensures(verif_visited == __CPROVER_old(verif_visited) + 1)
__CPROVER_assigns(verif_visited)
;
void w_head(void *rs, void *vars)
__CPROVER_requires(__CPROVER_is_fresh(rs, sizeof(struct vec9)) && __CPROVER_is_fresh(vars, sizeof(struct vec9)) && V9(rs)->n <= 1000000 && V9(vars)->n <= 1000000)
__CPROVER_requires(V9(vars)->n >= V9(rs)->n && verif_visited == 0)      /* the function's own COLA_ASSERT */
__CPROVER_requires(__CPROVER_is_fresh(V9(rs)->d, V9(rs)->n * sizeof(void *)) && __CPROVER_is_fresh(V9(vars)->d, V9(vars)->n * sizeof(void *)))
__CPROVER_ensures(verif_visited == V9(rs)->n)
__CPROVER_assigns(verif_visited, verif_g_rs, verif_g_vars)
;
void h_head(void) { void *rs, *vars; w_head(rs, vars); VERIF_CANARY; }
#endif
#if defined(JOB_head_body)
double __CPROVER_uninterpreted_centre(void *, int);
static unsigned long long bits9(double d) { union { double d; unsigned long long u; } c; c.d = d; return c.u; }
double w_centre(void *r, int dim)
__CPROVER_requires(1)
__CPROVER_ensures(bits9(__CPROVER_return_value) == bits9(__CPROVER_uninterpreted_centre(r, dim)))
__CPROVER_assigns()
;
#if defined(HEAD_X)
#define HDIM 0
#else
#define HDIM 1
#endif
struct PACKED Var9 { int id; double desiredPosition; };
void w_head_body(void *rs, void *vars, unsigned long i)
__CPROVER_requires(__CPROVER_is_fresh(rs, sizeof(struct vec9)) && __CPROVER_is_fresh(vars, sizeof(struct vec9)) && V9(rs)->n <= 1000000 && V9(vars)->n <= 1000000)
__CPROVER_requires(__CPROVER_is_fresh(V9(rs)->d, V9(rs)->n * sizeof(void *)) && __CPROVER_is_fresh(V9(vars)->d, V9(vars)->n * sizeof(void *)))
__CPROVER_requires(i < V9(rs)->n && i < V9(vars)->n && __CPROVER_is_fresh(((void **)V9(vars)->d)[i], 128))
__CPROVER_ensures(bits9(((struct Var9 *)((void **)V9(vars)->d)[i])->desiredPosition) == bits9(__CPROVER_uninterpreted_centre(((void **)V9(rs)->d)[i], HDIM)))
__CPROVER_assigns(((struct Var9 *)((void **)V9(vars)->d)[i])->desiredPosition)
;
void h_head_body(void) { void *rs, *vars; unsigned long i; w_head_body(rs, vars, i); VERIF_CANARY; }
#endif

/* ------------------------------------------------------------------------------------------------
 * Solver::refine, one pass: it may end with "solved" only if EVERY block of the set was asked for its minimal Lagrange multiplier
 * and none was below the tolerance; a split ends the pass unsolved.  BOUNDED: up to 3 blocks. */
#if defined(JOB_refine_pass)
int w_refine_pass(void); void *verif_constraint(unsigned k, double lm);
static char blk[3][8]; static unsigned long nblocks; static _Bool examined[3], has_c[3], was_split; static double lmv[3];
unsigned long w_bs_size(void) { return nblocks; }
void *w_bs_at(unsigned long i) { __CPROVER_assert(i < nblocks, "SPEC bs->at within the block set"); return blk[i]; }
void *w_findMinLM(void *b) { for (unsigned k = 0; k < 3; ++k) if (b == (void *)blk[k]) { examined[k] = 1; return has_c[k] ? verif_constraint(k, lmv[k]) : (void *)0; } return (void *)0; }
void w_pass_note(int what, void *b) { if (what == 3) was_split = 1; }
void h_refine_pass(void)
{
  _Bool hc[3]; double lm[3]; unsigned long n;
  __CPROVER_assume(n <= 3);
  nblocks = n; was_split = 0;
  for (int k = 0; k < 3; ++k) { __CPROVER_assume(!IS_NAN(lm[k])); examined[k] = 0; has_c[k] = hc[k]; lmv[k] = lm[k]; }
  int solved = w_refine_pass();
  if (solved) {
    for (unsigned k = 0; k < 3; ++k) if (k < n) {
      __CPROVER_assert(examined[k], "SPEC a pass that ends solved has examined every block of the set");
      __CPROVER_assert(!(hc[k] && lm[k] < -1e-4), "SPEC a pass that ends solved found no block whose minimal multiplier is below the tolerance");
    }
    __CPROVER_assert(!was_split, "SPEC a pass that split a block does not end solved");
  }
  VERIF_CANARY;
}
#endif

/* ------------------------------------------------------------------------------------------------
 * removeoverlaps, write-back after a solve: EVERY rectangle k is moved exactly once, in the pass's dimension, to the final position of variable k --
 * whether or not k is in the fixed set (fixed rectangles are heavy, not immovable; skipping them leaves their neighbours placed relative to a position
 * the rectangle does not have).  BOUNDED: 0 to 3 rectangles. */
#if defined(JOB_writeback)
void w_writeback(int pass, unsigned n, double f0, double f1, double f2, unsigned nfixed, unsigned fx0, unsigned fx1, int thirdPass); int verif_rect_index(void *r);
static int moved_n[3], moved_dim_ok[3]; static double moved_to[3]; static int wb_pass;
void w_moved(void *r, int dim, double to) { int k = verif_rect_index(r); __CPROVER_assert(k >= 0, "SPEC only the caller's rectangles are moved"); if (k >= 0) { moved_n[k]++; moved_to[k] = to; moved_dim_ok[k] = (dim == wb_pass); } }
void h_writeback(void)
{
  int pass, thirdPass; unsigned n, nfixed, fx[2]; double f[3];
  __CPROVER_assume((pass == 0 || pass == 1 || pass == 2) && (thirdPass == 0 || thirdPass == 1) && n <= 3 && nfixed <= 2 && fx[0] < 3 && fx[1] < 3);
  for (int k = 0; k < 3; ++k) { __CPROVER_assume(!__CPROVER_isnand(f[k])); moved_n[k] = 0; moved_dim_ok[k] = 0; }
  wb_pass = (pass == 1) ? 1 : 0;     /* pass 0 and 2 (third pass) write x, pass 1 writes y */
  w_writeback(pass, n, f[0], f[1], f[2], nfixed, fx[0], fx[1], thirdPass);
  for (unsigned k = 0; k < 3; ++k) {
    if (k < n) __CPROVER_assert(moved_n[k] == 1 && moved_dim_ok[k] && moved_to[k] == f[k], "SPEC every rectangle, fixed or not, is moved once to its variable's final position in the pass's dimension");
    else __CPROVER_assert(moved_n[k] == 0, "SPEC nothing beyond the rectangle list is touched");
  }
  VERIF_CANARY;
}
#endif
