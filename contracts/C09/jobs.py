"""C09 jobs: removeoverlaps -- sizes kept, borders restored, generated constraints separate (DESIGN.md 5/C09)."""
import os, importlib.util, glob
from vf import *
from common import *
import layout

HERE = os.path.dirname(os.path.abspath(__file__))
RH, RC = "libvpsc/rectangle.h", "libvpsc/rectangle.cpp"
INL = ["getMaxX", "getMaxY", "getMinX", "getMinY", "getCentreX", "getCentreY", "width", "height",
       "moveCentreX", "moveCentreY", "moveMinX", "moveMinY", "overlapX", "overlapY"]
HALVE = {"getCentreX": 1, "getCentreY": 1, "moveCentreX": 1, "moveCentreY": 1}


def _c01():
    p = os.path.join(VERIF, "contracts", "C01", "jobs.py")
    spec = importlib.util.spec_from_file_location("jobs_C01_for_C09", p)
    m = importlib.util.module_from_spec(spec)
    spec.loader.exec_module(m)
    return m


REPLAY_SRC = r'''
// Native replay for C09 obligations on the REAL libvpsc (rebuilt from the working tree):
// removeoverlaps() called repeatedly in one process under different border settings, with and without a fixed set and
// the third pass; after each call: borders restored, sizes kept, no overlap above 1e-6 (with the caller's borders).
#include "libvpsc/rectangle.h"
#include "libvpsc/variable.h"
#include "libvpsc/constraint.h"
#include "libvpsc/solve_VPSC.h"
#include <cstdio>
#include <cmath>
#include <set>
#include <csignal>
#include <unistd.h>
using namespace vpsc;
// removeoverlaps ends with COLA_ASSERT(noRectangleOverlaps(rs)); depending on the build that throws or aborts: an abort is a reproduced violation too
static void on_abort(int) { const char m[] = "REPRODUCED: removeoverlaps aborted on its own closing overlap check\n"; ssize_t u = write(1, m, sizeof(m) - 1); (void)u; _exit(1); }
int main() {
  int bad = 0;
  signal(SIGABRT, on_abort);
  // rectangles named as fixed stay put when nothing pushes them: alone, or apart from the others (0, 1, 2 other rectangles)
  for (int others = 0; others <= 2; ++others) for (int third = 0; third < 2; ++third) {
    Rectangles frs; frs.push_back(new Rectangle(90, 110, 40, 50));
    for (int k = 0; k < others; ++k) frs.push_back(new Rectangle(300 + 50 * k, 320 + 50 * k, 200, 210));
    std::set<unsigned> ffixed; ffixed.insert(0);
    removeoverlaps(frs, ffixed, third != 0);
    if (std::fabs(frs[0]->getCentreX() - 100) > 0.15 || std::fabs(frs[0]->getCentreY() - 45) > 0.15) {
      printf("a fixed rectangle with nothing overlapping it (%d other rectangle(s), thirdPass=%d) moved from (100,45) to (%g,%g)\n", others, third, frs[0]->getCentreX(), frs[0]->getCentreY()); bad++; }
    for (size_t k = 0; k < frs.size(); ++k) delete frs[k];
  }
  // a caller-set border: a fixed rectangle that nothing pushes stays put also when Rectangle::xBorder / yBorder are not zero
  for (int third = 0; third < 2; ++third) {
    Rectangle::setXBorder(0.5); Rectangle::setYBorder(0.25);
    Rectangles bs; bs.push_back(new Rectangle(0, 4, 0, 4)); bs.push_back(new Rectangle(20, 24, 0, 4)); bs.push_back(new Rectangle(0, 4, 20, 24));
    std::set<unsigned> bf; bf.insert(0); bf.insert(1);
    double x0 = (bs[0]->getMinX() + bs[0]->getMaxX()) / 2, x1 = (bs[1]->getMinX() + bs[1]->getMaxX()) / 2;
    removeoverlaps(bs, bf, third != 0);
    double m0 = (bs[0]->getMinX() + bs[0]->getMaxX()) / 2 - x0, m1 = (bs[1]->getMinX() + bs[1]->getMaxX()) / 2 - x1;
    if (std::fabs(m0) > 0.04 || std::fabs(m1) > 0.04) { printf("border 0.5: fixed rectangles with nothing overlapping them moved in x by %g and %g (thirdPass=%d)\n", m0, m1, third); bad++; }
    Rectangle::setXBorder(0); Rectangle::setYBorder(0);
    for (size_t k = 0; k < bs.size(); ++k) delete bs[k];
  }
  // a block needing a split that stands BEHIND another one that needs a split (whose split merges an earlier block away): both get refined
  for (int third = 0; third < 2; ++third) {
    const double Q[7][4] = {{0, 30, -11.4, -1.4}, {16, 29, 9, 19}, {116, 129, 9, 19}, {0, 30, 0, 10}, {1, 14, 7, 17}, {100, 130, 0, 10}, {101, 114, 5, 15}};
    Rectangles qs; for (int i = 0; i < 7; ++i) qs.push_back(new Rectangle(Q[i][0], Q[i][1], Q[i][2], Q[i][3]));
    std::set<unsigned> qf; qf.insert(2); qf.insert(6);
    removeoverlaps(qs, qf, third != 0);
    double avg = 0; for (int i = 0; i < 7; ++i) avg += (Q[i][1] - Q[i][0] + Q[i][3] - Q[i][2]) / 14.0;
    for (int i = 2; i < 7; i += 4) {
      double dx = qs[i]->getCentreX() - (Q[i][0] + Q[i][1]) / 2, dy = qs[i]->getCentreY() - (Q[i][2] + Q[i][3]) / 2;
      if (std::fabs(dx) > 0.01 * avg || std::fabs(dy) > 0.01 * avg) { printf("seven-rectangle scene: fixed rectangle %d moved by (%g,%g) (thirdPass=%d); 1%% of the average size is %g\n", i, dx, dy, third, 0.01 * avg); bad++; }
    }
    for (size_t k = 0; k < qs.size(); ++k) delete qs[k];
  }
  // two fixed rectangles that the first (satisfy) phase merges into one block with the free ones: the refinement must separate the block
  // again and its result must be what comes back (fixed rectangles move by less than 1% of the average size)
  for (int third = 0; third < 2; ++third) {
    const double Q[4][4] = {{-1.0, 1.0, 0.0, 10.0}, {0.3, 1.3, 6.0, 9.0}, {0.1, 1.7, 0.5, 4.0}, {1.1, 2.1, 1.0, 4.5}};
    Rectangles qs; for (int i = 0; i < 4; ++i) qs.push_back(new Rectangle(Q[i][0], Q[i][1], Q[i][2], Q[i][3]));
    std::set<unsigned> qf; qf.insert(1); qf.insert(3);
    removeoverlaps(qs, qf, third != 0);
    double avg = 0; for (int i = 0; i < 4; ++i) avg += (Q[i][1] - Q[i][0] + Q[i][3] - Q[i][2]) / 8.0;
    for (int i = 1; i < 4; i += 2) {
      double dx = qs[i]->getCentreX() - (Q[i][0] + Q[i][1]) / 2, dy = qs[i]->getCentreY() - (Q[i][2] + Q[i][3]) / 2;
      if (std::fabs(dx) > 0.01 * avg || std::fabs(dy) > 0.01 * avg) { printf("fixed rectangle %d moved by (%g,%g) (thirdPass=%d); 1%% of the average size is %g\n", i, dx, dy, third, 0.01 * avg); bad++; }
    }
    for (size_t k = 0; k < qs.size(); ++k) delete qs[k];
  }
  const double B[4][2] = {{0, 0}, {2, 3}, {0.5, 0.25}, {0, 0}};
  const double R[6][4] = {{0,10,0,10},{5,15,5,15},{5,15,0,10},{20,30,0,10},{22,28,2,8},{0,10,0,10}};
  for (int round = 0; round < 4; ++round) {
    Rectangle::setXBorder(B[round][0]); Rectangle::setYBorder(B[round][1]);
    Rectangles rs; double w[6], h[6];
    for (int i = 0; i < 6; ++i) { rs.push_back(new Rectangle(R[i][0], R[i][1], R[i][2], R[i][3])); w[i] = rs[i]->width(); h[i] = rs[i]->height(); }
    std::set<unsigned> fixed; if (round & 1) fixed.insert(0);
    removeoverlaps(rs, fixed, (round & 2) != 0);
    if (Rectangle::xBorder != B[round][0] || Rectangle::yBorder != B[round][1]) {
      printf("round %d: borders were (%g,%g) before removeoverlaps and are (%g,%g) after\n", round, B[round][0], B[round][1], Rectangle::xBorder, Rectangle::yBorder); bad++;
      Rectangle::setXBorder(B[round][0]); Rectangle::setYBorder(B[round][1]);
    }
    for (int i = 0; i < 6; ++i) if (fabs(rs[i]->width() - w[i]) > 1e-9 || fabs(rs[i]->height() - h[i]) > 1e-9) { printf("round %d: rectangle %d changed size\n", round, i); bad++; }
    for (int i = 0; i < 6; ++i) for (int j = i + 1; j < 6; ++j)
      if (rs[i]->overlapX(rs[j]) > 1e-6 && rs[i]->overlapY(rs[j]) > 1e-6) { printf("round %d: rectangles %d and %d overlap by %g x %g\n", round, i, j, rs[i]->overlapX(rs[j]), rs[i]->overlapY(rs[j])); bad++; }
    for (int i = 0; i < 6; ++i) delete rs[i];
  }
  // a fixed 1000 x 1000 rectangle with a free one of the same size across its corner: the fixed one is pushed a little (it is heavy, not immovable) and the
  // free one is placed relative to where the solver put it -- the result must be overlap-free
  for (int third = 0; third < 2; ++third) {
    Rectangle::setXBorder(0); Rectangle::setYBorder(0);
    Rectangles rs; rs.push_back(new Rectangle(0, 1000, 0, 1000)); rs.push_back(new Rectangle(500, 1500, 500, 1500));
    std::set<unsigned> fixed; fixed.insert(0);
    try { removeoverlaps(rs, fixed, third != 0); }
    catch (...) { printf("fixed 1000x1000 rectangle with a free one across its corner (thirdPass=%d): removeoverlaps' own closing check failed\n", third); bad++; continue; }
    if (rs[0]->overlapX(rs[1]) > 1e-6 && rs[0]->overlapY(rs[1]) > 1e-6) {
      printf("fixed 1000x1000 rectangle with a free one across its corner (thirdPass=%d): still overlapping by %g x %g\n", third, rs[0]->overlapX(rs[1]), rs[0]->overlapY(rs[1])); bad++; }
  }
  // generated y-constraints on a column of three rectangles (A overlaps B, C just clear of B): one separation per
  // neighbouring pair, and the solved placement must be overlap-free
  {
    Rectangle::setXBorder(0); Rectangle::setYBorder(0);
    Rectangles rs; rs.push_back(new Rectangle(0, 10, 0, 10)); rs.push_back(new Rectangle(0, 10, 5, 15)); rs.push_back(new Rectangle(0, 10, 15.5, 25.5));
    Variables vs; for (int i = 0; i < 3; ++i) vs.push_back(new Variable(i, 0, 1));
    Constraints cs; generateYConstraints(rs, vs, cs);
    if (cs.size() != 2) { printf("generateYConstraints on three stacked rectangles emitted %zu constraint(s), expected one per neighbouring pair (2)\n", cs.size()); bad++; }
    try {
      Solver solver(vs, cs); solver.solve();
      for (int i = 0; i < 3; ++i) rs[i]->moveCentreY(vs[i]->finalPosition);
      for (int i = 0; i < 3; ++i) for (int j = i + 1; j < 3; ++j)
        if (rs[i]->overlapX(rs[j]) > 1e-6 && rs[i]->overlapY(rs[j]) > 1e-6) { printf("placement satisfying the generated y-constraints leaves rectangles %d and %d overlapping by %g x %g\n", i, j, rs[i]->overlapX(rs[j]), rs[i]->overlapY(rs[j])); bad++; }
    } catch (...) { printf("solver threw on the generated constraints\n"); }
  }
  if (bad) { printf("REPRODUCED: %d violation(s)\n", bad); return 1; }
  printf("not reproduced\n"); return 0;
}
'''


def replay_c09(job, obl, inputs, workdir):
    lib = build_lib("libvpsc", workdir)
    rc, out = native_run(REPLAY_SRC, workdir, "replay_c09", extra=["-I", COLA], libs=[lib])
    if rc is None:
        return False, out
    return rc == 1, out


def jobs(tier):
    js = []
    c01 = _c01()
    base = "#include <verif_base.h>\n"
    vp = c01.fill(prelude("vpsc.h"), c01.SHIM_POSITION, c01.SHIM_UPOSITION, c01.SHIM_SLACK)
    vp_l = c01.fill(prelude("vpsc.h"), "", "", "")
    rect_pre = prelude("vpsc_rectangle.h")
    node_pre = prelude("vpsc_node.h")
    layout.check_layout("vpsc_rectangle", vp_l + rect_pre.replace("@RECT_INLINES@", "") + node_pre, ["libvpsc/rectangle.cpp"],
                        [("vpsc::Rectangle", ["minX", "maxX", "minY", "maxY", "overlap"]),
                         ("vpsc::Node", ["v", "r", "pos", "firstAbove", "firstBelow", "leftNeighbours", "rightNeighbours"])],
                        sizes=["vpsc::Rectangle", "vpsc::Node"])
    S = {}
    for f in INL:
        ret = "void" if f.startswith("move") else "double"
        S[f] = slice_func(RH, r'^\s*%s %s\(' % (ret, f), "Rectangle::" + f)
    S["setX"] = slice_func(RH, r'^\s*static void setXBorder\(double x\)', "Rectangle::setXBorder")
    S["setY"] = slice_func(RH, r'^\s*static void setYBorder\(double y\)', "Rectangle::setYBorder")
    S["statics"] = slice_lines(RC, r'^double Rectangle::[xy]Border = 0;', 2, "Rectangle::xBorder/yBorder definitions")
    S["seps"] = slice_lines(RC, r'^\s*double sep = \(v->r->(width|height)\(\)\+\w+->r->(width|height)\(\)\)/2\.0;', 6, "sep expressions of generateX/YConstraints")
    S["ro"] = slice_func(RC, r'^void removeoverlaps\(Rectangles& rs, const set<unsigned>& fixed, bool thirdPass\)', "removeoverlaps")
    spec = spec_header() + rd(HERE, "rectangle.spec.c")

    def inlines(intmode):
        out = []
        for f in INL:
            t = S[f].text
            if intmode and f in HALVE:
                t = subst(S[f], [(r'/2\.0', '/2', HALVE[f])])
            out.append(t)
        out.append(S["setX"].text); out.append(S["setY"].text)
        return "\n".join(out)

    wrappers = ('extern "C" {\n'
                'double verif_get_xBorder(void) { return vpsc::Rectangle::xBorder; }\n'
                'double verif_get_yBorder(void) { return vpsc::Rectangle::yBorder; }\n'
                'void verif_set_borders(double x, double y) { vpsc::Rectangle::setXBorder(x); vpsc::Rectangle::setYBorder(y); }\n' +
                "".join('double w_%s(void *r) { return ((vpsc::Rectangle *)r)->%s(); }\n' % (f, f) for f in INL[:8]) +
                "".join('void w_%s(void *r, double p) { ((vpsc::Rectangle *)r)->%s(p); }\n' % (f, f) for f in INL[8:12]) +
                'double w_overlapX(void *u, void *v) { return ((vpsc::Rectangle *)u)->overlapX((vpsc::Rectangle *)v); }\n'
                'double w_overlapY(void *u, void *v) { return ((vpsc::Rectangle *)u)->overlapY((vpsc::Rectangle *)v); }\n}\n')

    # the six sep expressions as functions of (v, other node), the other node keeping its source name
    seps = S["seps"].text.split("\n")
    sepfun = "namespace vpsc {\nstatic double verif_sep(int k, Node *v, Node *o) {\n"
    sepdims = []
    for k, line in enumerate(seps):
        m = re.search(r'\+(\w+)->r->(width|height)', line)
        sepdims.append(0 if m.group(2) == "width" else 1)
        sepfun += "  if (k == %d) { Node *%s = o; %s return sep; }\n" % (k, m.group(1), line.strip().replace("/2.0", "/2"))
    sepfun += "  return 0;\n}\n}\n" 'extern "C" double w_sep(int k, void *v, void *u) { return vpsc::verif_sep(k, (vpsc::Node *)v, (vpsc::Node *)u); }\n'

    def tu(intmode, extra=""):
        head = ("#define double long long\n#define VERIF_INT_MODE\n" if intmode else "")
        return (head + base + c01.EXTERN + vp + rect_pre.replace("@RECT_INLINES@", inlines(intmode)) + node_pre +
                "namespace vpsc {\n" + S["statics"].text + "\n}\n" + wrappers + extra)

    mirror = [("vpsc::Rectangle", "struct Rect", ["minX", "maxX", "minY", "maxY", "overlap"]),
              ("vpsc::Node", "struct NodeM", ["v", "r", "pos", "firstAbove", "firstBelow", "leftNeighbours", "rightNeighbours"])]
    js.append(c01.mirror_job(c01.EXTERN + vp + rect_pre.replace("@RECT_INLINES@", "") + node_pre, spec, mirror))
    rslices = [S[f] for f in INL]
    limbits = 40 if tier == "quick" else 52
    dom = "scaled-integer mode: all coordinates, positions and borders multiples of 4 with |v| <= 2^%d (borders in [0,4096]); overflow-checked" % limbits
    for which, f in enumerate(["moveCentreX", "moveCentreY", "moveMinX", "moveMinY"]):
        js.append(Job("size_" + f, "D", spec, "h_move", cxx=tu(True), defines=["JOB_move", "INT_MODE", "WHICH=%d" % which, "LIM=(1LL<<%d)" % limbits],
                      slices=rslices, domain=dom, expect=[r'h_move\.assertion', r'COLA_ASSERT|assertion'], replay=replay_c09, timeout=600,
                      flags=["--sat-solver", "cadical"], backend="sat:cadical"))
    js.append(Job("overlap_geometry", "D", spec, "h_overlap", cxx=tu(True), defines=["JOB_overlap", "INT_MODE", "LIM=(1LL<<%d)" % limbits], slices=rslices, domain=dom,
                  expect=[r'h_overlap\.assertion'], replay=replay_c09, timeout=600, flags=["--sat-solver", "cadical"], backend="sat:cadical"))
    for k in range(6):
        js.append(Job("separation_%d_%s" % (k, "xy"[sepdims[k]]), "D", spec, "h_sep", cxx=tu(True, sepfun),
                      defines=["JOB_sep", "INT_MODE", "KIDX=%d" % k, "KDIM=%d" % sepdims[k], "LIM=(1LL<<%d)" % limbits], slices=rslices + [S["seps"]], domain=dom,
                      expect=[r'h_sep\.assertion'], replay=replay_c09, timeout=600, flags=["--sat-solver", "cadical"], backend="sat:cadical",
                      note="sep expression: " + seps[k].strip()))
    # ---- borders restored: projection of removeoverlaps onto its border statements
    # syntactic fact backing the projection: in libvpsc the two statics are written only by their definition and by setX/YBorder,
    # and setX/YBorder are called only inside removeoverlaps
    ro_text = strip_comments(S["ro"].text)
    for f in sorted(glob.glob(os.path.join(COLA, "libvpsc", "*.cpp")) + glob.glob(os.path.join(COLA, "libvpsc", "*.h"))):
        t = strip_comments(open(f, errors="replace").read())
        n_calls = len(re.findall(r'\bset[XY]Border\s*\(', t))
        n_writes = len(re.findall(r'\b[xy]Border\s*(=[^=]|\+=|-=)', t))
        rel = os.path.relpath(f, COLA)
        exp_calls = {"libvpsc/rectangle.cpp": len(re.findall(r'\bset[XY]Border\s*\(', ro_text)), "libvpsc/rectangle.h": 2}.get(rel, 0)
        exp_writes = {"libvpsc/rectangle.cpp": 2 + len(re.findall(r'\b[xy]Border\s*(=[^=]|\+=|-=)', ro_text)), "libvpsc/rectangle.h": 2}.get(rel, 0)
        if n_calls != exp_calls or n_writes != exp_writes:
            raise Undecided("C09 border projection: %s now contains %d setX/YBorder call(s) and %d write(s) to x/yBorder outside the expected places "
                            "(expected %d/%d): the projection's premise no longer holds; re-anchor" % (rel, n_calls, n_writes, exp_calls, exp_writes))
    proj = project_statements(S["ro"], r'\b(xBorder|yBorder|setXBorder|setYBorder|EXTRA_GAP)\b', "removeoverlaps [projection onto border statements]")
    ptext = subst(proj, [(r'\btry\b', '', 1)])
    bcxx = (base + "#include <set>\nusing std::set;\n" + c01.EXTERN + vp + rect_pre.replace("@RECT_INLINES@", inlines(False)) +
            "namespace vpsc {\n" + S["statics"].text + "\n" + ptext + "\n}\n" + wrappers +
            'extern "C" void w_removeoverlaps_projection(bool thirdPass) { vpsc::Rectangles rs; std::set<unsigned> fixed; vpsc::removeoverlaps(rs, fixed, thirdPass); }\n')
    js.append(Job("borders_restored", "U", spec, "h_borders", cxx=bcxx, defines=["JOB_borders"], slices=[S["ro"], proj, S["setX"], S["setY"]],
                  domain="all doubles as border settings (bitwise), both values of thirdPass, two consecutive calls under different borders; normal (non-exception) path",
                  expect=[r'h_borders\.assertion'], replay=replay_c09,
                  note="projection fragment: every statement of removeoverlaps that does not mention xBorder/yBorder/setXBorder/setYBorder/EXTRA_GAP is dropped "
                       "(%d statements kept); premise checked every run: no other write to the statics in libvpsc" % proj.kept_statements))
    # ---- scan-line Close event of generateX/YConstraints (first-above/first-below variant): one constraint per neighbour
    gy = slice_func(RC, r'^void generateYConstraints\(const Rectangles& rs, const Variables& vars,', "generateYConstraints")
    gx = slice_func(RC, r'^void generateXConstraints\(const Rectangles& rs, const Variables& vars,', "generateXConstraints")
    cctor = slice_func("libvpsc/constraint.cpp", r'^Constraint::Constraint\(Variable \*left, Variable \*right, double gap, bool equality\)', "vpsc::Constraint::Constraint")
    for nm, fn, endre in (("y", gy, r'#ifndef NDEBUG\s+deletes\+\+;'), ("x", gx, r'\}\s*result=scanline\.erase\(v\);')):
        frag = fragment_between(fn, r'Node \*l=v->firstAbove, \*r=v->firstBelow;', endre, "generate%sConstraints [Close event, firstAbove/firstBelow]" % nm.upper())
        ce_cxx = (base + c01.EXTERN + vp + rect_pre.replace("@RECT_INLINES@", inlines(False)) + node_pre +
                  "namespace vpsc {\n" + S["statics"].text + "\n" + cctor.text + "\n"
                  "// the fragment's free variables (the closing node and the constraint list) become parameters\n"
                  "static void verif_close_event(Node *v, Constraints& cs)\n{\n" + frag.text + "\n}\n}\n" + wrappers +
                  'extern "C" void w_close_event(void *v, void *cs) { vpsc::verif_close_event((vpsc::Node *)v, *(vpsc::Constraints *)cs); }\n')
        js.append(Job("scanline_close_" + nm, "U", spec, "h_close_event", cxx=ce_cxx, defines=["JOB_close_event"], slices=[fn, frag, cctor],
                      flags=["--no-malloc-may-fail"], replay=replay_c09,
                      domain="every closing node with or without a neighbour above/below, any rectangle sizes; plain harness",
                      expect=[r'h_close_event\.assertion']))
    # ---- the head of generateX/YConstraints: every variable's desired position becomes its rectangle's current centre.
    # removeoverlaps creates its variables at position 0 (weight 10000 for fixed rectangles) and relies on this for "rectangles stay where
    # they are unless pushed" -- in particular for the fixed ones.  Loop shell (every index visited, in every call) + projected loop body.
    ndp = len(re.findall(r'\bdesiredPosition\b', strip_comments(read_repo(RC))))
    if ndp != 2:
        raise Undecided("C09: rectangle.cpp now mentions desiredPosition %d time(s) (expected once in generateXConstraints, once in generateYConstraints): "
                        "the projection of the loop bodies onto that statement needs re-anchoring" % ndp)
    S["evtype"] = slice_lines(RC, r'^typedef enum \{Open, Close\} EventType;', 1, "EventType")
    S["event"] = slice_block(RC, r'^struct Event \{', "struct Event")
    cshim = ("    double getCentreX() const { return w_centre((void *)this, 0); }\n    double getCentreY() const { return w_centre((void *)this, 1); }\n")
    hx = fragment_between(gx, r'const unsigned n = rs\.size\(\);', r'qsort\(', "generateXConstraints [head: up to the sort]", allow_return=True)
    hy = fragment_between(gy, r'const unsigned n = rs\.size\(\);', r'qsort\(', "generateYConstraints [head: up to the sort]", allow_return=True)
    _, bx = fragment_loop(hx, r'for\(i=0;i<n;i\+\+\)', "generateXConstraints [first loop body]")
    _, by = fragment_loop(hy, r'for\(;ri!=re&&vi!=ve;\+\+ri,\+\+vi\)', "generateYConstraints [first loop body]")
    pbx = project_statements(bx, r'\bdesiredPosition\b', "generateXConstraints [first loop body, projected onto the desiredPosition statement]")
    pby = project_statements(by, r'\bdesiredPosition\b|^\s*Rectangle\* r=\*ri;|^\s*Variable\* v=\*vi;', "generateYConstraints [first loop body, projected]")
    hd_base = (base + 'extern "C" { double w_centre(void *r, int dim); void w_head_visit(void *a, void *b, unsigned long i); void *malloc(size_t); void *verif_g_rs, *verif_g_vars; }\n' +
               c01.EXTERN + vp + rect_pre.replace("@RECT_INLINES@", cshim) + node_pre + "namespace vpsc {\n" + S["evtype"].text + "\n" + S["event"].text + "\n}\n")
    for nm, hd, body, pb, visit in (("x", hx, bx, pbx, "{ w_head_visit((void *)0, (void *)0, i); }"), ("y", hy, by, pby, "{ w_head_visit((void *)ri, (void *)vi, 0); }")):
        if hd.text.count(body.text) != 1:
            raise Undecided("C09: first loop body of generate%sConstraints not found exactly once in the head fragment" % nm.upper())
        htext = hd.text.replace(body.text, visit)
        hsl = Slice(hd.name + " [loop body replaced by a counting visit]", hd.rel, htext, hd.line, kind="head-fragment")
        htext = subst(hsl, [(r'new Event\*\[2\*n\]', '(Event **)malloc(sizeof(Event *) * 2 * n)', 1)])
        sh_cxx = (hd_base + "namespace vpsc {\nvoid verif_head()\n{ const Rectangles& rs = *(const Rectangles *)verif_g_rs; const Variables& vars = *(const Variables *)verif_g_vars;\n" +
                  htext + "\n}\n}\n" 'extern "C" void w_head(void *rs, void *vars) { verif_g_rs = rs; verif_g_vars = vars; vpsc::verif_head(); }\n')
        RSV = "((struct{void*d;unsigned long n;unsigned long cap;}__attribute__((packed))*)verif_g_rs)"
        VAV = "((struct{void*d;unsigned long n;unsigned long cap;}__attribute__((packed))*)verif_g_vars)"
        if nm == "x":
            lc = loop_contract("vpsc::verif_head()", 0, "i <= n && verif_visited == i", "i, verif_visited", "n - i", {"i": "1::i", "n": "1::n"})
        else:
            lc = loop_contract("vpsc::verif_head()", 0,
                               ("verif_visited <= {R}->n && verif_visited <= {V}->n && __CPROVER_same_object(ri, {R}->d) && __CPROVER_same_object(vi, {V}->d) && "
                                "(char *)ri == (char *){R}->d + 8 * verif_visited && (char *)vi == (char *){V}->d + 8 * verif_visited").replace("{R}", RSV).replace("{V}", VAV),
                               "ri, vi, verif_visited", "%s->n - verif_visited" % RSV, {"ri": "1::ri", "vi": "1::vi"})
        js.append(Job("desired_position_shell_" + nm, "U", spec, "h_head", cxx=sh_cxx, enforce="w_head", replace=["w_head_visit"], defines=["JOB_head_shell", "HEAD_%s" % nm.upper()],
                      slices=[gx if nm == "x" else gy, hd, body], flags=["--object-bits", "12", "--sat-solver", "cadical"], backend="sat:cadical", replay=replay_c09,
                      loops=loops_file([lc]), domain="every number of rectangles up to 10^6 (including 0 and 1), at least as many variables",
                      expect=[r'w_head\.postcondition', r'loop_invariant_base', r'loop_invariant_step', r'loop_decreases', r'precondition']))
        if nm == "x":
            bfn = "static void verif_head_body(const Rectangles& rs, const Variables& vars, unsigned i)\n{\n" + pb.text + "\n}\n"
            bwr = 'extern "C" void w_head_body(void *rs, void *vars, unsigned long i) { vpsc::verif_head_body(*(const vpsc::Rectangles *)rs, *(const vpsc::Variables *)vars, (unsigned)i); }\n'
        else:
            bfn = "static void verif_head_body(Rectangles::const_iterator ri, Variables::const_iterator vi)\n{\n" + pb.text + "\n}\n"
            bwr = ('extern "C" void w_head_body(void *rs, void *vars, unsigned long i) { vpsc::verif_head_body(((const vpsc::Rectangles *)rs)->begin() + i, '
                   '((const vpsc::Variables *)vars)->begin() + i); }\n')
        js.append(Job("desired_position_body_" + nm, "U", spec, "h_head_body", cxx=hd_base + "namespace vpsc {\n" + bfn + "}\n" + bwr, enforce="w_head_body", replace=["w_centre"],
                      defines=["JOB_head_body", "HEAD_%s" % nm.upper()], slices=[gx if nm == "x" else gy, body, pb], flags=["--object-bits", "12", "--sat-solver", "cadical"],
                      backend="sat:cadical", replay=replay_c09,
                      domain="one arbitrary index, every centre (all doubles, through an uninterpreted getCentreX/Y); projection of the loop body onto its desiredPosition statement "
                             "(%d statement(s) kept; premise checked every run: rectangle.cpp writes desiredPosition nowhere else)" % pb.kept_statements,
                      expect=[r'w_head_body\.postcondition']))
    # ---- removeoverlaps' solver: Solver::solve() hands back the positions of the state AFTER refinement (the driver obligation of C01, which
    #      C09's "fixed rectangles barely move" rests on: satisfy() alone leaves over-merged blocks in which fixed rectangles are dragged along)
    for j in c01._jobs(tier, "libvpsc"):
        if j.name == "solve":
            j.name = "solver_returns_refined_result"
            j.replay = replay_c09
            j.note = (j.note + " " if j.note else "") + "[job of the C01 check, run here as well: removeoverlaps calls vpsc::Solver::solve()]"
            js.append(j)
    # ---- Solver::refine, one pass of its outer loop: the pass reports "nothing left to split" only after it has examined EVERY block
    #      (the refined optimum is what keeps fixed rectangles in place; a pass that starts somewhere in the middle can miss an over-merged block)
    SVC = "libvpsc/solve_VPSC.cpp"
    rf = slice_func(SVC, r'^void Solver::refine\(\)', "Solver::refine")
    _, rf_pass = fragment_loop(rf, r'while\(!solved&&maxtries>0\)', "Solver::refine [one pass of the outer loop]")
    ltol = slice_lines(SVC, r'^static const double LAGRANGIAN_TOLERANCE=-1e-4;', 1, "LAGRANGIAN_TOLERANCE")
    rf_cxx = ("#include <verif_base.h>\n"
              'extern "C" { unsigned long w_bs_size(void); void *w_bs_at(unsigned long i); void *w_findMinLM(void *b); void w_pass_note(int what, void *b); }\n'
              "namespace vpsc {\n" + ltol.text + "\n"
              "// stand-ins: every call the pass makes on the block set / a block forwards to the harness\n"
              "class Constraint { public: char _pad[24]; double lm; };   // only `lm` is read here (its offset is the stand-in's own: the harness goes through accessors)\n"
              "class Block { public: void setUpInConstraints() { w_pass_note(1, (void *)this); } void setUpOutConstraints() { w_pass_note(2, (void *)this); }\n"
              "    Constraint *findMinLM() { return (Constraint *)w_findMinLM((void *)this); } };\n"
              "class Blocks { public: size_t size() const { return w_bs_size(); } Block *at(size_t i) const { return (Block *)w_bs_at(i); }\n"
              "    void split(Block *b, Block *&l, Block *&r, Constraint *c) { w_pass_note(3, (void *)b); } void cleanup() { w_pass_note(4, (void *)0); } };\n"
              "class Solver { public: Blocks *bs; int verif_refine_pass(); };\n"
              "int Solver::verif_refine_pass()\n{\n" +
              "".join("    " + d + "\n" for d in scalar_local_decls(rf, r'while\(!solved&&maxtries>0\)')) +
              rf_pass.text + "\n    return solved ? 1 : 0;\n}\n}\n"
              "static vpsc::Blocks verif_bs; static vpsc::Solver verif_solver; static vpsc::Constraint verif_c[3];\n"
              'extern "C" int w_refine_pass(void) { verif_solver.bs = &verif_bs; return verif_solver.verif_refine_pass(); }\n'
              'extern "C" void *verif_constraint(unsigned k, double lm) { verif_c[k].lm = lm; return (void *)&verif_c[k]; }\n')
    js.append(Job("refine_pass_examines_every_block", "B", spec, "h_refine_pass", cxx=rf_cxx, defines=["JOB_refine_pass"], slices=[rf, rf_pass, ltol], unwind=6, replay=replay_c09,
                  flags=["--sat-solver", "cadical"], backend="sat:cadical",
                  bound="block sets of 0 to 3 blocks (loops unwound 6 times with unwinding assertions); every outcome of findMinLM per block; every value of the function's other locals",
                  domain="every such pass", expect=[r'h_refine_pass\.assertion']))
    # ---- removeoverlaps: after each solve EVERY rectangle is moved to its variable's final position -- the fixed ones included (they are heavy, not immovable:
    #      the solver places their neighbours relative to where it put THEM).  The two write-back loops after the x and the y pass, cut out of the function by
    #      their neighbouring statements; bounded: 0 to 3 rectangles.
    ro = S["ro"]
    tpos = ro.text.find("try")
    tb = ro.text.find("{", tpos)
    if tpos < 0 or tb < 0:
        raise Undecided("C09: removeoverlaps has no try block any more")
    tblock = Slice("removeoverlaps [try block]", ro.rel, ro.text[tb:match_close(ro.text, tb) + 1], ro.line, kind="block")
    wbx = items_between(tblock, r'^vpsc_x\.solve\(\);', r'^COLA_ASSERT\(r==rs\.end\(\)\);', "removeoverlaps [write-back after the x pass]", allow_loop_break=True)
    wby = items_between(tblock, r'^vpsc_y\.solve\(\);', r'^Rectangle::setYBorder\(yBorder\);', "removeoverlaps [write-back after the y pass]", allow_loop_break=True)
    wby_text = subst(wby, [(r'for_each\(cs\.begin\(\),cs\.end\(\),delete_object\(\)\);', '/* constraints released (not part of this obligation) */', 1),
                           (r'cs\.clear\(\);', '', 1)])
    # third pass: the `if(thirdPass) { ... }` statement of the try block; inside it, everything after vpsc_x2.solve()
    tp_items = [it for it in vf_split_items(tblock) if it[0] == 'compound' and re.match(r'\s*if\s*\(\s*thirdPass\s*\)', strip_comments(it[1]).strip())]
    if len(tp_items) != 1:
        raise Undecided("C09: removeoverlaps: expected one `if(thirdPass) {...}` statement in the try block, found %d" % len(tp_items))
    tpblock = Slice("removeoverlaps [third-pass block]", ro.rel, "{" + tp_items[0][2] + "}", ro.line, kind="block")
    wb3 = items_between(tpblock, r'^vpsc_x2\.solve\(\);', None, "removeoverlaps [write-back after the third pass]", allow_loop_break=True)
    mshim = ("    void moveCentreX(double x) { w_moved((void *)this, 0, x); }\n    void moveCentreY(double y) { w_moved((void *)this, 1, y); }\n")
    wb_cxx = ("#include <set>\n" + base + 'extern "C" { void w_moved(void *r, int dim, double to); void *malloc(size_t); }\n' + c01.EXTERN + vp + rect_pre.replace("@RECT_INLINES@", mshim) +
              "namespace vpsc {\nusing std::set; using std::vector;\n#define ISNOTNAN(d) (d)==(d)\n"
              "// the fragments' free variables are removeoverlaps' parameters and locals\n"
              "static void verif_writeback_x(Rectangles& rs, const set<unsigned>& fixed, bool thirdPass, Variables& vs)\n{ Variables::iterator v;\n" + wbx.text + "\n}\n"
              "static void verif_writeback_y(Rectangles& rs, const set<unsigned>& fixed, bool thirdPass, Variables& vs)\n{ Variables::iterator v; Rectangles::iterator r;\n" + wby_text + "\n}\n"
              "static void verif_writeback_x2(Rectangles& rs, const set<unsigned>& fixed, bool thirdPass, Variables& vs)\n{ Variables::iterator v; Rectangles::iterator r;\n" + wb3.text + "\n}\n}\n"
              "static vpsc::Rectangle *verif_rd[3]; static vpsc::Variable *verif_vd[3];\n"
              'extern "C" int verif_rect_index(void *r) { for (int k = 0; k < 3; ++k) if (r == (void *)verif_rd[k]) return k; return -1; }\n'
              'extern "C" void w_writeback(int pass, unsigned n, double f0, double f1, double f2, unsigned nfixed, unsigned fx0, unsigned fx1, int thirdPass) {\n'
              "  double F[3] = {f0, f1, f2}; vpsc::Rectangles rs; vpsc::Variables vs; std::set<unsigned> fixed;\n"
              "  for (unsigned k = 0; k < 3; ++k) { verif_rd[k] = (vpsc::Rectangle *)malloc(sizeof(vpsc::Rectangle)); verif_vd[k] = (vpsc::Variable *)malloc(sizeof(vpsc::Variable));\n"
              "    verif_vd[k]->id = (int)k; verif_vd[k]->finalPosition = F[k]; }\n"
              "  rs._d = verif_rd; rs._n = n; rs._cap = 3; vs._d = verif_vd; vs._n = n; vs._cap = 3;\n"
              "  if (nfixed > 0) fixed.insert(fx0); if (nfixed > 1) fixed.insert(fx1);\n"
              "  if (pass == 0) vpsc::verif_writeback_x(rs, fixed, thirdPass != 0, vs); else if (pass == 1) vpsc::verif_writeback_y(rs, fixed, thirdPass != 0, vs); else vpsc::verif_writeback_x2(rs, fixed, true, vs); }\n")
    js.append(Job("removeoverlaps_writes_back_every_rectangle", "B", spec, "h_writeback", cxx=wb_cxx, defines=["JOB_writeback"], slices=[ro, wbx, wby, wb3], stub_variant="bounded_set", unwind=5,
                  flags=["--sat-solver", "cadical", "--no-malloc-may-fail"], backend="sat:cadical", replay=replay_c09, timeout=600,
                  bound="0 to 3 rectangles, a fixed set of 0 to 2 ids below 3 (loops unwound 5 times with unwinding assertions)",
                  domain="all three write-back loops (after the x pass, the y pass and the third pass), every final position (all doubles but NaN), with and without the third pass",
                  expect=[r'h_writeback\.assertion']))
    return js


LEVEL = "proof"
TRUSTED = [
    "cbmc/goto-cc/goto-instrument 6.11.0; CaDiCaL and MiniSat back ends",
    "scaled-integer mode: machine arithmetic treated as mathematical -- `double` retyped `long long`, `/2.0` rewritten `/2` (must-fire substitutions), inputs multiples of 4 "
    "with |v| <= 2^40, signed-overflow checked; transfers to IEEE doubles exactly where all operands and results are representable",
    "projection fragment of removeoverlaps onto its border statements: every other statement is dropped; premise (checked syntactically on every run over libvpsc/*.cpp,*.h): "
    "the two statics are written only by their definitions and by setX/YBorder, and setX/YBorder are called only inside removeoverlaps",
    "prelude/vpsc_rectangle.h, prelude/vpsc_node.h (layout cross-checked against rectangle.cpp); the 14 inline Rectangle members and the 6 `double sep = ...` lines are sliced verbatim",
]
ASSUMPTIONS = [
    "borders_restored covers the normal path only: on an exception path removeoverlaps does NOT restore the borders (its catch(char*) neither matches UnsatisfiedConstraint nor resets them) -- recorded observation",
    "real-valued inputs near a rounding edge are outside the size/separation claims (observation: two 1-ulp-wide rectangles touching at 1e6 get a 2-ulp overlapX)",
    "fixed rectangles: only the link 'generateX/YConstraints sets EVERY variable's desired position to its rectangle's current centre, in every call' is under contract "
    "(loop shells for any number of rectangles + projected loop bodies); that weight 10000 then keeps a fixed rectangle within 1% is solver optimality (C02) and not decided",
    "refine_pass_examines_every_block is a BOUNDED stand-in (up to 3 blocks; Blocks/Block behind stand-ins): one pass of Solver::refine's outer loop ends 'solved' only after every block was examined; that the optimum then keeps fixed rectangles within 1% is C02 and not decided",
    "removeoverlaps_writes_back_every_rectangle is a BOUNDED stand-in (0 to 3 rectangles; the three write-back loops after the x, y and third-pass solves, cut out by their neighbouring statements; moveCentreX/Y behind the harness): "
    "every rectangle, fixed or not, is moved once to its variable's final position; the third pass's loops (inside `if(thirdPass)`) are not under it",
    "NOT decided (residue, the headline): the scan line emits a constraint or chain for EVERY overlapping pair; acyclicity of the generated sets; hence 'no two rectangles overlap'",
]
EXPLANATION = ("Contracts on the real vpsc::Rectangle inline members and on fragments of generateX/YConstraints and removeoverlaps: moving a rectangle keeps width, height and the other "
               "axis and puts it where asked; overlapX/Y > 0 iff the open extents intersect; any placement satisfying a generated separation (each of the six `sep` expressions) "
               "separates that pair; removeoverlaps restores the border statics (two calls under different borders, bitwise); generateX/YConstraints set every variable's desired "
               "position to its rectangle's current centre (any number of rectangles).")
