"""C15 jobs: memory safety / UB / assertions for the functions under contract (DESIGN.md section 5, C15)."""
import os, importlib.util
from vf import *
from common import *
import layout

HERE = os.path.dirname(os.path.abspath(__file__))
AH, AC, GT = "libavoid/actioninfo.h", "libavoid/actioninfo.cpp", "libavoid/geomtypes.cpp"
SV, BC = "libvpsc/solve_VPSC.cpp", "libvpsc/blocks.cpp"


def _mod(pid):
    p = os.path.join(VERIF, "contracts", pid, "jobs.py")
    spec = importlib.util.spec_from_file_location("jobs_%s_for_C15" % pid, p)
    m = importlib.util.module_from_spec(spec)
    spec.loader.exec_module(m)
    return m


REPLAY_AI = r'''
// Native replay for the ActionInfo obligation: every constructor is run on memory pre-filled with two different
// byte patterns; a field that is not initialised keeps the pattern, so the two objects disagree on it.
#include "libavoid/libavoid.h"
#include "libavoid/actioninfo.h"
#include <cstdio>
#include <cstring>
#include <new>
using namespace Avoid;
template <class F> static int probe(const char *name, F make) {
  alignas(16) static unsigned char m1[sizeof(ActionInfo)], m2[sizeof(ActionInfo)];
  memset(m1, 0x00, sizeof m1); memset(m2, 0xAA, sizeof m2);
  ActionInfo *a = make(m1), *b = make(m2);
  unsigned char f1, f2; memcpy(&f1, &a->firstMove, 1); memcpy(&f2, &b->firstMove, 1);
  int bad = (f1 != f2) || a->type != b->type || a->objPtr != b->objPtr;
  if (bad) printf("%s: firstMove byte 0x%02x vs 0x%02x -- left uninitialised by the constructor\n", name, f1, f2);
  a->~ActionInfo(); b->~ActionInfo();
  return bad;
}
int main() {
  int bad = 0; Polygon poly(3); Point pt(1, 2);
  bad += probe("ActionInfo(ShapeMove, ShapeRef*, Polygon, bool)", [&](void *m) { return new (m) ActionInfo(ShapeMove, (ShapeRef *)0, poly, true); });
  bad += probe("ActionInfo(ShapeRemove, ShapeRef*)", [&](void *m) { return new (m) ActionInfo(ShapeRemove, (ShapeRef *)0); });
  bad += probe("ActionInfo(JunctionMove, JunctionRef*, Point)", [&](void *m) { return new (m) ActionInfo(JunctionMove, (JunctionRef *)0, pt); });
  bad += probe("ActionInfo(JunctionRemove, JunctionRef*)", [&](void *m) { return new (m) ActionInfo(JunctionRemove, (JunctionRef *)0); });
  bad += probe("ActionInfo(ConnChange, ConnRef*)", [&](void *m) { return new (m) ActionInfo(ConnChange, (ConnRef *)0); });
  bad += probe("ActionInfo(ConnectionPinChange, ShapeConnectionPin*)", [&](void *m) { return new (m) ActionInfo(ConnectionPinChange, (ShapeConnectionPin *)0); });
  if (bad) { printf("REPRODUCED: %d constructor(s) leave firstMove indeterminate (Router::processActions reads it)\n", bad); return 1; }
  printf("not reproduced\n"); return 0;
}
'''


def replay_ai(job, obl, inputs, workdir):
    lib = build_lib("libavoid", workdir)
    rc, out = native_run(REPLAY_AI, workdir, "replay_ai", extra=["-I", COLA], libs=[lib])
    if rc is None:
        return False, out
    return rc == 1, out


def jobs(tier):
    js = []
    base = "#include <verif_base.h>\n"
    spec = spec_header() + rd(HERE, "safety.spec.c")
    # ---------------- ActionInfo constructors
    pt_pre, poly_pre = prelude("avoid_geomtypes.h"), prelude("avoid_polygon.h")
    layout.check_layout("avoid_polygon", pt_pre + poly_pre, ["libavoid/geomtypes.h"],
                        [("Avoid::Point", ["x", "y", "id", "vn"]), ("Avoid::Polygon", ["_id", "ps", "ts", "checkpointsOnRoute"])],
                        sizes=["Avoid::Point", "Avoid::Polygon"])
    enum = slice_block(AH, r'^enum ActionType \{', "enum ActionType")
    cls = slice_block(AH, r'^class ActionInfo \{', "class ActionInfo")
    kconst = slice_lines("libavoid/geomtypes.h", r'^static const unsigned short k(UnassignedVertexNumber|ShapeConnectionPin) = \d+;', 2, "vertex-number constants")
    pt_ctor = slice_func(GT, r'^Point::Point\(\)', "Point::Point()")
    pt_ctor2 = slice_func(GT, r'^Point::Point\(const double xv, const double yv\)', "Point::Point(double,double)")
    ctors = [slice_func(AC, r'^ActionInfo::ActionInfo\(ActionType t, ShapeRef \*s, const Polygon& p, bool fM\)', "ActionInfo(ActionType,ShapeRef*,const Polygon&,bool)"),
             slice_func(AC, r'^ActionInfo::ActionInfo\(ActionType t, ShapeRef \*s\)', "ActionInfo(ActionType,ShapeRef*)"),
             slice_func(AC, r'^ActionInfo::ActionInfo\(ActionType t, JunctionRef \*j, const Point& p\)', "ActionInfo(ActionType,JunctionRef*,const Point&)"),
             slice_func(AC, r'^ActionInfo::ActionInfo\(ActionType t, JunctionRef \*j\)', "ActionInfo(ActionType,JunctionRef*)"),
             slice_func(AC, r'^ActionInfo::ActionInfo\(ActionType t, ConnRef \*c\)', "ActionInfo(ActionType,ConnRef*)"),
             slice_func(AC, r'^ActionInfo::ActionInfo\(ActionType t, ShapeConnectionPin \*p\)', "ActionInfo(ActionType,ShapeConnectionPin*)")]
    dtor = slice_func(AC, r'^ActionInfo::~ActionInfo\(\)', "ActionInfo::~ActionInfo")
    ai_cxx = (base + pt_pre + poly_pre + "namespace Avoid {\n"
              "class ShapeRef; class JunctionRef; class ConnRef; class ShapeConnectionPin; class Obstacle; class ConnEnd;\n"
              "// std::list<...> member: three words, opaque (no constructor reads or writes it beyond default construction)\n"
              "struct ConnUpdateList { void *_next; void *_prev; size_t _size; };\n"
              "Polygon::Polygon() { }\nPolygon::Polygon(const Polygon& other) { }\n" +
              kconst.text + "\n" + enum.text + "\n" + cls.text + "\n" + pt_ctor.text + "\n" + pt_ctor2.text + "\n" +
              "\n".join(c.text for c in ctors) + "\n" + dtor.text + "\n}\n"
              'using namespace Avoid;\n'
              'extern "C" void w_ai(int which, int t, void *obj, bool fM, int *type_out, void **obj_out, bool *fm_out) {\n'
              '  Polygon poly; Point pt(1.0, 2.0); ActionType at = (ActionType)t;\n'
              '  if (which == 1) { ActionInfo a(at, (ShapeRef *)obj, poly, fM); *type_out = a.type; *obj_out = a.objPtr; *fm_out = a.firstMove; }\n'
              '  else if (which == 2) { ActionInfo a(at, (ShapeRef *)obj); *type_out = a.type; *obj_out = a.objPtr; *fm_out = a.firstMove; }\n'
              '  else if (which == 3) { ActionInfo a(at, (JunctionRef *)obj, pt); *type_out = a.type; *obj_out = a.objPtr; *fm_out = a.firstMove; }\n'
              '  else if (which == 4) { ActionInfo a(at, (JunctionRef *)obj); *type_out = a.type; *obj_out = a.objPtr; *fm_out = a.firstMove; }\n'
              '  else if (which == 5) { ActionInfo a(at, (ConnRef *)obj); *type_out = a.type; *obj_out = a.objPtr; *fm_out = a.firstMove; }\n'
              '  else { ActionInfo a(at, (ShapeConnectionPin *)obj); *type_out = a.type; *obj_out = a.objPtr; *fm_out = a.firstMove; }\n'
              '}\n')
    for k in range(1, 7):
        js.append(Job("ActionInfo_ctor%d" % k, "U", spec, "h_ActionInfo", cxx=ai_cxx, defines=["JOB_ActionInfo", "CTOR=%d" % k],
                      slices=[ctors[k - 1], cls, enum], domain="all argument values the constructor's assertion admits",
                      expect=[r'h_ActionInfo\.assertion'], replay=replay_ai,
                      note="typedef std::list<...> ConnUpdateList replaced by an opaque three-word struct; Polygon's constructors are empty shims"))
    # ---------------- IncSolver::mostViolated: all list indices in bounds (loop contract)
    c01 = _mod("C01")
    pre = prelude("vpsc.h")
    shim_filled = c01.fill(pre, c01.SHIM_POSITION, c01.SHIM_UPOSITION, c01.SHIM_SLACK)
    mv = slice_func(SV, r'^Constraint\* IncSolver::mostViolated\(Constraints &l\)', "IncSolver::mostViolated")
    zero = slice_lines(SV, r'^static const double ZERO_UPPERBOUND=-1e-10;', 1, "ZERO_UPPERBOUND")
    # the function uses no member of IncSolver: the class qualifier is dropped so that its symbol has a single parameter
    # (goto-instrument's loop-contract symbol_map cannot name symbols containing a comma); if it ever uses a member the TU stops compiling
    mv_text = subst(mv, [(r'Constraint\* IncSolver::mostViolated\(Constraints &l\)', 'Constraint* mostViolated(Constraints &l)', 1)])
    mv_cxx = (base + c01.EXTERN + shim_filled + "namespace vpsc {\n" + zero.text + "\n" + mv_text + "\n}\n"
              'extern "C" void *w_mostViolated(void *s, void *l) { return vpsc::mostViolated(*(vpsc::Constraints *)l); }\n')
    mv_sym = os.environ.get("VERIF_MV_SYM", "vpsc::mostViolated(ref_struct_tag(identifier=vpsc::tag-Constraints))")
    js.append(Job("mostViolated", "U", spec, "h_mostViolated", cxx=mv_cxx, enforce="w_mostViolated", replace=["w_slack"],
                  defines=["JOB_mostViolated"], slices=[mv], no_pointer_check=True,
                  loops=loops_file([loop_contract(mv_sym, 0,
                                                  "index <= lSize && deleteIndex <= lSize && (deleteIndex == lSize || deleteIndex < index) && lSize == __CPROVER_loop_entry(lSize)",
                                                  "index, constraint, slack, slackForMostViolated, mostViolated, deleteIndex", "lSize - index",
                                                  {"index": "1::1::index", "constraint": "1::constraint", "slack": "1::slack",
                                                   "slackForMostViolated": "1::slackForMostViolated", "mostViolated": "1::mostViolated",
                                                   "deleteIndex": "1::deleteIndex", "lSize": "1::lSize"})]),
                  domain="every list length up to 10^6, every slack value; element dereferences unchecked (DESIGN 2.9)",
                  expect=[r'postcondition', r'loop_invariant_step', r'assertion']))
    # ---------------- Blocks::cleanup: bounded stand-in (it frees through every element, DESIGN 2.9)
    cl = slice_func(BC, r'^void Blocks::cleanup\(void\)', "Blocks::cleanup")
    nmax = 4 if tier == "quick" else 6
    cl_filled = c01.fill(pre, c01.SHIM_POSITION, c01.SHIM_UPOSITION, c01.SHIM_SLACK)
    cl_cxx = (base + c01.EXTERN + cl_filled + "namespace vpsc {\n" +
              cl.text + "\n}\n" 'extern "C" void w_blocks_cleanup(void *bs) { ((vpsc::Blocks *)bs)->cleanup(); }\n')
    js.append(Job("blocks_cleanup", "B", spec, "h_blocks_cleanup", cxx=cl_cxx, defines=["JOB_blocks_cleanup", "NMAX=%d" % nmax],
                  unwind=nmax + 2, bound="at most %d blocks (unwind %d, unwinding assertions on)" % (nmax, nmax + 2), slices=[cl],
                  domain="every deleted/live pattern over at most %d distinct heap blocks" % nmax,
                  expect=[r'h_blocks_cleanup\.assertion', r'unwind'], timeout=600))
    # ---------------- safety-class obligations of the other properties' contract jobs (counted here, owned there)
    for pid in ("C05", "C16", "C01", "C20"):
        m = _mod(pid)
        for j in m.jobs(tier):
            if j.cls != "U" or j.no_pointer_check or j.name == "mirror_layout" or j.enforce is None:
                continue
            j.name = "%s__%s" % (pid, j.name)
            j.count = "safety"
            j.replay = None
            j.note = (j.note + " " if j.note else "") + "[job of %s; only its safety-class obligations count for C15]" % pid
            js.append(j)
    return js


LEVEL = "proof"
TRUSTED = [
    "cbmc/goto-cc/goto-instrument 6.11.0 and the MiniSat back end; CBMC's memory model (bounds, pointer validity, deallocation, double delete) and its treatment of "
    "uninitialised members as unconstrained values",
    "stub std::vector (bounds-asserting operator[]), opaque three-word stand-in for the std::list member of ActionInfo, empty shims for Polygon's constructors",
    "preludes cross-checked against the real headers on every run; class ActionInfo, enum ActionType and all six constructors are sliced verbatim",
]
ASSUMPTIONS = [
    "scope: ONLY the functions under contract (listed in functions_under_contract), each under a precondition taken from its call sites; this is a small part of C15",
    "borrowed jobs (names C05__*, C16__*, C01__*, C20__*): the same contract jobs as in those properties, run again here; only their safety-class obligations "
    "(bounds, pointer validity, arithmetic overflow, COLA_ASSERT, declared frame) are counted for C15",
    "mostViolated: element dereferences unchecked (--no-pointer-check, DESIGN 2.9); Blocks::cleanup is a bounded stand-in (listed under 'bounded', not counted)",
    "deliberately not demanded: initialisation of ActionInfo::newPosition.x/y in constructors whose action types never read it (Point() leaves them unset by design)",
    "NOT decided (residue, most of C15): histories of API calls, ownership across router/shape/pin/connector lifetimes, leaks at teardown, termination, every function not under contract",
]
EXPLANATION = ("Memory-safety, initialisation and internal-assertion obligations of the functions under contract: ActionInfo's six constructors determine every scalar "
               "field Router::processActions reads; IncSolver::mostViolated indexes its list in bounds for every length (loop contract); Blocks::cleanup compacts and frees "
               "correctly (bounded); plus the safety-class obligations of the C05/C16/C01/C20 contract jobs.")
