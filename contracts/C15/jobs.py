"""C15 jobs: memory safety / UB / assertions for the functions under contract (DESIGN.md section 5, C15)."""
import os, importlib.util
from vf import *
from common import *
import layout

HERE = os.path.dirname(os.path.abspath(__file__))
AH, AC, GT = "libavoid/actioninfo.h", "libavoid/actioninfo.cpp", "libavoid/geomtypes.cpp"
SV, BC = "libvpsc/solve_VPSC.cpp", "libvpsc/blocks.cpp"


def _mod(pid):
    p = os.path.join(VERIF, "contracts", pid, "jobs.py")
    spec = importlib.util.spec_from_file_location("jobs_%s_for_C15" % pid, p)
    m = importlib.util.module_from_spec(spec)
    spec.loader.exec_module(m)
    return m


REPLAY_AI = r'''
// Native replay for the ActionInfo obligation: every constructor is run on memory pre-filled with two different
// byte patterns; a field that is not initialised keeps the pattern, so the two objects disagree on it.
#include "libavoid/libavoid.h"
#include "libavoid/actioninfo.h"
#include <cstdio>
#include <cstring>
#include <new>
using namespace Avoid;
template <class F> static int probe(const char *name, F make) {
  alignas(16) static unsigned char m1[sizeof(ActionInfo)], m2[sizeof(ActionInfo)];
  memset(m1, 0x00, sizeof m1); memset(m2, 0xAA, sizeof m2);
  ActionInfo *a = make(m1), *b = make(m2);
  unsigned char f1, f2; memcpy(&f1, &a->firstMove, 1); memcpy(&f2, &b->firstMove, 1);
  int bad = (f1 != f2) || a->type != b->type || a->objPtr != b->objPtr;
  if (bad) printf("%s: firstMove byte 0x%02x vs 0x%02x -- left uninitialised by the constructor\n", name, f1, f2);
  a->~ActionInfo(); b->~ActionInfo();
  return bad;
}
int main() {
  int bad = 0; Polygon poly(3); Point pt(1, 2);
  bad += probe("ActionInfo(ShapeMove, ShapeRef*, Polygon, bool)", [&](void *m) { return new (m) ActionInfo(ShapeMove, (ShapeRef *)0, poly, true); });
  bad += probe("ActionInfo(ShapeRemove, ShapeRef*)", [&](void *m) { return new (m) ActionInfo(ShapeRemove, (ShapeRef *)0); });
  bad += probe("ActionInfo(JunctionMove, JunctionRef*, Point)", [&](void *m) { return new (m) ActionInfo(JunctionMove, (JunctionRef *)0, pt); });
  bad += probe("ActionInfo(JunctionRemove, JunctionRef*)", [&](void *m) { return new (m) ActionInfo(JunctionRemove, (JunctionRef *)0); });
  bad += probe("ActionInfo(ConnChange, ConnRef*)", [&](void *m) { return new (m) ActionInfo(ConnChange, (ConnRef *)0); });
  bad += probe("ActionInfo(ConnectionPinChange, ShapeConnectionPin*)", [&](void *m) { return new (m) ActionInfo(ConnectionPinChange, (ShapeConnectionPin *)0); });
  if (bad) { printf("REPRODUCED: %d constructor(s) leave firstMove indeterminate (Router::processActions reads it)\n", bad); return 1; }
  printf("not reproduced\n"); return 0;
}
'''


def replay_ai(job, obl, inputs, workdir):
    lib = build_lib("libavoid", workdir)
    rc, out = native_run(REPLAY_AI, workdir, "replay_ai", extra=["-I", COLA], libs=[lib])
    if rc is None:
        return False, out
    return rc == 1, out


REPLAY_DESTROY = r'''
// Native replay for the destructor obligation: the REAL router; a connector is created and deleted inside one pending transaction (so it was
// never processed and is not "active"); the next processTransaction() must not touch it.  A quarantining allocator poisons freed blocks.
#include "libavoid/libavoid.h"
#include <cstdio>
#include <cstdlib>
#include <cstring>
#include <csignal>
#include <new>
static const size_t QN = 4096; static void *quarantine[QN]; static size_t qsize[QN]; static size_t qn = 0;
void *operator new(size_t n) { size_t *p = (size_t *) malloc(n + 16); if (!p) throw std::bad_alloc(); p[0] = n; return (char *) p + 16; }
void operator delete(void *q) noexcept { if (!q) return; size_t *p = (size_t *)((char *) q - 16); memset(q, 0xF5, p[0]); if (qn < QN) { quarantine[qn] = p; qsize[qn++] = p[0]; } }
void *operator new[](size_t n) { return operator new(n); }
void operator delete[](void *q) noexcept { operator delete(q); }
static void onsig(int) { printf("REPRODUCED: the router used a connector after it was deleted (signal during processTransaction)\n"); fflush(stdout); _exit(1); }
int main() {
  using namespace Avoid;
  signal(SIGSEGV, onsig); signal(SIGBUS, onsig); signal(SIGABRT, onsig);
  Router *router = new Router(OrthogonalRouting);
  Rectangle r(Point(0, 0), Point(10, 10)); new ShapeRef(router, r);
  ConnRef *a = new ConnRef(router, ConnEnd(Point(-20, 5)), ConnEnd(Point(40, 5)));
  router->processTransaction();
  ConnRef *b = new ConnRef(router, ConnEnd(Point(-20, 30)), ConnEnd(Point(40, 30)));   // queued, not yet processed
  router->deleteConnector(b);                                                            // deleted inside the same pending transaction
  router->processTransaction();
  // poisoned memory written to by the router?
  int bad = 0;
  for (size_t k = 0; k < qn; ++k) { unsigned char *q = (unsigned char *) quarantine[k] + 16; for (size_t i = 0; i < qsize[k]; ++i) if (q[i] != 0xF5) { bad++; break; } }
  (void) a;
  if (bad) { printf("REPRODUCED: %d freed block(s) were written to after the deletion\n", bad); return 1; }
  printf("not reproduced\n"); return 0;
}
'''


def replay_destroy(job, obl, inputs, workdir):
    lib = build_lib("libavoid", workdir)
    rc, out = native_run(REPLAY_DESTROY, workdir, "replay_destroy", extra=["-I", COLA], libs=[lib], timeout=300)
    if rc is None:
        return False, out
    return rc == 1, out


REPLAY_RELEASE = r'''
// Native replay for the release-once obligation: the REAL layout with a constraint vector that lists one constraint twice, not next to each
// other; freeAssociatedObjects() must delete each constraint once.  A counting operator delete detects a second release of the same block.
#include "libcola/cola.h"
#include <cstdio>
#include <cstdlib>
#include <csignal>
#include <new>
static void *freed[65536]; static size_t nfreed = 0; static int doubled = 0; static bool tracking = false;
void *operator new(size_t n) { void *p = malloc(n ? n : 1); if (!p) throw std::bad_alloc(); if (tracking) for (size_t i = 0; i < nfreed; ++i) if (freed[i] == p) freed[i] = 0; return p; }
void operator delete(void *p) noexcept { if (!p) return; if (tracking) { for (size_t i = 0; i < nfreed; ++i) if (freed[i] == p) { doubled++; return; } if (nfreed < 65536) freed[nfreed++] = p; return; /* quarantined, not reused */ } free(p); }
void *operator new[](size_t n) { return operator new(n); }
void operator delete[](void *p) noexcept { operator delete(p); }
static void onsig(int) { printf("REPRODUCED: fatal signal inside freeAssociatedObjects()\n"); fflush(stdout); _exit(1); }
int main() {
  using namespace cola;
  signal(SIGSEGV, onsig); signal(SIGABRT, onsig); signal(SIGBUS, onsig);
  vpsc::Rectangles rs; for (int i = 0; i < 3; ++i) rs.push_back(new vpsc::Rectangle(30.0 * i, 30.0 * i + 10, 0, 10));
  std::vector<Edge> es; es.push_back(Edge(0, 1)); es.push_back(Edge(1, 2));
  SeparationConstraint *sep = new SeparationConstraint(vpsc::XDIM, 0, 1, 20, false);
  AlignmentConstraint *al = new AlignmentConstraint(vpsc::YDIM); al->addShape(0, 0); al->addShape(2, 0);
  CompoundConstraints ccs; ccs.push_back(sep); ccs.push_back(al); ccs.push_back(sep);
  ConstrainedFDLayout alg(rs, es, 40); alg.setConstraints(ccs); alg.run();
  tracking = true;
  alg.freeAssociatedObjects();
  tracking = false;
  if (doubled) { printf("REPRODUCED: %d block(s) were released twice by freeAssociatedObjects()\n", doubled); return 1; }
  printf("not reproduced\n"); return 0;
}
'''


def replay_release(job, obl, inputs, workdir):
    libs = [build_lib(l, workdir) for l in ("libcola", "libvpsc")]
    rc, out = native_run(REPLAY_RELEASE, workdir, "replay_release", extra=["-I", COLA], libs=libs, timeout=600)
    if rc is None:
        return False, out
    return rc == 1, out


REPLAY_HEAP = r'''
// Native replay for the pairing-heap obligation: the REAL PairingHeap (header from the working tree) with global operator new/delete replaced by a
// canary-guarded allocator; deleteMin() on heaps whose root has 2..70 children must never write past an allocation.
#include <cstdlib>
#include <cstdio>
#include <cstring>
#include <new>
static const size_t GUARD = 64; static int overruns = 0;
void *operator new(size_t n) { unsigned char *p = (unsigned char *)malloc(n + sizeof(size_t) + GUARD); if (!p) throw std::bad_alloc(); memcpy(p, &n, sizeof(size_t)); memset(p + sizeof(size_t) + n, 0xA5, GUARD); return p + sizeof(size_t); }
void operator delete(void *q) noexcept { if (!q) return; unsigned char *p = (unsigned char *)q - sizeof(size_t); size_t n; memcpy(&n, p, sizeof(size_t));
  for (size_t i = 0; i < GUARD; ++i) if (p[sizeof(size_t) + n + i] != 0xA5) { overruns++; break; } free(p); }
void operator delete(void *q, size_t) noexcept { operator delete(q); }
#include "libvpsc/pairing_heap.h"
int main() {
  for (int k = 2; k <= 70; ++k) {
    PairingHeap<int> *h = new PairingHeap<int>();
    h->insert(0); for (int i = 1; i <= k; ++i) h->insert(i);      // the minimum first: every later element becomes a child of the root
    h->deleteMin();                                                // combineSiblings over k siblings
    while (!h->isEmpty()) h->deleteMin();
    delete h;
  }
  if (overruns) { printf("REPRODUCED: %d allocation(s) of the pairing heap were written past their end\\n", overruns); return 1; }
  printf("not reproduced: no allocation overrun for roots with 2..70 children\\n"); return 0;
}
'''


def replay_heap(job, obl, inputs, workdir):
    rc, out = native_run(REPLAY_HEAP, workdir, "replay_heap", extra=["-I", COLA], libs=[], timeout=600)
    if rc is None:
        return False, out
    return rc == 1, out


def mostViolated_job(fl="libvpsc"):
    """IncSolver::mostViolated under contract (also run by the C01 check: the work list loses exactly the constraint that is returned)."""
    base = "#include <verif_base.h>\n"
    spec = spec_header() + rd(HERE, "safety.spec.c")
    # ---------------- IncSolver::mostViolated: all list indices in bounds (loop contract)
    c01 = _mod("C01")
    AV = (fl == "libavoid")
    SVx = "libavoid/vpsc.cpp" if AV else SV
    pre = prelude("vpsc.h")
    shim_filled = c01.fill(pre, c01.SHIM_POSITION, c01.SHIM_UPOSITION, c01.SHIM_SLACK, flavour=fl)
    mv = slice_func(SVx, r'^Constraint\* IncSolver::mostViolated\(Constraints &l\)', "IncSolver::mostViolated")
    zero = slice_lines(SVx, r'^static const double ZERO_UPPERBOUND=-1e-10;', 1, "ZERO_UPPERBOUND")
    # the function uses no member of IncSolver: the class qualifier is dropped so that its symbol has a single parameter
    # (goto-instrument's loop-contract symbol_map cannot name symbols containing a comma); if it ever uses a member the TU stops compiling
    mv_text = subst(mv, [(r'Constraint\* IncSolver::mostViolated\(Constraints &l\)', 'Constraint* mostViolated(Constraints &l)', 1)])
    # "element i of the list is object i of a pool of distinct live constraints": a quantified precondition, instantiated at each l[i] by the stub vector's
    # element hook (assume AND store); with it the job runs with pointer checks ON and can say WHICH element leaves the list
    mv_cxx = ("#define VERIF_VECTOR_ELEMENT_HOOK\n" + base + c01.EXTERN +
              'extern "C" { void *verif_g_l; void *verif_pool; }\n'
              'extern "C" void verif_vector_element_hook(const void *vec, size_t i, const void *slot) {\n'
              "  if (vec == (const void *)verif_g_l) {\n"
              "    __CPROVER_assume(*(vpsc::Constraint *const *)slot == (vpsc::Constraint *)verif_pool + i);\n"
              "    *(vpsc::Constraint **)slot = (vpsc::Constraint *)verif_pool + i; } }\n" +
              shim_filled + "namespace vpsc {\n" + zero.text + "\n" + mv_text + "\n}\n"
              'extern "C" { extern const unsigned long verif_sizeof_constraint = sizeof(vpsc::Constraint); }\n'
              'extern "C" void *w_mostViolated(void *s, void *l) { verif_g_l = l; return vpsc::mostViolated(*(vpsc::Constraints *)l); }\n')
    mv_sym = os.environ.get("VERIF_MV_SYM", "vpsc::mostViolated(ref_struct_tag(identifier=vpsc::tag-Constraints))")
    LD = "((struct{void*d;unsigned long n;unsigned long cap;}__attribute__((packed))*)verif_g_l)->d"
    j = (Job("mostViolated", "U", spec, "h_mostViolated", cxx=mv_cxx, enforce="w_mostViolated", replace=["w_slack"],
                  defines=["JOB_mostViolated"], slices=[mv],
                  loops=loops_file([loop_contract(mv_sym, 0,
                                                  "index <= lSize && deleteIndex <= lSize && (deleteIndex == lSize || deleteIndex < index) && lSize == __CPROVER_loop_entry(lSize) && "
                                                  "((deleteIndex < lSize) == (mostViolated != 0)) && (deleteIndex < lSize ==> (char *)mostViolated == (char *)verif_pool + deleteIndex * verif_sizeof_constraint) && "
                                                  "(verif_K_idx < lSize ==> ((void **)%s)[verif_K_idx] == verif_K)" % LD,
                                                  "index, constraint, slack, slackForMostViolated, mostViolated, deleteIndex, __CPROVER_object_whole(%s)" % LD, "lSize - index",
                                                  {"index": "1::1::index", "constraint": "1::constraint", "slack": "1::slack",
                                                   "slackForMostViolated": "1::slackForMostViolated", "mostViolated": "1::mostViolated",
                                                   "deleteIndex": "1::deleteIndex", "lSize": "1::lSize"})]),
                  flags=["--sat-solver", "cadical"], backend="sat:cadical",
                  domain="every list length up to 10^6 (the constraints a pool of distinct live objects), every slack value, ghost list index K",
                  expect=[r'postcondition', r'loop_invariant_step', r'assertion']))
    if AV:
        # libavoid's private copy (namespace Avoid), textually the same function: wrappers, hook and loop-contract symbol renamed accordingly
        import json as _json
        j.name = "libavoid_" + j.name
        j.cxx = j.cxx.replace("namespace vpsc", "namespace Avoid").replace("vpsc::", "Avoid::")
        j.loops = _json.loads(_json.dumps(j.loops).replace("vpsc::", "Avoid::").replace("vpsc\\\\:\\\\:", "Avoid\\\\:\\\\:"))
        j.domain = "[libavoid's private copy of the solver, libavoid/vpsc.cpp] " + j.domain
    return j


def jobs(tier):
    js = []
    base = "#include <verif_base.h>\n"
    spec = spec_header() + rd(HERE, "safety.spec.c")
    # ---------------- ActionInfo constructors
    pt_pre, poly_pre = prelude("avoid_geomtypes.h"), prelude("avoid_polygon.h")
    layout.check_layout("avoid_polygon", pt_pre + poly_pre, ["libavoid/geomtypes.h"],
                        [("Avoid::Point", ["x", "y", "id", "vn"]), ("Avoid::Polygon", ["_id", "ps", "ts", "checkpointsOnRoute"])],
                        sizes=["Avoid::Point", "Avoid::Polygon"])
    enum = slice_block(AH, r'^enum ActionType \{', "enum ActionType")
    cls = slice_block(AH, r'^class ActionInfo \{', "class ActionInfo")
    kconst = slice_lines("libavoid/geomtypes.h", r'^static const unsigned short k(UnassignedVertexNumber|ShapeConnectionPin) = \d+;', 2, "vertex-number constants")
    pt_ctor = slice_func(GT, r'^Point::Point\(\)', "Point::Point()")
    pt_ctor2 = slice_func(GT, r'^Point::Point\(const double xv, const double yv\)', "Point::Point(double,double)")
    ctors = [slice_func(AC, r'^ActionInfo::ActionInfo\(ActionType t, ShapeRef \*s, const Polygon& p, bool fM\)', "ActionInfo(ActionType,ShapeRef*,const Polygon&,bool)"),
             slice_func(AC, r'^ActionInfo::ActionInfo\(ActionType t, ShapeRef \*s\)', "ActionInfo(ActionType,ShapeRef*)"),
             slice_func(AC, r'^ActionInfo::ActionInfo\(ActionType t, JunctionRef \*j, const Point& p\)', "ActionInfo(ActionType,JunctionRef*,const Point&)"),
             slice_func(AC, r'^ActionInfo::ActionInfo\(ActionType t, JunctionRef \*j\)', "ActionInfo(ActionType,JunctionRef*)"),
             slice_func(AC, r'^ActionInfo::ActionInfo\(ActionType t, ConnRef \*c\)', "ActionInfo(ActionType,ConnRef*)"),
             slice_func(AC, r'^ActionInfo::ActionInfo\(ActionType t, ShapeConnectionPin \*p\)', "ActionInfo(ActionType,ShapeConnectionPin*)")]
    dtor = slice_func(AC, r'^ActionInfo::~ActionInfo\(\)', "ActionInfo::~ActionInfo")
    ai_cxx = (base + pt_pre + poly_pre + "namespace Avoid {\n"
              "class ShapeRef; class JunctionRef; class ConnRef; class ShapeConnectionPin; class Obstacle; class ConnEnd;\n"
              "// std::list<...> member: three words, opaque (no constructor reads or writes it beyond default construction)\n"
              "struct ConnUpdateList { void *_next; void *_prev; size_t _size; };\n"
              "Polygon::Polygon() { }\nPolygon::Polygon(const Polygon& other) { }\n" +
              kconst.text + "\n" + enum.text + "\n" + cls.text + "\n" + pt_ctor.text + "\n" + pt_ctor2.text + "\n" +
              "\n".join(c.text for c in ctors) + "\n" + dtor.text + "\n}\n"
              'using namespace Avoid;\n'
              'extern "C" void w_ai(int which, int t, void *obj, bool fM, int *type_out, void **obj_out, bool *fm_out) {\n'
              '  Polygon poly; Point pt(1.0, 2.0); ActionType at = (ActionType)t;\n'
              '  if (which == 1) { ActionInfo a(at, (ShapeRef *)obj, poly, fM); *type_out = a.type; *obj_out = a.objPtr; *fm_out = a.firstMove; }\n'
              '  else if (which == 2) { ActionInfo a(at, (ShapeRef *)obj); *type_out = a.type; *obj_out = a.objPtr; *fm_out = a.firstMove; }\n'
              '  else if (which == 3) { ActionInfo a(at, (JunctionRef *)obj, pt); *type_out = a.type; *obj_out = a.objPtr; *fm_out = a.firstMove; }\n'
              '  else if (which == 4) { ActionInfo a(at, (JunctionRef *)obj); *type_out = a.type; *obj_out = a.objPtr; *fm_out = a.firstMove; }\n'
              '  else if (which == 5) { ActionInfo a(at, (ConnRef *)obj); *type_out = a.type; *obj_out = a.objPtr; *fm_out = a.firstMove; }\n'
              '  else { ActionInfo a(at, (ShapeConnectionPin *)obj); *type_out = a.type; *obj_out = a.objPtr; *fm_out = a.firstMove; }\n'
              '}\n')
    for k in range(1, 7):
        js.append(Job("ActionInfo_ctor%d" % k, "U", spec, "h_ActionInfo", cxx=ai_cxx, defines=["JOB_ActionInfo", "CTOR=%d" % k],
                      slices=[ctors[k - 1], cls, enum], domain="all argument values the constructor's assertion admits",
                      expect=[r'h_ActionInfo\.assertion'], replay=replay_ai,
                      note="typedef std::list<...> ConnUpdateList replaced by an opaque three-word struct; Polygon's constructors are empty shims"))
    # ---------------- IncSolver::mostViolated (loop contract, element hook): see mostViolated_job()
    js.append(mostViolated_job())
    js.append(mostViolated_job("libavoid"))
    c01 = _mod("C01")
    pre = prelude("vpsc.h")
    # ---------------- Blocks::cleanup: bounded stand-in (it frees through every element, DESIGN 2.9)
    cl = slice_func(BC, r'^void Blocks::cleanup\(void\)', "Blocks::cleanup")
    nmax = 4 if tier == "quick" else 6
    cl_filled = c01.fill(pre, c01.SHIM_POSITION, c01.SHIM_UPOSITION, c01.SHIM_SLACK)
    cl_cxx = (base + c01.EXTERN + cl_filled + "namespace vpsc {\n" +
              cl.text + "\n}\n" 'extern "C" void w_blocks_cleanup(void *bs) { ((vpsc::Blocks *)bs)->cleanup(); }\n')
    js.append(Job("blocks_cleanup", "B", spec, "h_blocks_cleanup", cxx=cl_cxx, defines=["JOB_blocks_cleanup", "NMAX=%d" % nmax],
                  unwind=nmax + 2, bound="at most %d blocks (unwind %d, unwinding assertions on)" % (nmax, nmax + 2), slices=[cl],
                  domain="every deleted/live pattern over at most %d distinct heap blocks" % nmax,
                  expect=[r'h_blocks_cleanup\.assertion', r'unwind'], timeout=600))
    # ---------------- ConnRef::~ConnRef: whatever state the connector is in (routed or not yet processed), its destructor purges the router's
    #                  queue of pending actions of every entry for this object -- otherwise the next transaction acts on freed memory
    dt = slice_func("libavoid/connector.cpp", r'^ConnRef::~ConnRef\(\)', "ConnRef::~ConnRef")
    _, dt_body = body_of(dt.text)
    dt_sl = Slice("ConnRef::~ConnRef [body]", dt.rel, dt_body, dt.line, kind="function-body")
    n_del = len(re.findall(r'\bdelete\s+', strip_comments(dt_body)))
    dt_text = subst(dt_sl, [(r'\bdelete\s+([^;]+);', r'w_note(9, (void *)(\1));   /* delete: the object is handed back (its own destructor is not part of this obligation) */', n_del),
                            (r'\berr_printf\(', 'verif_ignore(', len(re.findall(r'\berr_printf\(', dt_body))), (r'\babort\(\);', '{ verif_thrown = 1; return; }', 1)])
    dt_cxx = ("#include <verif_base.h>\n#include <vector>\n"
              'extern "C" { void w_note(int what, void *obj); void w_purge(void *router, void *obj); }\nstatic void verif_ignore(const char *, ...) {}\n'
              "namespace Avoid {\nclass ConnRef; class VertInf;\n"
              "// stand-ins: every call the destructor makes on another object forwards to the harness (w_note), the purge to w_purge\n"
              "struct VerifRerouteFlags { void removeConn(ConnRef *c) { w_note(1, (void *)c); } };\n"
              "struct VerifVertices { void removeVertex(VertInf *v) { w_note(2, (void *)v); } };\n"
              "class Router { public: bool m_currently_calling_destructors; VerifRerouteFlags m_conn_reroute_flags; VerifVertices vertices;\n"
              "    void removeObjectFromQueuedActions(const void *object) { w_purge((void *)this, (void *)object); } };\n"
              "class VertInf { public: void removeFromGraph(const bool isConnVert = true) { w_note(3, (void *)this); } };\n"
              "class ConnEnd { public: void disconnect(const bool shapeDeleted = false) { w_note(4, (void *)this); } void freeActivePin(void) { w_note(5, (void *)this); } };\n"
              "// the data members the destructor touches, with their real types (connector.h); the class has many more\n"
              "class ConnRef { public: Router *m_router; VertInf *m_src_vert; VertInf *m_dst_vert; ConnEnd *m_src_connend; ConnEnd *m_dst_connend; bool m_active;\n"
              "    std::vector<VertInf *> m_checkpoint_vertices;\n"
              "    void freeRoutes(void) { w_note(6, (void *)this); } void makeInactive(void) { w_note(7, (void *)this); } void verif_destructor_body(); };\n"
              "void ConnRef::verif_destructor_body()\n{" + dt_text + "}\n}\n"
              "static Avoid::ConnRef verif_conn; static Avoid::Router verif_router; static Avoid::VertInf verif_v[4]; static Avoid::ConnEnd verif_e[2]; static Avoid::VertInf *verif_cpv[2];\n"
              'extern "C" void w_destroy(int active, int hasSrcV, int hasDstV, int hasSrcE, int hasDstE, unsigned ncp) {\n'
              "  verif_router.m_currently_calling_destructors = true; verif_conn.m_router = &verif_router; verif_conn.m_active = active != 0;\n"
              "  verif_conn.m_src_vert = hasSrcV ? &verif_v[0] : 0; verif_conn.m_dst_vert = hasDstV ? &verif_v[1] : 0; verif_conn.m_src_connend = hasSrcE ? &verif_e[0] : 0; verif_conn.m_dst_connend = hasDstE ? &verif_e[1] : 0;\n"
              "  verif_cpv[0] = &verif_v[2]; verif_cpv[1] = &verif_v[3]; verif_conn.m_checkpoint_vertices._d = verif_cpv; verif_conn.m_checkpoint_vertices._n = ncp; verif_conn.m_checkpoint_vertices._cap = 2;\n"
              "  verif_conn.verif_destructor_body(); }\n"
              'extern "C" void *verif_conn_addr(void) { return (void *)&verif_conn; }\nextern "C" void *verif_router_addr(void) { return (void *)&verif_router; }\n')
    js.append(Job("ConnRef_destructor_purges_queue", "U", spec, "h_destroy", cxx=dt_cxx, defines=["JOB_destroy"], slices=[dt], unwind=4, replay=replay_destroy,
                  flags=["--sat-solver", "cadical"], backend="sat:cadical",
                  domain="every state of the connector: active or not, with or without each end vertex / end point, 0 to 2 checkpoint vertices",
                  expect=[r'h_destroy\.assertion']))
    # ---------------- ConstrainedFDLayout::freeAssociatedObjects: every compound constraint the layout was given is released exactly once, also when
    #                  the vector lists one of them several times, in any positions (bounded: up to 4 entries over 2 constraints)
    fao = slice_func("libcola/colafd.cpp", r'^void ConstrainedFDLayout::freeAssociatedObjects\(void\)', "ConstrainedFDLayout::freeAssociatedObjects")
    fr = fragment_between(fao, r'std::list<CompoundConstraint \*> freeList\(ccs\.begin\(\), ccs\.end\(\)\);', r'if \(clusterHierarchy\)',
                          "freeAssociatedObjects [releasing the compound constraints]")
    fr_cxx = ("#include <verif_base.h>\n#include <vector>\n#include <list>\n#define fprintf(...) ((void)0)   /* diagnostic output dropped */\n"
              'extern "C" void w_release(void *p);\n'
              "namespace cola {\nclass CompoundConstraint;\n"
              "// stand-ins: commondefs.h's delete_object does `delete ptr`; here the release is handed to the harness, which counts it\n"
              "struct delete_object { void operator()(CompoundConstraint *ptr) { w_release((void *)ptr); } };\n"
              "inline void for_each(CompoundConstraint **first, CompoundConstraint **last, delete_object f) { for (; first != last; ++first) f(*first); }   // (std::for_each, de-templated for goto-cc)\n"
              "static delete_object verif_deleter;\n"
              "static void verif_release_ccs(std::vector<CompoundConstraint *>& ccs)\n{\n" +
              # front-end workaround: value-initialising a struct that has a member function (`delete_object()`) crashes goto-cc; a named instance is passed instead (must-fire)
              subst(fr, [(r'\bdelete_object\(\)', 'verif_deleter', len(re.findall(r'\bdelete_object\(\)', fr.text)))]) + "\n}\n}\n"
              'extern "C" unsigned long w_release_all(void *a, void *b, unsigned n, unsigned pattern) {\n'
              "  std::vector<cola::CompoundConstraint *> ccs;\n"
              "  for (unsigned k = 0; k < n; ++k) ccs.push_back((cola::CompoundConstraint *)(((pattern >> k) & 1u) ? b : a));\n"
              "  cola::verif_release_ccs(ccs); return ccs.size(); }\n")
    js.append(Job("freeAssociatedObjects_releases_once", "B", spec, "h_release", cxx=fr_cxx, defines=["JOB_release"], slices=[fao, fr], stub_variant="bounded_ctor", unwind=8, replay=replay_release,
                  flags=["--sat-solver", "cadical"], backend="sat:cadical",
                  bound="constraint vectors of 0 to 4 entries over 2 distinct constraints, in every pattern (loops unwound 8 times with unwinding assertions); std::list (sort, unique) behind an array-backed stub",
                  domain="every such vector", expect=[r'h_release\.assertion']))
    # ---------------- safety-class obligations of the other properties' contract jobs (counted here, owned there)
    for pid in ("C05", "C16", "C01", "C20"):
        m = _mod(pid)
        for j in m.jobs(tier):
            if j.cls != "U" or j.no_pointer_check or j.name == "mirror_layout" or j.enforce is None or "worklist_pick" in j.name:
                continue
            j.name = "%s__%s" % (pid, j.name)
            j.count = "safety"
            j.replay = None
            j.note = (j.note + " " if j.note else "") + "[job of %s; only its safety-class obligations count for C15]" % pid
            js.append(j)
    # ---------------- PairingHeap::combineSiblings (libvpsc/pairing_heap.h; the queue under Block::in/out and under shortest_paths): every index into its scratch
    #                  array is in bounds, for every number of siblings up to two beyond the array's initial size (bounded).  The initial size is read from the
    #                  constructor's text; the template member is de-templatised textually (template header dropped, <T,TCompare> and <T> removed).
    PH = "libvpsc/pairing_heap.h"
    cs_t = slice_func(PH, r'^PairingHeap<T,TCompare>::combineSiblings\( PairNode<T> \*firstSibling \)', "PairingHeap::combineSiblings")
    ctor_l = slice_lines(PH, r'^\s*PairingHeap\(\) : root\(nullptr\), counter\(0\), siblingsTreeArray\(\d+\) \{ \}', 1, "PairingHeap() constructor")
    n0 = int(re.search(r'siblingsTreeArray\((\d+)\)', ctor_l.text).group(1))
    if not (1 <= n0 <= 16):
        raise Undecided("C15: initial size of siblingsTreeArray is %d (bounded job models 1..16)" % n0)
    cs_text = subst(cs_t, [(r'PairingHeap<T,TCompare>::', 'PairNode *PairingHeap::', 1), (r'PairNode<T>', 'PairNode', len(re.findall(r'PairNode<T>', cs_t.text)))])
    ph_cxx = ("#include <verif_base.h>\n#include <vector>\n" 'extern "C" { void w_link(void *first, void *second); void *malloc(size_t); }\n'
              "struct PairNode { int element; PairNode *leftChild, *nextSibling, *prev; };\n"
              "// stand-in: the scratch array and the two functions; compareAndLink is behind the harness (array indexing does not depend on it)\n"
              "class PairingHeap { public: std::vector<PairNode *> siblingsTreeArray; PairNode *combineSiblings(PairNode *firstSibling);\n"
              "    void compareAndLink(PairNode *&first, PairNode *second) const { w_link((void *)first, (void *)second); } };\n" +
              cs_text + "\n"
              "static PairNode verif_parent, verif_node[%d];\n" % (n0 + 3) +
              'extern "C" void *w_combine(unsigned n) {\n'
              "  PairingHeap *h = (PairingHeap *)malloc(sizeof(PairingHeap)); h->siblingsTreeArray._d = (PairNode **)malloc(sizeof(PairNode *) * %d); h->siblingsTreeArray._n = %d; h->siblingsTreeArray._cap = %d;\n"
              "  for (unsigned i = 0; i < %d; ++i) { verif_node[i].nextSibling = (i + 1 < n) ? &verif_node[i + 1] : 0; verif_node[i].prev = i ? &verif_node[i - 1] : &verif_parent; verif_node[i].leftChild = 0; }\n"
              "  verif_parent.leftChild = &verif_node[0]; verif_parent.nextSibling = 0;\n"
              "  return (void *)h->combineSiblings(&verif_node[0]); }\n" % (n0, n0, n0, n0 + 3))
    # the slice starts at the qualified name: its return type line (`PairNode<T> *`) and template header are above it and dropped
    # one job per number of siblings (a symbolic number made cbmc run out of memory in propositional reduction: symbolic-size reallocation in resize())
    for nsib in range(1, n0 + 3):
        js.append(Job("pairing_heap_combineSiblings_indexes_in_bounds_%d" % nsib, "B", spec, "h_combine", cxx=ph_cxx, defines=["JOB_combine", "COMBINE_N=%d" % nsib], slices=[cs_t, ctor_l],
                      stub_variant="bounded", unwind=2 * n0 + 6, flags=["--sat-solver", "cadical", "--no-malloc-may-fail"], backend="sat:cadical", replay=replay_heap, timeout=300,
                      bound="exactly %d sibling(s); jobs for 1 to %d siblings (two beyond the scratch array's initial size %d, which is read from the constructor); loops unwound %d times with unwinding assertions" % (nsib, n0 + 2, n0, 2 * n0 + 6),
                      domain="the sibling chain of that length; compareAndLink behind the harness",
                      expect=[r'std::vector index in bounds|assertion']))
    return js


LEVEL = "proof"
TRUSTED = [
    "cbmc/goto-cc/goto-instrument 6.11.0 and the MiniSat back end; CBMC's memory model (bounds, pointer validity, deallocation, double delete) and its treatment of "
    "uninitialised members as unconstrained values",
    "stub std::vector (bounds-asserting operator[]), opaque three-word stand-in for the std::list member of ActionInfo, empty shims for Polygon's constructors",
    "preludes cross-checked against the real headers on every run; class ActionInfo, enum ActionType and all six constructors are sliced verbatim",
]
ASSUMPTIONS = [
    "scope: ONLY the functions under contract (listed in functions_under_contract), each under a precondition taken from its call sites; this is a small part of C15",
    "borrowed jobs (names C05__*, C16__*, C01__*, C20__*): the same contract jobs as in those properties, run again here; only their safety-class obligations "
    "(bounds, pointer validity, arithmetic overflow, COLA_ASSERT, declared frame) are counted for C15",
    "mostViolated: 'element i of the list is object i of a pool of distinct live constraints' is a precondition instantiated at each access by the stub vector's element hook (pointer checks on); Blocks::cleanup is a bounded stand-in (listed under 'bounded', not counted)",
    "deliberately not demanded: initialisation of ActionInfo::newPosition.x/y in constructors whose action types never read it (Point() leaves them unset by design)",
    "NOT decided (residue, most of C15): histories of API calls, ownership across router/shape/pin/connector lifetimes, leaks at teardown, termination, every function not under contract",
    "pairing_heap_combineSiblings_indexes_in_bounds_<n> are BOUNDED stand-ins (one job per number of siblings, 1 to initial-array-size + 2; template member de-templatised textually; compareAndLink behind the harness): "
    "every index into PairingHeap's scratch array, the terminating null slot included, is inside the array",
    "freeAssociatedObjects_releases_once is a BOUNDED stand-in (up to 4 entries over 2 constraints): std::list with sort()/unique() is an array-backed stub, `delete` is a counting note",
    "ConnRef_destructor_purges_queue: the destructor's body with every callee behind a stand-in that forwards to the harness; `delete x` replaced by a note; it decides only that "
    "removeObjectFromQueuedActions(this) is called exactly once in every state of the connector, not what the callees do",
]
EXPLANATION = ("Memory-safety, initialisation and internal-assertion obligations of the functions under contract: ActionInfo's six constructors determine every scalar "
               "field Router::processActions reads; IncSolver::mostViolated indexes its list in bounds, dereferences only live constraints and removes exactly the constraint it returns, for every length (loop contract, element hook); Blocks::cleanup compacts and frees "
               "correctly (bounded); plus the safety-class obligations of the C05/C16/C01/C20 contract jobs.")
