/* C15: memory safety / no uninitialised reads / internal assertions, for the functions under contract
 * (DESIGN.md 5/C15).  C15's evidence is the union of the safety-class obligations of the contract jobs of
 * the other properties (run again here, safety obligations counted) plus the jobs below. */
#define PACKED __attribute__((packed))

/* ------------------------------------------------------------ ActionInfo constructors */
#if defined(JOB_ActionInfo)
/* every scalar field Router::processActions reads is a function of the constructor's arguments:
 * two constructions from equal arguments agree on type, objPtr and firstMove */
void w_ai(int which, int t, void *obj, _Bool fM, int *type_out, void **obj_out, _Bool *fm_out);
void h_ActionInfo(void)
{
    int which, t; void *obj; _Bool fM;
    __CPROVER_assume(which == CTOR);
    /* the constructor's own COLA_ASSERT states which action types it admits */
#if CTOR == 1
    __CPROVER_assume(t == 0);                       /* ShapeMove */
#elif CTOR == 2
    __CPROVER_assume(t == 0 || t == 1 || t == 2);   /* ShapeMove, ShapeAdd, ShapeRemove */
#elif CTOR == 3
    __CPROVER_assume(t == 3);                       /* JunctionMove */
#elif CTOR == 4
    __CPROVER_assume(t == 3 || t == 4 || t == 5);   /* JunctionMove, JunctionAdd, JunctionRemove */
#elif CTOR == 5
    __CPROVER_assume(t == 6);                       /* ConnChange */
#elif CTOR == 6
    __CPROVER_assume(t == 7);                       /* ConnectionPinChange */
#endif
    int t1, t2; void *o1, *o2; _Bool f1, f2;
    w_ai(which, t, obj, fM, &t1, &o1, &f1);
    w_ai(which, t, obj, fM, &t2, &o2, &f2);
    __CPROVER_assert(t1 == t && t2 == t, "SPEC ActionInfo: type is the constructor argument");
    __CPROVER_assert(o1 == obj && o2 == obj, "SPEC ActionInfo: objPtr is the constructor argument");
    __CPROVER_assert(f1 == f2, "SPEC ActionInfo: firstMove is determined by the constructor arguments (initialised)");
    VERIF_CANARY;
}
#endif

/* ------------------------------------------------------------ IncSolver::mostViolated */
#if defined(JOB_mostViolated)
struct PACKED vec { void *d; size_t n; size_t cap; };
double w_slack(void *c)
__CPROVER_requires(1)
__CPROVER_ensures(1)
__CPROVER_assigns()
;
/* the list's constraints: element i of the list is object i of this pool (instantiated at each l[i] by the stub vector's element hook) */
extern void *verif_g_l; extern void *verif_pool; extern const unsigned long verif_sizeof_constraint;   /* = sizeof(vpsc::Constraint) in CBMC's C++ layout, defined in the C++ translation unit */
void *verif_K; size_t verif_K_idx;     /* ghost: an arbitrary list index and the constraint there */
#define LV(l) ((struct vec *)(l))
#define POOL_AT(i) ((void *)((char *)verif_pool + (i) * verif_sizeof_constraint))
/* every index into the list is in bounds (the stub vector asserts it) and every element dereference is of a live constraint (pointer checks on);
 * an empty list gives no constraint; a returned constraint is one of the list's; the list either stays as it is or loses EXACTLY the returned
 * constraint (the last element takes its slot, every other slot keeps its constraint): nothing else is ever dropped from the work list */
void *w_mostViolated(void *s, void *l)
__CPROVER_requires(__CPROVER_is_fresh(l, sizeof(struct vec)))
__CPROVER_requires(LV(l)->n <= 1000000 && LV(l)->cap >= LV(l)->n && LV(l)->cap <= 1000000)
__CPROVER_requires(__CPROVER_is_fresh(LV(l)->d, LV(l)->cap * sizeof(void *)))
__CPROVER_requires(__CPROVER_is_fresh(verif_pool, (LV(l)->n + 1) * verif_sizeof_constraint))
__CPROVER_requires(verif_K_idx < LV(l)->n ==> (verif_K == POOL_AT(verif_K_idx) && ((void **)LV(l)->d)[verif_K_idx] == verif_K))
__CPROVER_requires(verif_K_idx < LV(l)->n || LV(l)->n == 0)
__CPROVER_ensures(LV(l)->n == __CPROVER_old(LV(l)->n) ||
                  (__CPROVER_old(LV(l)->n) >= 1 && LV(l)->n == __CPROVER_old(LV(l)->n) - 1))
__CPROVER_ensures(__CPROVER_old(LV(l)->n) == 0 ==> __CPROVER_return_value == (void *)0)
/* (a non-empty list may still give none: every slack may be DBL_MAX, the value slack() has for a constraint already flagged unsatisfiable) */
__CPROVER_ensures(__CPROVER_return_value == (void *)0 || __CPROVER_same_object(__CPROVER_return_value, verif_pool))
/* without a returned constraint the list keeps its length */
__CPROVER_ensures(__CPROVER_return_value == (void *)0 ==> LV(l)->n == __CPROVER_old(LV(l)->n))
/* list unchanged in length: the ghost slot keeps its constraint */
__CPROVER_ensures((LV(l)->n == __CPROVER_old(LV(l)->n) && verif_K_idx < LV(l)->n) ==> ((void **)LV(l)->d)[verif_K_idx] == verif_K)
/* list shrunk: the ghost slot keeps its constraint unless it held the returned one, in which case it now holds the former last element */
__CPROVER_ensures((LV(l)->n < __CPROVER_old(LV(l)->n) && verif_K_idx < LV(l)->n) ==>
                  (verif_K != __CPROVER_return_value ? ((void **)LV(l)->d)[verif_K_idx] == verif_K
                                                     : ((void **)LV(l)->d)[verif_K_idx] == POOL_AT(LV(l)->n)))
__CPROVER_assigns(LV(l)->n, __CPROVER_object_whole(LV(l)->d), verif_g_l)
;
void h_mostViolated(void) { void *s, *l; w_mostViolated(s, l); VERIF_CANARY; }
#endif

/* ------------------------------------------------------------ Blocks::cleanup (bounded) */
#if defined(JOB_blocks_cleanup)
#ifndef NMAX
#define NMAX 4
#endif
struct PACKED vec { void *d; size_t n; size_t cap; };
struct PACKED PositionStats { double scale, AB, AD, A2; };
struct PACKED Block { struct vec *vars; double posn; struct PositionStats ps; _Bool deleted; long timeStamp; void *in; void *out; void *blocks; };
struct PACKED Blocks { long blockTimeCtr; struct vec m_blocks; void *vs; size_t nvs; };
void w_blocks_cleanup(void *bs);
void h_blocks_cleanup(void)
{
    struct Blocks bs; void *arr[NMAX]; struct Block *blk[NMAX]; _Bool del[NMAX];
    size_t n; __CPROVER_assume(n <= NMAX);
    size_t ndel = 0;
    for (size_t i = 0; i < NMAX; i++) {
        blk[i] = malloc(sizeof(struct Block)); __CPROVER_assume(blk[i] != 0);
        arr[i] = blk[i]; del[i] = blk[i]->deleted;
        if (i < n && del[i]) ndel++;
    }
    bs.m_blocks.d = arr; bs.m_blocks.n = n; bs.m_blocks.cap = NMAX;
    w_blocks_cleanup(&bs);
    __CPROVER_assert(bs.m_blocks.n == n - ndel, "SPEC Blocks::cleanup: exactly the non-deleted blocks remain");
    /* CBMC's C++ `delete` models the deallocation, not the destructor call; "double delete", "delete argument must be
     * dynamic object" and "deallocated dynamic object" (use after free) are obligations generated inside cleanup itself */
    /* survivors keep their relative order */
    size_t k = 0;
    for (size_t i = 0; i < NMAX; i++) {
        if (i < n && !del[i]) {
            __CPROVER_assert(((void **)bs.m_blocks.d)[k] == blk[i], "SPEC Blocks::cleanup: survivors kept in order");
            k++;
        }
    }
    VERIF_CANARY;
}
#endif

/* ------------------------------------------------------------ ConnRef::~ConnRef (libavoid/connector.cpp)
 * C15: "deleting a connector inside a pending transaction" must not leave an action for it in the router's queue (the next
 * processTransaction would act on freed memory).  The destructor purges the queue for THIS object exactly once, in every state. */
#if defined(JOB_destroy)
void w_destroy(int active, int hasSrcV, int hasDstV, int hasSrcE, int hasDstE, unsigned ncp); void *verif_conn_addr(void); void *verif_router_addr(void);
static int purges, purged_other; 
void w_note(int what, void *obj) { }
void w_purge(void *router, void *obj) { if (router == verif_router_addr() && obj == verif_conn_addr()) purges++; else purged_other++; }
void h_destroy(void)
{
  int active, sv, dv, se, de; unsigned ncp;
  __CPROVER_assume(ncp <= 2);
  purges = 0; purged_other = 0; verif_thrown = 0;
  w_destroy(active, sv, dv, se, de, ncp);
  __CPROVER_assert(!verif_thrown, "SPEC destruction under the router's control does not abort");
  __CPROVER_assert(purges == 1 && purged_other == 0, "SPEC the destructor purges the router's pending actions for this connector exactly once, active or not");
  VERIF_CANARY;
}
#endif

/* ------------------------------------------------------------ ConstrainedFDLayout::freeAssociatedObjects (libcola/colafd.cpp)
 * C15: "have released everything they own" and no double free: each compound constraint in the layout's vector is released exactly once,
 * however often and wherever the vector lists it, and the vector is emptied.  BOUNDED: up to 4 entries over 2 constraints. */
#if defined(JOB_release)
unsigned long w_release_all(void *a, void *b, unsigned n, unsigned pattern);
static char objA[8], objB[8]; static int relA, relB, relOther;
void w_release(void *p) { if (p == (void *)objA) relA++; else if (p == (void *)objB) relB++; else relOther++; }
void h_release(void)
{
  unsigned n, pattern;
  __CPROVER_assume(n <= 4 && pattern < 16);
  relA = relB = relOther = 0;
  unsigned long left = w_release_all(objA, objB, n, pattern);
  _Bool hasA = 0, hasB = 0;
  for (unsigned k = 0; k < 4; ++k) if (k < n) { if ((pattern >> k) & 1u) hasB = 1; else hasA = 1; }
  __CPROVER_assert(relA == (hasA ? 1 : 0) && relB == (hasB ? 1 : 0) && relOther == 0, "SPEC every constraint in the vector is released exactly once, duplicates (adjacent or not) included");
  __CPROVER_assert(left == 0, "SPEC the layout's constraint vector is emptied");
  VERIF_CANARY;
}
#endif

/* ------------------------------------------------------------------------------------------------
 * PairingHeap::combineSiblings: every index into the scratch array (the sibling slots AND the terminating null slot) is inside the array, whatever
 * the number of siblings; the stub vector asserts each index.  BOUNDED: one job per number of siblings (COMBINE_N). */
#if defined(JOB_combine)
void *w_combine(unsigned n);
void w_link(void *first, void *second) { }
void h_combine(void)
{
  unsigned n = COMBINE_N;
  void *r = w_combine(n);
  __CPROVER_assert(r != (void *)0, "SPEC combineSiblings returns a tree");
  VERIF_CANARY;
}
#endif
