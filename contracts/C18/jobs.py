"""C18 jobs: constraint transforms form the symmetry group of the square and commute with geometry (DESIGN.md 5/C18)."""
import os, importlib.util
from vf import *
from common import *
import layout, d4

HERE = os.path.dirname(os.path.abspath(__file__))
CC, CH = "libdialect/constraints.cpp", "libdialect/constraints.h"
TFN = ["ROTATE90CW", "ROTATE90ACW", "ROTATE180", "FLIPV", "FLIPH", "FLIPMD", "FLIPOD"]
STN = {0: "NONE", 1: "EQ", 2: "INEQ"}
GTN = {0: "CENTRE", 1: "BDRY"}
SDN = ["EAST", "SOUTH", "WEST", "NORTH", "RIGHT", "DOWN", "LEFT", "UP"]


def _c01():
    p = os.path.join(VERIF, "contracts", "C01", "jobs.py")
    spec = importlib.util.spec_from_file_location("jobs_C01_for_C18", p)
    m = importlib.util.module_from_spec(spec)
    spec.loader.exec_module(m)
    return m


REPLAY_SRC = r'''
// Native replay for C18 obligations on the REAL dialect::SepPair (libdialect rebuilt from the working tree):
// (1) the 49 products of the symmetry group of the square, records compared bit for bit;
// (2) commutation of transform with geometry on a grid of integer placements, both signs of zero gap;
// (3) addSep under (a,b) with g versus under (b,a) with -g.
#include "libdialect/constraints.h"
#include "libdialect/graphs.h"
#include <cstdio>
#include <cstring>
#include <cmath>
using namespace dialect;
static const int MAT[8][4] = {{0,-1,1,0},{0,1,-1,0},{-1,0,0,-1},{-1,0,0,1},{1,0,0,-1},{0,1,1,0},{0,-1,-1,0},{1,0,0,1}};
static bool same(const SepPair &p, const SepPair &q) {
  return p.xgt == q.xgt && p.ygt == q.ygt && p.xst == q.xst && p.yst == q.yst && memcmp(&p.xgap, &q.xgap, 8) == 0 && memcmp(&p.ygap, &q.ygap, 8) == 0;
}
static void app(SepPair &p, int tf) { if (tf != 7) p.transform((SepTransform)tf); }
static bool sat1(SepType st, GapType gt, double gap, double a, double as, double b, double bs) {
  if (st == SepType::NONE) return true;
  double l, r, g, sl, sr;
  if (std::signbit(gap)) { g = -gap; l = b; r = a; sl = bs; sr = as; } else { g = gap; l = a; r = b; sl = as; sr = bs; }
  if (gt == GapType::BDRY) g += (sl + sr) / 2.0;
  return st == SepType::EQ ? (l + g == r) : (l + g <= r);
}
static bool sat(const SepPair &p, const double *A, const double *B) {   // A,B = {x,y,w,h}
  return sat1(p.xst, p.xgt, p.xgap, A[0], A[2], B[0], B[2]) && sat1(p.yst, p.ygt, p.ygap, A[1], A[3], B[1], B[3]);
}
static void tp(int tf, const double *P, double *Q) {
  Q[0] = MAT[tf][0] * P[0] + MAT[tf][1] * P[1]; Q[1] = MAT[tf][2] * P[0] + MAT[tf][3] * P[1];
  bool odd = MAT[tf][0] == 0; Q[2] = odd ? P[3] : P[2]; Q[3] = odd ? P[2] : P[3];
}
int main() {
  int bad = 0;
  const double gaps[] = {0.0, -0.0, 3.0, -3.0};
  for (int xs = 0; xs < 3; ++xs) for (int ys = 0; ys < 3; ++ys) for (int xg = 0; xg < 2; ++xg) for (int yg = 0; yg < 2; ++yg)
  for (int gx = 0; gx < 4; ++gx) for (int gy = 0; gy < 4; ++gy) {
    SepPair s; s.xst = (SepType)xs; s.yst = (SepType)ys; s.xgt = (GapType)xg; s.ygt = (GapType)yg; s.xgap = gaps[gx]; s.ygap = gaps[gy];
    for (int a = 0; a < 7; ++a) for (int b = 0; b < 7; ++b) {
      int c = -1;
      for (int k = 0; k < 8; ++k) {
        int m[4] = {MAT[b][0]*MAT[a][0]+MAT[b][1]*MAT[a][2], MAT[b][0]*MAT[a][1]+MAT[b][1]*MAT[a][3], MAT[b][2]*MAT[a][0]+MAT[b][3]*MAT[a][2], MAT[b][2]*MAT[a][1]+MAT[b][3]*MAT[a][3]};
        if (!memcmp(m, MAT[k], sizeof m)) c = k;
      }
      SepPair p = s, q = s; app(p, a); app(p, b); app(q, c);
      if (!same(p, q)) { if (bad < 5) printf("group law fails: transform %d then %d is not transform %d on record (xst=%d xgt=%d xgap=%g%s, yst=%d ygt=%d ygap=%g%s)\n", a, b, c, xs, xg, s.xgap, std::signbit(s.xgap)?" [sign set]":"", ys, yg, s.ygap, std::signbit(s.ygap)?" [sign set]":""); bad++; }
    }
    for (int tf = 0; tf < 7; ++tf) {
      SepPair t = s; t.transform((SepTransform)tf);
      for (int dx = -4; dx <= 4; dx += 2) for (int dy = -4; dy <= 4; dy += 2) {
        double A[4] = {0, 0, 2, 4}, B[4] = {(double)dx, (double)dy, 4, 2}, TA[4], TB[4];
        tp(tf, A, TA); tp(tf, B, TB);
        if (sat(s, A, B) != sat(t, TA, TB)) { if (bad < 5) printf("commutation fails: transform %d, record (xst=%d xgt=%d xgap=%g%s, yst=%d ygt=%d ygap=%g%s), target at (%d,%d)\n", tf, xs, xg, s.xgap, std::signbit(s.xgap)?" [sign set]":"", ys, yg, s.ygap, std::signbit(s.ygap)?" [sign set]":"", dx, dy); bad++; }
      }
    }
  }
  for (int sd = 0; sd < 8; ++sd) for (int st = 1; st < 3; ++st) for (int gt = 0; gt < 2; ++gt) for (int g = 0; g < 4; ++g) {
    SepPair p, q; p.addSep((GapType)gt, (SepDir)sd, (SepType)st, gaps[g]); q.addSep((GapType)gt, (SepDir)sd, (SepType)st, -gaps[g]);
    for (int dx = -4; dx <= 4; dx += 2) for (int dy = -4; dy <= 4; dy += 2) {
      double A[4] = {0, 0, 2, 4}, B[4] = {(double)dx, (double)dy, 4, 2};
      if (sat(p, A, B) != sat(q, B, A)) { if (bad < 5) printf("addSep flip fails: dir %d type %d gaptype %d gap %g\n", sd, st, gt, gaps[g]); bad++; }
    }
  }
  // (4) what VPSC receives: SepMatrix::generateSeparationConstraints on a two-node graph, for every direction/type and
  //     both signs of a zero or non-zero gap, must describe the same half-plane as the record's meaning
  for (int sd = 0; sd < 8; ++sd) for (int st = 1; st < 3; ++st) for (int gt = 0; gt < 2; ++gt) for (int g = 0; g < 4; ++g) {
    Graph G; Node_SP a = Node::allocate(), b = Node::allocate();
    a->setDims(2, 4); b->setDims(4, 2); a->setCentre(0, 0); b->setCentre(0, 0); G.addNode(a); G.addNode(b); G.updateColaGraphRep();
    SepMatrix &m = G.getSepMatrix(); ColaGraphRep &cgr = G.getColaGraphRep();
    size_t ia = cgr.id2ix.at(a->id()), ib = cgr.id2ix.at(b->id());
    m.addSep(a->id(), b->id(), (GapType)gt, (SepDir)sd, (SepType)st, gaps[g]);
    SepPair p; p.addSep((GapType)gt, (SepDir)sd, (SepType)st, gaps[g]);
    for (int d = 0; d < 2; ++d) {
      vpsc::Variables vs; vpsc::Constraints cs; vpsc::Rectangles bbs;
      vs.push_back(new vpsc::Variable(0, 0)); vs.push_back(new vpsc::Variable(1, 0));
      m.generateSeparationConstraints((vpsc::Dim)d, vs, cs, bbs);
      SepType rst = d == 0 ? p.xst : p.yst; GapType rgt = d == 0 ? p.xgt : p.ygt; double rgap = d == 0 ? p.xgap : p.ygap;
      for (int pa = -6; pa <= 6; pa += 3) for (int pb = -6; pb <= 6; pb += 3) {
        bool want = sat1(rst, rgt, rgap, pa, d == 0 ? 2 : 4, pb, d == 0 ? 4 : 2), got = true;
        double pos[2]; pos[ia] = pa; pos[ib] = pb;
        for (size_t k = 0; k < cs.size(); ++k) {
          double l = pos[cs[k]->left->id], r = pos[cs[k]->right->id];
          got = got && (cs[k]->equality ? (l + cs[k]->gap == r) : (l + cs[k]->gap <= r));
        }
        if (want != got) { if (bad < 8) printf("generateSeparationConstraint: dir %d type %d gaptype %d gap %g%s dim %d: emitted constraint disagrees with the record at a=%d b=%d\n", sd, st, gt, gaps[g], std::signbit(gaps[g])?" [sign set]":"", d, pa, pb); bad++; }
      }
      for (size_t k = 0; k < cs.size(); ++k) delete cs[k];
      delete vs[0]; delete vs[1];
    }
  }
  // (5) storing under (b,a) must mean the same whatever was stored for the pair before: (b,a,dir,gap) into a matrix that already holds
  //     a constraint given as (a,b) -- or whose pair was last looked up as (a,b) -- against the same call on a fresh matrix
  for (int hist = 0; hist < 3; ++hist) for (int sd = 0; sd < 8; ++sd) {
    vpsc::Constraint *res[2][2] = {{0, 0}, {0, 0}};
    std::vector<double> sig[2];
    for (int run = 0; run < 2; ++run) {      // run 0: fresh matrix; run 1: with history
      Graph G; Node_SP a = Node::allocate(), b = Node::allocate();
      a->setDims(2, 4); b->setDims(4, 2); a->setCentre(0, 0); b->setCentre(0, 0); G.addNode(a); G.addNode(b); G.updateColaGraphRep();
      SepMatrix &m = G.getSepMatrix(); ColaGraphRep &cgr = G.getColaGraphRep();
      id_type lo = a->id() < b->id() ? a->id() : b->id(), hi = a->id() < b->id() ? b->id() : a->id();
      if (run == 1) {
        if (hist == 0) m.addSep(lo, hi, GapType::CENTRE, SepDir::EAST, SepType::INEQ, 7);
        else if (hist == 1) { m.addSep(hi, lo, GapType::CENTRE, SepDir::EAST, SepType::INEQ, 7); m.addSep(lo, hi, GapType::CENTRE, SepDir::NORTH, SepType::INEQ, 3); }
        else { m.addSep(lo, hi, GapType::CENTRE, SepDir::EAST, SepType::INEQ, 7); m.free(lo, hi); }
      }
      // the call under test, ids in reverse order, a cardinal direction (sets both dimensions, so nothing of the history remains in the record)
      m.addSep(hi, lo, GapType::CENTRE, (SepDir)(sd % 4), sd < 4 ? SepType::INEQ : SepType::EQ, 20);
      size_t ilo = cgr.id2ix.at(lo);
      for (int d = 0; d < 2; ++d) {
        vpsc::Variables vs; vpsc::Constraints cs; vpsc::Rectangles bbs;
        vs.push_back(new vpsc::Variable(0, 0)); vs.push_back(new vpsc::Variable(1, 0));
        m.generateSeparationConstraints((vpsc::Dim)d, vs, cs, bbs);
        for (size_t k = 0; k < cs.size(); ++k) { sig[run].push_back(d); sig[run].push_back((size_t)cs[k]->left->id == ilo ? 0 : 1); sig[run].push_back(cs[k]->gap); sig[run].push_back(cs[k]->equality); delete cs[k]; }
        delete vs[0]; delete vs[1];
      }
    }
    if (sig[0] != sig[1]) { if (bad < 8) printf("addSep(larger id, smaller id, dir %d, %s, 20) means something else after history %d for that pair than on a fresh matrix (flippedRetrieval is stale)\n", sd % 4, sd < 4 ? ">=" : "==", hist); bad++; }
  }
  // (6) a cardinal separation on a pair that already holds a fixed offset in the other axis: "east of, and aligned" replaces the offset
  for (int sd = 0; sd < 4; ++sd) {
    SepPair p; bool xmain = (sd == 0 || sd == 2);
    p.addSep(GapType::CENTRE, xmain ? SepDir::DOWN : SepDir::RIGHT, SepType::EQ, 40);       // earlier: centres exactly 40 apart in the OTHER axis
    p.addSep(GapType::CENTRE, (SepDir)sd, SepType::INEQ, 10);
    double sgn = (sd == 0 || sd == 1) ? 1 : -1;
    double A[4] = {0, 0, 2, 2}, Baligned[4] = {xmain ? 20 * sgn : 0, xmain ? 0 : 20 * sgn, 2, 2}, Boffset[4] = {xmain ? 20 * sgn : 40, xmain ? 40 : 20 * sgn, 2, 2};
    if (!sat(p, A, Baligned) || sat(p, A, Boffset)) { if (bad < 8) printf("cardinal direction %d after a fixed offset of 40 in the other axis: aligned placement %s, offset placement %s\n", sd,
        sat(p, A, Baligned) ? "accepted" : "REJECTED", sat(p, A, Boffset) ? "ACCEPTED" : "rejected"); bad++; }
  }
  if (bad) { printf("REPRODUCED: %d disagreement(s)\n", bad); return 1; }
  printf("not reproduced\n"); return 0;
}
'''


def replay_c18(job, obl, inputs, workdir):
    libs = [build_lib(l, workdir) for l in ("libdialect", "libcola", "libtopology", "libavoid", "libvpsc")]
    rc, out = native_run(REPLAY_SRC, workdir, "replay_c18", extra=["-I", COLA], libs=libs, timeout=300)
    if rc is None:
        return False, out
    return rc == 1, out


def jobs(tier):
    js = []
    c01 = _c01()
    base = "#include <verif_base.h>\n"
    enums = [slice_block(CH, r'^enum class GapType \{', "enum class GapType"),
             slice_block(CH, r'^enum class SepDir \{', "enum class SepDir"),
             slice_block(CH, r'^enum class SepType \{', "enum class SepType"),
             slice_block(CH, r'^enum class SepTransform \{', "enum class SepTransform")]
    pre0 = prelude("dialect_seppair.h").replace("@ENUMS@", "\n".join(e.text for e in enums))
    pre = pre0.replace("@DIALECT_DEPS@", "class SepMatrix;\nstruct ColaGraphRep;")
    layout.check_layout("dialect_seppair", pre.replace("@SEPPAIR_EXTRA@", ""), ["libdialect/constraints.h"],
                        [("dialect::SepPair", ["src", "tgt", "xgt", "ygt", "xst", "yst", "xgap", "ygap", "tglfPrecision", "flippedRetrieval"])],
                        sizes=["dialect::SepPair"])
    tr = slice_func(CC, r'^void SepPair::transform\(SepTransform tf\)', "SepPair::transform")
    ad = slice_func(CC, r'^void SepPair::addSep\(GapType gt, SepDir sd, SepType st, double gap\)', "SepPair::addSep")
    usings = slice_lines(CC, r'^using std::(swap|signbit);', 2, "using std::swap / std::signbit")
    spec0 = spec_header() + rd(HERE, "transforms.spec.c")
    spec = spec0.replace("@GROUP_TABLE@", d4.c_checks())
    sp_pre = pre.replace("@SEPPAIR_EXTRA@", "")
    cxx = (base + sp_pre + "using std::swap;\nnamespace dialect {\n" + tr.text + "\n" + ad.text + "\n}\n"
           'extern "C" void w_transform(void *sp, int tf) { ((dialect::SepPair *)sp)->transform((dialect::SepTransform)tf); }\n'
           'extern "C" void w_addSep(void *sp, int gt, int sd, int st, double gap) { ((dialect::SepPair *)sp)->addSep((dialect::GapType)gt, (dialect::SepDir)sd, (dialect::SepType)st, gap); }\n')
    mirror = [("dialect::SepPair", "struct SepPair", ["src", "tgt", "xgt", "ygt", "xst", "yst", "xgap", "ygap", "tglfPrecision", "flippedRetrieval"])]
    js.append(c01.mirror_job(sp_pre, spec, mirror))
    js.append(Job("group_laws", "U", spec, "h_group_laws", cxx=cxx, defines=["JOB_group_laws"], slices=[tr] + enums,
                  domain="every SepPair: all type combinations, all doubles as gaps (compared bit for bit, incl. -0.0, NaN payloads)",
                  expect=[r'h_group_laws\.assertion'], replay=replay_c18, timeout=600, flags=["--object-bits", "12"],
                  note="49 products of the symmetry group of the square, table generated by tools/d4.py from 2x2 matrices"))
    bound = 64 if tier == "quick" else 1 << 20
    for tf in range(7):
        for axis in (0, 1):
            for st in (0, 1, 2):
                for gt in (0, 1):
                    js.append(Job("commute_%s_%s_%s_%s" % (TFN[tf], "xy"[axis], STN[st], GTN[gt]), "D", spec, "h_commute", cxx=cxx,
                                  defines=["JOB_commute", "TF=%d" % tf, "AXIS=%d" % axis, "ST=%d" % st, "GT=%d" % gt, "BOUND=%d" % bound],
                                  slices=[tr], flags=["--sat-solver", "cadical"], backend="sat:cadical", timeout=900, replay=replay_c18,
                                  domain="bit-precise IEEE; integer-valued centres and gaps with |v| <= %d (both signs of zero), even sizes <= %d; "
                                         "the other record arbitrary" % (bound, 2 * bound),
                                  expect=[r'h_commute\.assertion']))
    for sd in range(8):
        js.append(Job("addSep_flip_%s" % SDN[sd], "D", spec, "h_addSep_flip", cxx=cxx,
                      defines=["JOB_addSep_flip", "SD=%d" % sd, "BOUND=%d" % bound], slices=[ad],
                      flags=["--sat-solver", "cadical"], backend="sat:cadical", timeout=900, replay=replay_c18,
                      domain="bit-precise IEEE; every gap type and relation; integer-valued centres and gaps with |v| <= %d (both signs of zero), even sizes" % bound,
                      expect=[r'h_addSep_flip\.assertion']))
    js.append(Job("addSep_meaning_after_any_history", "U", spec, "h_addSep_meaning", cxx=cxx, defines=["JOB_addSep_meaning"], slices=[ad],
                  flags=["--sat-solver", "cadical"], backend="sat:cadical", timeout=600, replay=replay_c18,
                  domain="every prior record of the pair (all type combinations, all doubles), every gap type, direction and relation, every gap (all doubles but NaN; compared bit for bit)",
                  expect=[r'h_addSep_meaning\.assertion']))
    # ---------------- generateSeparationConstraint: what VPSC receives is the record's meaning
    gs = slice_func(CC, r'^vpsc::Constraint \*SepPair::generateSeparationConstraint\(const vpsc::Dim dim, const ColaGraphRep &cgr,', "SepPair::generateSeparationConstraint")
    dim = slice_block("libvpsc/rectangle.h", r'^enum Dim \{', "enum vpsc::Dim")
    cctor = slice_func("libvpsc/constraint.cpp", r'^Constraint::Constraint\(Variable \*left, Variable \*right, double gap, bool equality\)', "vpsc::Constraint::Constraint")
    vp = c01.fill(prelude("vpsc.h"), c01.SHIM_POSITION, c01.SHIM_UPOSITION, c01.SHIM_SLACK)
    rect = prelude("vpsc_rectangle.h").replace("@RECT_INLINES@",
        "    double width() const { return w_rect_width((void *)this); }\n    double height() const { return w_rect_height((void *)this); }")
    deps = ("class SepMatrix { public: double getExtraBdryGap(void) const { return w_extra_bdry_gap((void *)this); } };\n"
            "// std::map<id_type,size_t>: 48 bytes, only .at() is used\n"
            "struct verif_idmap { char _pad[48]; size_t at(const id_type& k) const { return w_id2ix_at((void *)this, k); } };\n"
            "struct ColaGraphRep { vpsc::Rectangles rs; std::vector<cola::Edge> es; cola::RootCluster *rc; verif_idmap id2ix; verif_idmap ix2id; };")
    gpre = pre0.replace("@DIALECT_DEPS@", deps).replace("@SEPPAIR_EXTRA@",
        "    vpsc::Constraint *generateSeparationConstraint(const vpsc::Dim dim, const ColaGraphRep &cgr, SepMatrix *m, vpsc::Variables &vs);")
    vp_l = c01.fill(prelude("vpsc.h"), "", "", "")
    rect_l = prelude("vpsc_rectangle.h").replace("@RECT_INLINES@", "")
    gpre_l = gpre.replace("{ return w_extra_bdry_gap((void *)this); }", ";").replace("{ return w_id2ix_at((void *)this, k); }", ";")
    layout.check_layout("dialect_cgr", vp_l + rect_l + "namespace vpsc {\n" + dim.text + "\n}\nnamespace cola { class RootCluster; struct Edge { unsigned first, second; }; }\n" + gpre_l,
                        ["libdialect/graphs.h", "libdialect/constraints.h"],
                        [("dialect::ColaGraphRep", ["rs", "es", "rc", "id2ix", "ix2id"]), ("vpsc::Rectangle", ["minX", "maxX", "minY", "maxY", "overlap"])],
                        sizes=["dialect::ColaGraphRep", "vpsc::Rectangle"])
    gcxx = (base + c01.EXTERN + 'extern "C" { size_t w_id2ix_at(void *, unsigned); double w_rect_width(void *); double w_rect_height(void *); double w_extra_bdry_gap(void *); }\n' +
            vp + rect + "namespace vpsc {\n" + dim.text + "\n" + cctor.text + "\n}\n"
            "namespace cola { class RootCluster; struct Edge { unsigned first, second; }; }\n" + gpre +
            "// goto-instrument --dfcc has no model of C++ operator new (it plants 'undefined function should be unreachable'):\n"
            "// `new vpsc::Constraint(args)` is substituted (must-fire, 1 hit) by this helper = malloc + the REAL constructor on a temporary + field-wise copy\n"
            'extern "C" void *malloc(size_t);\n'
            "static vpsc::Constraint *verif_new_Constraint(vpsc::Variable *l, vpsc::Variable *r, double g, bool e) {\n"
            "  vpsc::Constraint t(l, r, g, e); vpsc::Constraint *p = (vpsc::Constraint *)malloc(sizeof(vpsc::Constraint));\n"
            "  __CPROVER_assume(p != 0);   // operator new does not return null (it throws)\n"
            "  p->left = t.left; p->right = t.right; p->gap = t.gap; p->lm = t.lm; p->timeStamp = t.timeStamp; p->active = t.active;\n"
            "  *(bool *)&p->equality = t.equality; p->unsatisfiable = t.unsatisfiable; p->needsScaling = t.needsScaling; p->creator = t.creator; return p; }\n"
            "using std::signbit;\nnamespace dialect {\n" + subst(gs, [(r'new vpsc::Constraint\(', 'verif_new_Constraint(', 1)]) + "\n}\n"
            'extern "C" void *w_genSep(void *sp, int dim, void *cgr, void *m, void *vs) { return ((dialect::SepPair *)sp)->generateSeparationConstraint('
            '(vpsc::Dim)dim, *(const dialect::ColaGraphRep *)cgr, (dialect::SepMatrix *)m, *(vpsc::Variables *)vs); }\n')
    js.append(Job("genSep", "U", spec, "h_genSep", cxx=gcxx, enforce="w_genSep",
                  replace=["w_id2ix_at", "w_rect_width", "w_rect_height", "w_extra_bdry_gap"], defines=["JOB_genSep"],
                  slices=[gs, cctor, dim], replay=replay_c18, flags=["--object-bits", "12"],
                  domain="every SepPair (all doubles as gaps incl. -0.0), both dimensions; id2ix.at / Rectangle::width,height / getExtraBdryGap behind contracts",
                  expect=[r'w_genSep\.postcondition', r'precondition']))
    # ---------------- SepMatrix::getSepPair: the pair handed out is stored under (min,max) and its flippedRetrieval flag says whether THIS
    # retrieval named the ids in reverse -- for a pair that already exists as much as for a new one (addSep/addFixedRelativeSep/getCardinalDir
    # negate on that flag: "storing a constraint under (a,b) or its negation under (b,a) is equivalent")
    gsp = slice_func(CC, r'^SepPair_SP &SepMatrix::getSepPair\(id_type id1, id_type id2\)', "SepMatrix::getSepPair")
    spctor = slice_lines(CH, r'^\s*SepPair\(void\) : src\(0\), tgt\(0\),', 1, "SepPair default constructor")
    gsp_text = subst(gsp, [(r'throw std::runtime_error\("Cannot set a constraint between a node and itself\."\);', '{ verif_thrown = 1; return verif_no_pair; }', 1),
                           (r'std::make_shared<SepPair>\(\)', 'verif_make_shared_SepPair()', 2),
                           # front-end workaround: an overloaded operator-> result is "not an lvalue" for goto-cc; the stand-in's pointer is named directly
                           (r'\bsp->', 'sp.p->', 6)])
    sp_deps = ("class SepMatrix;\nstruct ColaGraphRep;\n")
    gsp_pre = pre0.replace("@DIALECT_DEPS@", sp_deps).replace("@SEPPAIR_EXTRA@", spctor.text)
    gsp_cxx = (base + 'extern "C" { void *w_sparse_slot(void *m, unsigned a, unsigned b); void *malloc(size_t); }\n' + gsp_pre +
               "namespace dialect {\n"
               "// stand-in for std::shared_ptr<SepPair> (two words: object, control block); only `== nullptr`, `->` and assignment from make_shared are used\n"
               "struct SepPair_SP { SepPair *p; void *ctl; SepPair *operator->() const { return p; } bool operator==(const void *q) const { return p == q; } };\n"
               "// stand-in for std::map<id_type, std::map<id_type, SepPair_SP>>: operator[][] forwards to a contract that hands out the slot\n"
               "struct VerifRow { void *m; id_type a; SepPair_SP &operator[](id_type b) { return *(SepPair_SP *)w_sparse_slot(m, a, b); } };\n"
               "struct VerifSparse { VerifRow operator[](id_type a) { VerifRow r; r.m = (void *)this; r.a = a; return r; } };\n"
               "class SepMatrix { public: SepPair_SP &getSepPair(id_type id1, id_type id2); VerifSparse m_sparseLookup; };\n"
               "static SepPair_SP verif_no_pair;\n"
               "// std::make_shared<SepPair>() substituted (must-fire, 2 hits): malloc + the REAL default constructor on a temporary + field-wise copy of what it initialises\n"
               "static SepPair_SP verif_make_shared_SepPair() { SepPair t; SepPair *p = (SepPair *)malloc(sizeof(SepPair)); __CPROVER_assume(p != 0);\n"
               "  p->src = t.src; p->tgt = t.tgt; p->xgt = t.xgt; p->ygt = t.ygt; p->xst = t.xst; p->yst = t.yst; p->xgap = t.xgap; p->ygap = t.ygap; SepPair_SP r; r.p = p; r.ctl = 0; return r; }\n" +
               gsp_text + "\n}\n"
               'extern "C" void *w_getSepPair(void *m, unsigned id1, unsigned id2) { return (void *)&((dialect::SepMatrix *)m)->getSepPair(id1, id2); }\n')
    js.append(Job("getSepPair_flag", "U", spec, "h_getSepPair", cxx=gsp_cxx, enforce="w_getSepPair", replace=["w_sparse_slot"], defines=["JOB_getSepPair"],
                  slices=[gsp, spctor], replay=replay_c18, flags=["--object-bits", "12"],
                  domain="every pair of distinct ids in either order, pair already stored (with any stale flag) or not; the sparse map behind a contract that demands ordered keys",
                  expect=[r'w_getSepPair\.postcondition', r'w_sparse_slot\.precondition|precondition']))
    return js


LEVEL = "proof"
TRUSTED = [
    "cbmc/goto-cc/goto-instrument 6.11.0; MiniSat and CaDiCaL back ends (bit-precise IEEE-754)",
    "tools/d4.py: the multiplication table of the symmetry group of the square from 2x2 integer matrices (y downward, CW = (x,y)->(-y,x))",
    "the meaning sat1() of a separation record as stated in the contract file (from the property: sign bit of the gap picks the left node, BDRY adds half extents, EQ/INEQ); "
    "job genSep ties it to what SepPair::generateSeparationConstraint hands to VPSC",
    "prelude/dialect_seppair.h (layout cross-checked; the four enum classes sliced verbatim); std::map<id_type,size_t>::at, Rectangle::width/height and "
    "SepMatrix::getExtraBdryGap behind assumed read-only contracts; `new vpsc::Constraint(..)` substituted by malloc + the real constructor on a temporary + field-wise copy "
    "(goto-instrument --dfcc has no model of operator new), with the assumption that allocation succeeds",
]
ASSUMPTIONS = [
    "commutation and addSep-flip jobs are complete proofs over the stated exact domain only (integer-valued centres/gaps incl. both zeros, even sizes, |v| <= bound): outside it "
    "u+g<=v and u<=v-g can differ by one rounding, so the exact domain is part of the statement",
    "genSep: for BDRY gaps only the choice of left/right/equality is claimed for all doubles; the BDRY magnitude (gap + half extents + extra gap) is floating-point addition and is not claimed",
    "getSepPair_flag: std::shared_ptr<SepPair> and the map-of-maps are replaced by stand-ins (a two-word pointer struct; operator[][] forwarding to a contract that hands out "
    "the slot and demands ordered keys); `sp->` is rewritten `sp.p->` (goto-cc does not accept an overloaded operator-> result as an lvalue); std::make_shared substituted by "
    "malloc + the real default constructor; checkSepPair (which also writes the flag) and the callers' use of the flag are by inspection",
    "NOT decided (residue): TGLF writer/reader round trip (iostreams; seeds C18-2 and C18-4 are missed for this reason), SepMatrix::transform applying to every pair, free/clear bookkeeping",
]
EXPLANATION = ("Contracts on the real dialect::SepPair: transform realises the complete multiplication table of the symmetry group of the square (49 products, records compared "
               "bit for bit, all doubles); transform commutes with geometry record by record (84 cases: 7 transforms x 2 axes x 3 relations x 2 gap types); addSep under (a,b) "
               "with g equals addSep under (b,a) with -g; addSep stores the stated separation (a cardinal one with the alignment in the other axis) whatever the pair held before; SepMatrix::getSepPair hands out the pair with a flag that describes the current retrieval whether or not the pair "
               "existed (so the negation is applied on the id order of THIS call); generateSeparationConstraint hands VPSC exactly the record's meaning (sign bit of the gap, incl. -0.0).")
