#!/usr/bin/env python3
"""Self-test: apply every /verif/seeded/<id>/patch.diff to /repo in turn, run the quick check of the property it breaks,
undo the patch, and record which obligations (if any) caught it in seeded/<id>/detection.json.  Never run by the registered commands."""
import json, os, re, subprocess, sys
HERE = os.path.dirname(os.path.dirname(os.path.abspath(__file__)))
only = sys.argv[1:]
rows = []
for sid in sorted(os.listdir(os.path.join(HERE, "seeded"))):
    d = os.path.join(HERE, "seeded", sid)
    patch = os.path.join(d, "patch.diff")
    if not os.path.exists(patch) or (only and sid not in only):
        continue
    pid = sid.split("-")[0]
    # a seed may also be caught by an obligation that belongs to another property's check
    ALSO = {"C05-1": ["C20"], "C09-5": ["C01"], "C20-5": ["C17"]}
    st = subprocess.run(["git", "-C", "/repo", "status", "--porcelain"], capture_output=True, text=True).stdout.strip()
    if st:
        print("refusing: /repo has local changes:\n" + st); sys.exit(2)
    # the checks rewrite evidence/<id>.json; keep the unchanged-tree evidence (it is committed) out of harm's way
    evs = {op: open(os.path.join(HERE, "evidence", op + ".json")).read() for op in [pid] + ALSO.get(sid, [])
           if os.path.exists(os.path.join(HERE, "evidence", op + ".json"))}
    ap = subprocess.run(["git", "-C", "/repo", "apply", patch], capture_output=True, text=True)
    if ap.returncode != 0:
        print(sid, "patch does not apply:", ap.stderr[:300]); continue
    other = {}
    try:
        r = subprocess.run([os.path.join(HERE, "check"), pid, "quick"], cwd=HERE, capture_output=True, text=True, timeout=3600)
        for op in ALSO.get(sid, []):
            ro = subprocess.run([os.path.join(HERE, "check"), op, "quick"], cwd=HERE, capture_output=True, text=True, timeout=3600)
            vo = re.findall(r'^VIOLATION property=\S+ replay=\S+ obligation=(\S+)( no-failing-input-found)?', ro.stdout, re.M)
            other[op] = {"check_exit": ro.returncode, "obligations": [v[0] for v in vo][:10], "replayed_on_real_code": any(not v[1] for v in vo)}
    finally:
        subprocess.run(["git", "-C", "/repo", "checkout", "--", "."])
        for op, txt in evs.items():
            open(os.path.join(HERE, "evidence", op + ".json"), "w").write(txt)
    vio = re.findall(r'^VIOLATION property=\S+ replay=\S+ obligation=(\S+)( no-failing-input-found)?', r.stdout, re.M)
    res = {"seed": sid, "property": pid, "check_exit": r.returncode, "detected": r.returncode == 1,
           "obligations": [v[0] for v in vio][:40], "replayed_on_real_code": any(not v[1] for v in vio),
           "summary": r.stdout.strip().split("\n")[-1][:300], "other_property_checks": other}
    json.dump(res, open(os.path.join(d, "detection.json"), "w"), indent=1)
    rows.append(res)
    print("%-8s exit=%d detected=%s replayed=%s  %s" % (sid, r.returncode, res["detected"], res["replayed_on_real_code"], ", ".join(res["obligations"][:3])))
