#!/bin/bash
# setup_cmd: nothing is pre-generated (every check rebuilds from /repo's working tree);
# this only verifies that the tools the checks need are present.
set -e
for t in cbmc goto-cc goto-instrument g++ python3; do command -v $t >/dev/null || { echo "missing tool: $t"; exit 1; }; done
cbmc --version | grep -q '^6\.' || echo "warning: cbmc version is $(cbmc --version), contracts were developed with 6.11.0"
mkdir -p /verif/build /verif/evidence /verif/replay
echo "setup ok: cbmc $(cbmc --version)"
