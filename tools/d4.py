"""The multiplication table of the symmetry group of the square, from 2x2 integer matrices (C18 oracle).
Screen coordinates, y downward.  Nothing here comes from constraints.cpp."""
M = {
    "TF_CW": ((0, -1), (1, 0)),     # (x,y) -> (-y, x)
    "TF_ACW": ((0, 1), (-1, 0)),    # (x,y) -> ( y,-x)
    "TF_180": ((-1, 0), (0, -1)),
    "TF_FV": ((-1, 0), (0, 1)),     # flip over the vertical axis
    "TF_FH": ((1, 0), (0, -1)),     # flip over the horizontal axis
    "TF_MD": ((0, 1), (1, 0)),      # flip over the main diagonal (x <-> y)
    "TF_OD": ((0, -1), (-1, 0)),    # flip over the off diagonal
    "TF_ID": ((1, 0), (0, 1)),
}


def mul(b, a):
    return tuple(tuple(sum(b[i][k] * a[k][j] for k in range(2)) for j in range(2)) for i in range(2))


def table():
    """[(a, b, c)]: applying a then b equals c, for all non-identity a, b."""
    inv = {v: k for k, v in M.items()}
    out = []
    for a in M:
        for b in M:
            if a == "TF_ID" or b == "TF_ID":
                continue
            out.append((a, b, inv[mul(M[b], M[a])]))
    return out


def c_checks():
    lines = []
    for a, b, c in table():
        lines.append("    { struct SepPair p = sp0, q = sp0; apply(&p, %s); apply(&p, %s); apply(&q, %s);\n"
                     "      __CPROVER_assert(SAME_SP(p, q), \"LEMMA group law: %s then %s equals %s\"); }" % (a, b, c, a[3:], b[3:], c[3:]))
    return "\n".join(lines)


if __name__ == "__main__":
    for t in table():
        print(t)
