#!/bin/bash
# Runs every registered quick check on the current tree (refreshes evidence/*.json before a commit). Not a registered command.
cd "$(dirname "$0")/.." || exit 2
rc=0
for id in $(python3 -c "import json; print(' '.join(c['property_id'] for c in json.load(open('MANIFEST.json'))['checks']))"); do
  ./check $id ${1:-quick} | tail -1 | cut -c1-220; r=${PIPESTATUS[0]}; [ $r -eq 0 ] || { echo "  -> $id exit $r"; rc=1; }
done
exit $rc
