"""Independent oracle for C05: the true minimum number of 90-degree bends of an orthogonal path in
the obstacle-free plane that starts at `curr` having arrived there travelling in direction
currDir and ends at `dest` travelling in direction destDir.

Search: Dijkstra over (cell, heading, moved-since-last-turn) on a 13x13 grid.  A quarter turn costs
1 and is only allowed after at least one step since the previous turn (so a 180-degree reversal in
place is impossible); the walker arrives at curr on a segment (moved = 1), so it may turn at curr;
it may also turn on dest itself (a turn at either end point counts).  Free-space minimum <= minimum
with obstacles, so `estimate <= MINB` is exactly admissibility of the bend estimate.

Nothing here is derived from makepath.cpp: the directions use libavoid's bit values
(N=1,E=2,S=4,W=8; y grows downward) only to index the table.
"""
import heapq

DIRS = {1: (0, -1), 2: (1, 0), 4: (0, 1), 8: (-1, 0)}
LEFT = {1: 8, 8: 4, 4: 2, 2: 1}
RIGHT = {v: k for k, v in LEFT.items()}
N = 13


def min_bends(curr, curr_dir, dest, dest_dir):
    start = (curr[0], curr[1], curr_dir, 1)
    dist = {start: 0}
    pq = [(0, start)]
    best = None
    while pq:
        d, s = heapq.heappop(pq)
        if d > dist.get(s, 1 << 30):
            continue
        x, y, h, moved = s
        if (x, y) == dest and h == dest_dir:
            return d
        nxt = []
        dx, dy = DIRS[h]
        if 0 <= x + dx < N and 0 <= y + dy < N:
            nxt.append((d, (x + dx, y + dy, h, 1)))
        if moved:
            nxt.append((d + 1, (x, y, LEFT[h], 0)))
            nxt.append((d + 1, (x, y, RIGHT[h], 0)))
        for nd, ns in nxt:
            if nd < dist.get(ns, 1 << 30):
                dist[ns] = nd
                heapq.heappush(pq, (nd, ns))
    raise RuntimeError("unreachable")


def table():
    """MINB[destDirIdx][currDirIdx][sgn(dy)+1][sgn(dx)+1], idx: N=0,E=1,S=2,W=3; (dx,dy) = dest - curr,
    (0,0) excluded (entry -1)."""
    idx = {1: 0, 2: 1, 4: 2, 8: 3}
    t = [[[[-1] * 3 for _ in range(3)] for _ in range(4)] for _ in range(4)]
    dest = (6, 6)
    for dd in DIRS:
        for cd in DIRS:
            for sy in (-1, 0, 1):
                for sx in (-1, 0, 1):
                    if sx == 0 and sy == 0:
                        continue
                    curr = (6 - 3 * sx, 6 - 3 * sy)
                    b1 = min_bends(curr, cd, dest, dd)
                    # sanity: independent of the magnitude of the offset
                    b2 = min_bends((6 - 2 * sx, 6 - 2 * sy), cd, dest, dd)
                    assert b1 == b2, (dd, cd, sx, sy, b1, b2)
                    t[idx[dd]][idx[cd]][sy + 1][sx + 1] = b1
    return t


def c_table():
    t = table()
    rows = []
    for a in t:
        rows.append("{" + ",".join("{" + ",".join("{" + ",".join(str(v) for v in r) + "}" for r in b) + "}" for b in a) + "}")
    return "static const int MINB[4][4][3][3] = {\n  " + ",\n  ".join(rows) + "\n};\n"


if __name__ == "__main__":
    print(c_table())
