#!/usr/bin/env python3
"""Self-test (not a registered command): every scenario-based native replay must say 'not reproduced' on the unchanged tree,
otherwise it could confirm a violation it has nothing to do with."""
import importlib.util, os, sys
HERE = os.path.dirname(os.path.dirname(os.path.abspath(__file__)))
sys.path.insert(0, os.path.join(HERE, "tools"))
import vf
ok = True
only = sys.argv[1:]
for pid, fn in (("C05", "replay_simplify"), ("C01", "replay_scan"), ("C01", "replay_flag"), ("C01", "replay_scan_avoid"), ("C01", "replay_flag_avoid"), ("C09", "replay_c09"), ("C10", "replay_c10"), ("C15", "replay_ai"), ("C16", "replay_c16"),
                ("C17", "replay_c17"), ("C18", "replay_c18"), ("C20", "replay_removeoverlaps"), ("C20", "replay_frames"),
                ("C20", "replay_layout"), ("C05", "replay_estcost"), ("C07", "replay_c07"), ("C08", "replay_c08"), ("C05", "replay_fixvis"), ("C15", "replay_destroy"), ("C15", "replay_release"), ("C15", "replay_heap")):
    if only and pid not in only:
        continue
    spec = importlib.util.spec_from_file_location("jobs_" + pid, os.path.join(HERE, "contracts", pid, "jobs.py"))
    m = importlib.util.module_from_spec(spec); spec.loader.exec_module(m)
    rep, out = getattr(m, fn)(None, None, {}, os.path.join(vf.BUILD, "selftest_replay_" + pid))
    print("%s %-22s reproduced=%s  %s" % (pid, fn, rep, out.strip().split("\n")[-1][:120]))
    ok = ok and not rep and "not reproduced" in out
sys.exit(0 if ok else 1)
