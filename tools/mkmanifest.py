#!/usr/bin/env python3
"""Regenerates /verif/MANIFEST.json from the table below (run after adding/removing a claim)."""
import json, os
HERE = os.path.dirname(os.path.dirname(os.path.abspath(__file__)))

BASE_TB = ("Trusted: cbmc/goto-cc/goto-instrument 6.11.0 + SAT back end; the stub vector/valarray/pair models; verbatim slicing "
           "(extraction drops libstdc++ container/stream bodies, exception unwinding [flag-and-return], the prefix of tail fragments, "
           "everything outside the sliced functions); hand-written preludes (field layout cross-checked against the real headers on every run). ")

CLAIMS = {
    "C05": dict(
        cat="proof",
        text="Contract on the real Avoid::bends (helpers inlined), discharged by CBMC for all non-NaN doubles and all 16 direction pairs: "
             "estimate <= true free-space minimum number of bends from an independent search oracle (admissibility clause of C05). "
             "The bend count charged by estimatedCostSpecific is proved admissible against bends' contract (call-site preconditions checked); Polygon::simplify drops a route point "
             "iff exactly collinear (tolerance 0 demanded at the call site), so bends survive into the display route; estimatedCost never exceeds the estimate through any arrival candidate "
             "(loop contract; costs as machine integers); bounded: end points on the first/last scan position get the outer-edge visibility fix. Optimality of the search is undecided residue.",
        note=BASE_TB + "tools/minb.py search oracle. Residue NOT claimed: visibility graph contains an optimal path, pruning, axis-parallel segments, grid-oracle agreement.",
        tech="CBMC code contracts (goto-instrument --dfcc --enforce-contract) on verbatim C++ slices",
        ref="5/C05"),
}

CLAIMS["C16"] = dict(
    cat="proof",
    text="Contracts on the real libavoid predicates. Leaf layer (complete over the stated finite domain): vecDir, colinear, pointOnLine, inBetween equal the exact "
         "integer orientation / on-segment oracle bit-precisely for integer coordinates in a small grid. Caller layer (all doubles): segmentIntersect and "
         "segmentShapeIntersect equal their textbook definitions over an uninterpreted orientation; Point::operator==/!=; symmetry lemmas over the contracts; libvpsc's LineSegment::Intersect classifies as exact integer arithmetic does on a small grid.",
    note=BASE_TB + "Paper composition of leaf and caller layers (substitution of the exact orientation for the uninterpreted symbol). Grid side limited by solver time "
         "for FP multiplication. Returned intersection coordinates not claimed; segment end points of pointOnLine/inBetween unconstrained.",
    tech="CBMC code contracts on verbatim C++ slices; two-layer proof (bit-precise leaf on an integer grid + callers over an uninterpreted orientation)",
    ref="5/C16")
CLAIMS["C01"] = dict(
    cat="proof",
    text="Soundness-on-normal-return chain of the VPSC solvers under contract: Constraint::slack equals the separation's slack; the final scans of IncSolver::satisfy, "
         "Solver::satisfy, Solver::refine (tail fragments with loop contracts, any number of constraints) leave no constraint with slack < -1e-10 from EVERY state the "
         "unverified merge/split machinery could leave; solve()/IncSolver::solve() preserve this and copy positions last; addConstraint adds an inactive constraint only; "
         "one iteration of IncSolver::satisfy's merge/split loop flags a constraint only on evidence from its callees. Both copies of the solver (libvpsc and libavoid/vpsc.cpp) are covered. "
         "A bounded completeness fragment: a direct active inequality between two variables is found as the split point (no spurious 'no split point' exception). "
         "'Flagged iff infeasible' in general, finiteness and optimality are undecided residue.",
    note=BASE_TB + "Ghost-cell composition on paper; copyResult's all-n step is bounded (n<=4) plus an unbounded body fragment; the scan jobs state 'element i of the constraint vector is object i of a pool of distinct live constraints' through the stub vector's element hook "
         "(instantiated at each access; pointer checks on); slack formula proved in scaled-integer mode (machine arithmetic treated as mathematical).",
    tech="CBMC code contracts + loop contracts on tail fragments of the real solver functions; ghost index/ghost cell for the universally quantified scan postcondition",
    ref="5/C01")

CLAIMS["C20"] = dict(
    cat="proof",
    text="Value-determinism of the ordering kernels through which allocation addresses could reach results: CmpNodePos, compare_events, CompareConstraints, ANodeCmp are "
         "proved (all field values) to return a stated function of values and to evaluate no relational comparison of pointers to different objects (CBMC same-object check); "
         "PseudoRandom::getNext is a function of the seed only and ConstrainedFDLayout::offsetDir reads/writes no generator state outside its own layout object (frame condition); bounded: Node::firstPointAbove/firstPointBelow of libavoid's scan line are mirror twins (boundary cases included); bounded: dijkstra writes every entry of a distance row (no heap garbage reaches the layout); transposition symmetry of the A* turn-pruning block and translation invariance of bends (relational, two calls of the real code). "
         "Whole-run bit-identity, scene symmetries of whole routes and permutation invariance of VPSC are undecided residue.",
    note=BASE_TB + "CmpNodePos precondition 'distinct nodes have distinct variable ids' is by inspection of the callers. Address tie-breaks in CmpVertInf, CmpVisEdgeRotation's "
         "fallback and ActionInfo::operator< (ConnectionPinChange) are listed as not under obligation.",
    tech="CBMC code contracts on verbatim comparator slices; CBMC pointer-relation (same-object) check as the address-independence obligation; native two-run replay with heap perturbation",
    ref="5/C20")

CLAIMS["C15"] = dict(
    cat="proof",
    text="Safety-class obligations (bounds, pointer validity, overflow, internal COLA_ASSERTs, frames, initialisation) of the functions under contract only: ActionInfo's six "
         "constructors determine type/objPtr/firstMove from their arguments; IncSolver::mostViolated indexes in bounds and dereferences only live constraints for every list length, and takes out of the list exactly the constraint it returns; Blocks::cleanup (bounded); PairingHeap::combineSiblings keeps every index into its scratch array in bounds (bounded: one job per sibling count up to two beyond the array's initial size); and "
         "the safety obligations of the C05/C16/C01/C20 contract jobs; ConnRef's destructor purges the router's pending-action queue for the connector in every state; bounded: freeAssociatedObjects releases each compound constraint exactly once. Histories of API calls, lifetimes, leaks, termination are undecided residue (most of C15).",
    note=BASE_TB + "Only functions under contract, each under a call-site precondition. CBMC's treatment of uninitialised members as unconstrained values is the "
         "initialisation oracle. mostViolated states 'element i of the list is object i of a pool of live constraints' through the stub vector's element hook (pointer checks on).",
    tech="CBMC code contracts + built-in safety checks on verbatim slices; two-construction determinism harness for uninitialised members; native placement-new replay",
    ref="5/C15")

CLAIMS["C18"] = dict(
    cat="proof",
    text="Contracts on the real dialect::SepPair::transform/addSep/generateSeparationConstraint: the complete multiplication table of the symmetry group of the square "
         "(all doubles, gaps compared bitwise so -0.0 counts); commutation of transform with geometry record by record and the (a,b)/(b,a) negation equivalence of addSep, "
         "bit-precise over an exact integer-valued domain; addSep stores the stated separation -- a cardinal one together with the alignment in the other axis -- whatever the pair held before (all prior records, all doubles); SepMatrix::getSepPair sets the reverse-retrieval flag for existing and new pairs alike; generateSeparationConstraint emits the record's meaning for all doubles. TGLF round trip is undecided residue.",
    note=BASE_TB + "tools/d4.py group table; the record meaning sat1() stated in the contract file; exact-domain restriction is part of the commutation statement; "
         "operator new substituted by malloc + real constructor (dfcc limitation).",
    tech="CBMC harness proofs and code contracts on verbatim slices; oracle = group table from 2x2 matrices + record semantics; case split over transform/axis/type",
    ref="5/C18")

CLAIMS["C09"] = dict(
    cat="proof",
    text="Kernel clauses of C09 under contract: moveCentreX/Y, moveMinX/Y keep width/height and the other axis; overlapX/Y > 0 iff open extents intersect; every generated "
         "separation (the six sep expressions of generateX/YConstraints) separates its pair under any placement satisfying it; removeoverlaps restores the x/y border statics "
         "(projection fragment, two calls under different borders); generateX/YConstraints set every variable's desired position to its rectangle's current centre (loop shells "
         "for any number of rectangles + projected bodies); Solver::solve returns the state after refinement (C01's driver job, run here too); bounded: a pass of Solver::refine ends solved only after examining every block; bounded: removeoverlaps moves EVERY rectangle, fixed or not, to its variable's final position after the x and the y solve. 'No two rectangles overlap', acyclicity and the size of a fixed rectangle's movement are undecided residue.",
    note=BASE_TB + "Scaled-integer mode (machine arithmetic treated as mathematical) for the size/separation jobs; projection fragment with a syntactic premise checked every run; "
         "exception path of removeoverlaps not covered.",
    tech="CBMC harness proofs on verbatim slices of inline members and expression/projection fragments; scaled-integer arithmetic mode; native multi-call replay",
    ref="5/C09")

CLAIMS["C10"] = dict(
    cat="proof",
    text="Write-back kernel of nudging (NudgingShiftSegment::updatePositionsFromSolver, the only place nudging writes a route) under contract: a fixed segment writes "
         "nothing (empty frame, so first/last points stay put); the written position is the solver position clamped into [minSpaceLimit,maxSpaceLimit]; the loop body "
         "writes exactly one coordinate of one indexed point and keeps the route's size (unbounded, one arbitrary index); whole function bounded (<= 4 indexes); "
         "bounded (<= 4 segments): a nudging region is closed under overlapsWith; bounded (<= 2 earlier segments): a region's segment is constrained against every earlier segment it overlaps; bounded: a connector pair is recorded as sharing a path with a common end only on its own crossing evidence; bounded (<= 2+2 checkpoints): channel limits respect checkpoints and bend spans together; fixedOrder only ever sets its shared out-parameter. "
         "Which segments are fixed, ordering, channel computation, grouping and the resulting separation are undecided residue.",
    note=BASE_TB + "Assumed read-only contract for ConnRef::displayRoute(); Point::operator[]'s `?:` reference return rewritten to if/return (cbmc crash work-around); "
         "body+bounded-loop split for the write loop (DESIGN 2.9).",
    tech="CBMC code contracts on the verbatim in-class member and its fragments (loop body, head fragment); bounded whole-function stand-in; native replay on the real class",
    ref="5/C10")

CLAIMS["C17"] = dict(
    cat="other",
    text="BOUNDED stand-in only, not a proof: for every multigraph with at most 3 nodes and 3 edges (self-loops, parallel edges, integer or unit weights) the real "
         "floyd_warshall template equals an independent Bellman-Ford oracle, with zero diagonal, symmetry and the exact sentinel for unreachable pairs. dijkstra/johnsons "
         "(pairing heap) could not be brought within CBMC's reach and are not covered. Of the layout distance matrix only the two loop bodies of computePathLengths are under "
         "contract (unbounded for one index / pair: non-positive lengths become 1; reachable pairs scaled by idealLength and marked 2, unreachable keep the sentinel and 0), plus a bounded tail job: after the "
         "post-processing D is not written again; bounded (3 nodes): dijkstra's main loop writes every entry of its output row; dijkstra_init's loop body at T = double keeps every weight exactly.",
    note=BASE_TB + "Template instantiated at an integer type (machine arithmetic treated as mathematical); bound stated per job; evidence level 'other' with the bounded jobs "
         "listed and obligations/discharged left at zero.",
    tech="CBMC bounded model checking of the verbatim template slice (concrete loop bounds, unwinding complete) against a Bellman-Ford oracle; native exhaustive replay",
    ref="5/C17")

CLAIMS["C07"] = dict(
    cat="other",
    text="PARTIAL: only the per-constraint links of C07 are decided, by contract proofs; the end-to-end statement is not. (1) Translation: for each of the six kinds of user constraint "
         "(boundary, alignment, separation, multi-separation, distribution, fixed-relative) the VPSC constraint generated for one arbitrary sub-constraint IS that constraint "
         "(same two variables, gap bit for bit, equality where the kind demands it, creator back-pointer set), exactly one per sub-constraint, none skipped, only in the "
         "constraint's dimension, invalid indices reported; guide-line variables are appended with their index as id. (2) project() constructs the solver over the lists it was "
         "given, reads every coordinate back after solve(), each equal to that variable's finalPosition. (3) checkUnsatisfiable reports every flagged constraint as itself with "
         "its maker; the same two links on the majorization path (GradientProjection::runSolver case Off, destroyVPSC). (4) makeFeasible's scan after each tentative "
         "alternative: a flag on ANY constraint of the valid set is cleared and vetoes the alternative (any size, loop contract; plus a bounded job that survives rewrites); bounded whole-function job: every alignment pair of a distribution, whatever came before it, yields its equality. (5) SeparationConstraint's constructors composed with its translation: what the user "
         "constructs (operands, gap of either sign, relation) is what VPSC receives. With C01 (normal return => every unflagged constraint satisfied) these give: after ONE projection every generated user constraint holds or is reported. "
         "NOT decided: that run()/makeFeasible() END in such a projection (the descent step after project() in applyForcesAndConstraints, makeFeasible's rollback), the 1e-4 "
         "tolerance, rectangle sizes, NaN/inf freedom, ConstrainedMajorizationLayout, PageBoundary/OrthogonalEdge constraints, virtual dispatch from setupVarsAndConstraints.",
    note=BASE_TB + "Level 'other' because the property itself is not proved, only these links; loop bodies are proved for one arbitrary element and the loops for any length with the "
         "body behind a counting contract (shell jobs); operator new substituted by malloc + the real constructor; exception model flag-and-return.",
    tech="CBMC code contracts on verbatim slices of libcola/compound_constraints.cpp and colafd.cpp: whole function (separation), loop-body fragments + loop shells with loop "
         "contracts (other kinds, project, checkUnsatisfiable); native replay on the real classes",
    ref="5/C07")

CLAIMS["C08"] = dict(
    cat="other",
    text="PARTIAL: only two translation links of C08 are decided, by contract proofs; the statement itself (no overlap / containment in the result) is not. "
         "(1) ClusterContainmentConstraints::generateSeparationConstraints: each member entry yields, in its own dimension only, the inequality that keeps the member at least its "
         "offset inside the named cluster boundary variable, creator set, every entry visited (loop body + loop shell, any number of entries); the constructor records, for "
         "each child cluster, the four entries that hold its boundary variables inside the parent's; ShapePair::operator< (the key order of the exemption set) is the lexicographic order; a cluster bound to a node rectangle gets the four equalities tying its boundaries to that rectangle's sides. "
         "(2) NonOverlapConstraints::generateSeparationConstraints for one pair of plain shapes: a pair overlapping in the other axis by more than 0.0005 gets exactly one separation "
         "in this axis, the shape with the smaller centre first, gap = sum of the two half sizes; otherwise nothing. "
         "NOT decided: pairs involving clusters, the pair list / exemptions, the constructor's offsets, makeFeasible's four alternatives, the descent loop (C07 residue).",
    note=BASE_TB + "Level 'other' because the property itself is not proved; the pair job is a plain harness (goto-instrument --dfcc ran out of memory on it) over three "
         "variables/rectangles with symbolic contents, Rectangle::getCentreD/overlapD as uninterpreted functions of the rectangle's coordinates.",
    tech="CBMC code contracts (containment: loop-body fragment + loop shell with loop contract) and a plain CBMC harness (non-overlap pair body) on verbatim slices of "
         "libcola/cc_clustercontainmentconstraints.cpp and cc_nonoverlapconstraints.cpp; native replay on the real classes",
    ref="5/C08")

NA = {
    "C02": "Optimality of solve() is a KKT/convergence statement about an iterative active-set method over heap-allocated block trees in IEEE arithmetic; per-function facts need FP multiply/divide reasoning no installed back end finishes (DESIGN 3) and would not imply agreement with a QP oracle.",
    "C03": "'No route segment crosses an obstacle' is emergent from visibility-graph construction (std::list/std::set sweeps), A*, nudging and hyperedge improvement; only the leaf predicates are reachable and they are claimed under C16.",
    "C04": "Euclidean optimality needs completeness of the rotational sweep and soundness of region pruning for all paths - a global argument in real geometry that no per-function CBMC contract expresses without mirroring the code.",
    "C06": "A statement over histories of transactions compared with a fresh router; would need the whole router state as ghost state (std::list/set/map of heap objects), outside CBMC contracts' reach.",
    "C11": "The oracle for 'ends at the pin' is ShapeConnectionPin::position() itself; the property is about routing choosing and recording pins over histories of moves (std::set/list state).",
    "C12": "Tree-ness and terminal preservation are invariants of a pointer graph rewritten by recursive routines; needs inductive heap predicates CBMC contracts do not have.",
    "C13": "Topology preservation over solve() iterations is a whole-history geometric invariant on linked structures; its numeric kernel is a bilinear rational identity (multiply+divide), out of solver reach (DESIGN 3).",
    "C14": "End-to-end HOLA pipeline; every stage is one of the other not-applicable properties.",
    "C19": "Decompositions over std::map-of-shared_ptr graphs and a sweep-line planariser; no function within the front end's reach carries the partition property.",
}

PENDING = {}  # id -> reason (claims planned in DESIGN.md whose jobs are not built yet)


def main():
    checks = []
    for pid, c in sorted(CLAIMS.items()):
        checks.append({
            "property_id": pid,
            "quick_cmd": "./check %s quick" % pid,
            "thorough_cmd": "./check %s thorough" % pid,
            "evidence_file": "/verif/evidence/%s.json" % pid,
            "replay_cmd_template": "./check %s --replay {path}" % pid,
            "engine": "cbmc-contracts",
            "level_claimed": {"category": c["cat"], "text": c["text"], "design_ref": c["ref"]},
            "level_note": c["note"],
            "technique": c["tech"],
        })
    na = [{"property_id": k, "reason": v} for k, v in sorted({**NA, **PENDING}.items()) if k not in CLAIMS]
    m = {
        "version": 1,
        "setup_cmd": "bash tools/setup_check.sh",
        "hooks": {
            "guard": "ADAPTAGRAMS_VERIF",
            "enable": "no hooks: nothing in /repo is instrumented; the checks slice the working tree's source text on every run",
            "baseline_off_cmd": "cd /repo/cola && make -k -j8 check VERBOSE=1",
            "source_commits": [],
            "add_only": True,
        },
        "engines": [{
            "name": "cbmc-contracts", "path": "/verif/check",
            "serves_properties": sorted(CLAIMS),
            "kind_free_text": "contract-based deductive verification: CBMC 6.11 code contracts (requires/ensures/assigns/loop invariants) enforced per function "
                              "with goto-instrument --dfcc on verbatim slices of /repo's C++ sources; native replay of counterexamples",
        }],
        "checks": checks,
        "not_applicable": na,
        "notes": "exit codes: 0 all obligations discharged; 1 VIOLATION (a named obligation failed; replayed natively where a generator exists); "
                 "2 undecided (tool limit, timeout, extraction/layout mismatch) - never reported as a violation. See DESIGN.md.",
    }
    with open(os.path.join(HERE, "MANIFEST.json"), "w") as f:
        json.dump(m, f, indent=1)
    print("MANIFEST.json: %d checks, %d not_applicable" % (len(checks), len(na)))


if __name__ == "__main__":
    main()
