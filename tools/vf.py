#!/usr/bin/env python3
"""vf -- core of the contract-verification machinery (see DESIGN.md sections 2 and 4).

Pieces:
  * slicer      : cuts the verbatim text of functions / fragments out of /repo's
                  current working tree (exactly-N-matches or Undecided)
  * subst       : must-fire token substitutions with expected hit counts
  * Job / run   : goto-cc (C++ TU) -> goto-cc (C contract TU) -> goto-instrument
                  --dfcc --enforce-contract ... -> cbmc --json-ui ; every tool call
                  under timeout + ulimit -v
  * accounting  : classifies every CBMC property as contract / safety /
                  instrumentation, checks expected obligation names, canary
  * evidence    : writes evidence/<id>.json per EVIDENCE.schema.json

Verdict protocol: Undecided (tool trouble, extraction mismatch, timeout) => exit 2;
a CBMC FAILURE on a named obligation => candidate violation => replay => exit 1.
"""
import concurrent.futures
import hashlib
import json
import os
import re
import shutil
import subprocess
import sys
import time

VERIF = os.path.dirname(os.path.dirname(os.path.abspath(__file__)))
REPO = os.environ.get("VERIF_REPO", "/repo")
COLA = os.path.join(REPO, "cola")
STUBS = os.path.join(VERIF, "stubs")
BUILD = os.path.join(VERIF, "build")          # scratch, git-ignored, rebuilt every run
MEM_KB = 12 * 1024 * 1024                      # ulimit -v per tool process


class Undecided(Exception):
    """Raised when the machinery cannot decide (never a violation)."""


# --------------------------------------------------------------------------
# text utilities
# --------------------------------------------------------------------------

def read_repo(rel):
    p = os.path.join(COLA, rel)
    try:
        with open(p, encoding="utf-8", errors="replace") as f:
            return f.read()
    except OSError as e:
        raise Undecided("cannot read %s: %s" % (p, e))


def sha(text):
    return hashlib.sha256(text.encode()).hexdigest()


def _scan_code(text, start, on_char):
    """Walk text from start, skipping comments, string and char literals.
    Calls on_char(i, c) for every code character; stops when it returns True.
    Returns the index where it stopped, or -1."""
    i, n = start, len(text)
    while i < n:
        c = text[i]
        if c == '/' and i + 1 < n and text[i + 1] == '/':
            j = text.find('\n', i)
            i = n if j < 0 else j
            continue
        if c == '/' and i + 1 < n and text[i + 1] == '*':
            j = text.find('*/', i + 2)
            i = n if j < 0 else j + 2
            continue
        if c == '"' or c == "'":
            q = c
            i += 1
            while i < n and text[i] != q:
                if text[i] == '\\':
                    i += 1
                i += 1
            i += 1
            continue
        if on_char(i, c):
            return i
        i += 1
    return -1


def match_close(text, open_idx):
    """Index of the bracket matching text[open_idx] ('{' or '(')."""
    o = text[open_idx]
    cl = {'{': '}', '(': ')', '[': ']'}[o]
    depth = [0]

    def f(i, c):
        if c == o:
            depth[0] += 1
        elif c == cl:
            depth[0] -= 1
            if depth[0] == 0:
                return True
        return False
    j = _scan_code(text, open_idx, f)
    if j < 0:
        raise Undecided("unbalanced %s at offset %d" % (o, open_idx))
    return j


def strip_comments(text):
    out = []
    last = [0]
    # simple: reuse scanner to collect code chars
    buf = []

    def f(i, c):
        buf.append((i, c))
        return False
    _scan_code(text, 0, f)
    # rebuild keeping newlines for line structure
    res = [' '] * len(text)
    for i, c in buf:
        res[i] = c
    for i, c in enumerate(text):
        if c == '\n':
            res[i] = '\n'
    # keep string literals (scanner skipped them): copy them back verbatim
    # (needed so that code with strings still compiles)
    i, n = 0, len(text)
    while i < n:
        c = text[i]
        if c == '/' and i + 1 < n and text[i + 1] == '/':
            j = text.find('\n', i)
            i = n if j < 0 else j
            continue
        if c == '/' and i + 1 < n and text[i + 1] == '*':
            j = text.find('*/', i + 2)
            i = n if j < 0 else j + 2
            continue
        if c == '"' or c == "'":
            q = c
            s = i
            i += 1
            while i < n and text[i] != q:
                if text[i] == '\\':
                    i += 1
                i += 1
            i += 1
            for k in range(s, min(i, n)):
                res[k] = text[k]
            continue
        i += 1
    return ''.join(res)


# --------------------------------------------------------------------------
# slicer
# --------------------------------------------------------------------------

class Slice:
    def __init__(self, name, rel, text, line, kind="function"):
        self.name, self.rel, self.text, self.line, self.kind = name, rel, text, line, kind
        self.sha = sha(text)
        self.subst_log = []

    def info(self):
        return {"name": self.name, "file": "cola/" + self.rel, "line": self.line,
                "kind": self.kind, "sha256": self.sha, "bytes": len(self.text),
                "substitutions": self.subst_log}


def slice_func(rel, sig_re, name=None, expect=1, which=0):
    """Verbatim text of the function definition whose signature matches sig_re
    (a regex applied with re.M; it must match from the start of the declaration
    up to somewhere before the body's '{').  Exactly `expect` definitions must
    match, else Undecided.  Declarations (ending in ';' before any '{') are skipped."""
    text = read_repo(rel)
    hits = []
    for m in re.finditer(sig_re, text, re.M):
        # find first '{' or ';' in code after the match start, outside parens
        depth = [m.group(0).count('(') - m.group(0).count(')')]
        found = [None]

        def f(i, c):
            if c == '(':
                depth[0] += 1
            elif c == ')':
                depth[0] -= 1
            elif depth[0] == 0 and c in '{;':
                found[0] = c
                return True
            return False
        j = _scan_code(text, m.end(), f)
        if j < 0 or found[0] == ';':
            continue
        k = match_close(text, j)
        hits.append((m.start(), k + 1))
    if len(hits) != expect:
        raise Undecided("slice_func(%s, %r): expected %d definition(s), found %d -- the code was "
                        "restructured; re-anchor the contract" % (rel, sig_re, expect, len(hits)))
    s, e = hits[which]
    line = text.count('\n', 0, s) + 1
    return Slice(name or sig_re, rel, text[s:e], line)


def slice_lines(rel, line_re, expect, name=None):
    """All source lines matching line_re (exactly `expect` of them), joined."""
    text = read_repo(rel)
    ls = [(i + 1, l) for i, l in enumerate(text.split('\n')) if re.search(line_re, l)]
    if len(ls) != expect:
        raise Undecided("slice_lines(%s, %r): expected %d line(s), found %d" % (rel, line_re, expect, len(ls)))
    return Slice(name or line_re, rel, '\n'.join(l for _, l in ls), ls[0][0], kind="lines")


def slice_block(rel, start_re, name=None, expect=1, which=0, open_ch='{'):
    """Text from a regex match through the matching close of the first `open_ch` after it
    (class/struct/enum definitions, initialiser tables).  A trailing ';' is included."""
    text = read_repo(rel)
    ms = list(re.finditer(start_re, text, re.M))
    if len(ms) != expect:
        raise Undecided("slice_block(%s, %r): expected %d match(es), found %d" % (rel, start_re, expect, len(ms)))
    m = ms[which]
    j = _scan_code(text, m.end() - 1 if text[m.end() - 1] == open_ch else m.end(), lambda i, c: c == open_ch)
    if j < 0:
        raise Undecided("slice_block(%s, %r): no %s" % (rel, start_re, open_ch))
    k = match_close(text, j)
    e = k + 1
    mm = re.match(r'\s*;', text[e:])
    if mm:
        e += mm.end()
    return Slice(name or start_re, rel, text[m.start():e], text.count('\n', 0, m.start()) + 1, kind="block")


def slice_region(rel, start_re, end_re, name=None):
    """Verbatim text from the unique line matching start_re through the first later line matching end_re."""
    text = read_repo(rel)
    ms = list(re.finditer(start_re, text, re.M))
    if len(ms) != 1:
        raise Undecided("slice_region(%s, %r): expected 1 start, found %d" % (rel, start_re, len(ms)))
    me = re.compile(end_re, re.M).search(text, ms[0].start())
    if not me:
        raise Undecided("slice_region(%s): end %r not found" % (rel, end_re))
    return Slice(name or start_re, rel, text[ms[0].start():me.end()], text.count('\n', 0, ms[0].start()) + 1, kind="region")


def body_of(func_text):
    """(header, body-without-outer-braces) of a function slice."""
    depth = [0]
    def f(i, c):
        if c == '(':
            depth[0] += 1
        elif c == ')':
            depth[0] -= 1
        elif depth[0] == 0 and c == '{':
            return True
        return False
    j = _scan_code(func_text, 0, f)
    k = match_close(func_text, j)
    return func_text[:j], func_text[j + 1:k]


def fragment_tail(sl, anchor_re, name=None):
    """Tail fragment: text from the unique statement matching anchor_re to the end of
    the function body.  The dropped prefix must contain no return/goto (checked on
    comment-stripped text), so every normal return of the real function runs the tail."""
    header, body = body_of(sl.text)
    ms = list(re.finditer(anchor_re, body))
    if len(ms) != 1:
        raise Undecided("fragment_tail(%s, %r): expected 1 anchor, found %d" % (sl.name, anchor_re, len(ms)))
    prefix = strip_comments(body[:ms[0].start()])
    if re.search(r'\b(return|goto)\b', prefix):
        raise Undecided("fragment_tail(%s): the dropped prefix now contains return/goto -- re-anchor" % sl.name)
    # the anchor must sit at brace depth 0 of the body
    d = [0]
    def f(i, c):
        if c == '{': d[0] += 1
        elif c == '}': d[0] -= 1
        return False
    _scan_code(body[:ms[0].start()], 0, f)
    if d[0] != 0:
        raise Undecided("fragment_tail(%s): anchor is nested inside a block" % sl.name)
    t = body[ms[0].start():]
    s = Slice(name or sl.name + ":tail", sl.rel, t, sl.line + sl.text[:sl.text.find(t)].count('\n'), kind="tail-fragment")
    return s


def fragment_between(sl, start_re, end_re, name=None, allow_continue=False, allow_return=False):
    """Head/middle fragment: the text from the unique match of start_re up to (not including) the unique match of
    end_re; both anchors must lie in the same block (the fragment is brace-balanced) and it must not return."""
    header, body = body_of(sl.text)
    ms, me = list(re.finditer(start_re, body)), list(re.finditer(end_re, body))
    if len(ms) != 1 or len(me) != 1 or me[0].start() <= ms[0].start():
        raise Undecided("fragment_between(%s): expected one start and one later end anchor, found %d/%d" % (sl.name, len(ms), len(me)))
    t = body[ms[0].start():me[0].start()]
    d = [0]
    def f(i, c):
        if c == '{': d[0] += 1
        elif c == '}': d[0] -= 1
        return False
    _scan_code(body[:ms[0].start()], 0, f)
    d0 = d[0]
    _scan_code(t, 0, f)
    if d[0] != d0:
        raise Undecided("fragment_between(%s): the two anchors are not in the same block (fragment is not brace-balanced)" % sl.name)
    # allow_return: for a HEAD fragment of a void function placed in a void function of its own, an early `return` in the fragment is the
    # real function returning early; the fragment's postcondition is then checked on that state (nothing after it runs)
    if re.search(r'\bgoto\b' if allow_return else r'\b(return|goto)\b', strip_comments(t)):
        raise Undecided("fragment_between(%s): the fragment contains return/goto" % sl.name)
    return Slice(name or sl.name + ":middle", sl.rel, t, sl.line, kind="middle-fragment")


def fragment_loop(sl, for_re, name=None):
    """(header_text, body_text) of the unique `for`/`while` statement whose header matches for_re."""
    ms = list(re.finditer(for_re, sl.text))
    if len(ms) != 1:
        raise Undecided("fragment_loop(%s, %r): expected 1 loop, found %d" % (sl.name, for_re, len(ms)))
    m = ms[0]
    # find '(' of the header
    p = sl.text.find('(', m.start())
    q = match_close(sl.text, p)
    j = _scan_code(sl.text, q + 1, lambda i, c: not c.isspace())
    if j < 0 or sl.text[j] != '{':
        raise Undecided("fragment_loop(%s): loop body is not a braced block" % sl.name)
    k = match_close(sl.text, j)
    hdr = sl.text[m.start():q + 1]
    body = sl.text[j:k + 1]
    s = Slice(name or sl.name + ":loopbody", sl.rel, body, sl.line + sl.text[:j].count('\n'), kind="loop-body-fragment")
    return hdr, s


def _split_items(text):
    """Split the text of a block body into items: ('simple', text) statements ending in ';' at depth 0, or
    ('compound', header, body_text) for `header { body }` (if/else/for/while/try/catch/do/bare blocks)."""
    items, i, n, start = [], 0, len(text), 0
    depth_par = 0
    while i < n:
        c = text[i]
        if c == '/' and i + 1 < n and text[i + 1] == '/':
            j = text.find('\n', i); i = n if j < 0 else j; continue
        if c == '/' and i + 1 < n and text[i + 1] == '*':
            j = text.find('*/', i + 2); i = n if j < 0 else j + 2; continue
        if c in '"\'':
            q = c; i += 1
            while i < n and text[i] != q:
                if text[i] == '\\': i += 1
                i += 1
            i += 1; continue
        if c == '#' and text[:i].rstrip(' \t').endswith('\n') or (c == '#' and i == 0):
            j = text.find('\n', i); j = n if j < 0 else j
            if text[start:i].strip():
                items.append(('simple', text[start:i]))
            items.append(('pp', text[i:j])); i = j; start = j; continue
        if c == '(':
            depth_par += 1
        elif c == ')':
            depth_par -= 1
        elif c == ';' and depth_par == 0:
            items.append(('simple', text[start:i + 1])); start = i + 1
        elif c == '{' and depth_par == 0:
            k = match_close(text, i)
            items.append(('compound', text[start:i], text[i + 1:k])); i = k; start = k + 1
        i += 1
    if text[start:].strip():
        items.append(('simple', text[start:]))
    return items


def vf_split_items(block_sl):
    """Top-level items (simple statements, `header { body }` compounds, preprocessor lines) of a braced block slice."""
    t = block_sl.text.strip()
    inner = t[1:match_close(t, 0)] if t.startswith("{") else t
    return _split_items(inner)


def items_between(block_sl, after_re, before_re, name=None, allow_loop_break=False):
    """The statements of a braced block that lie strictly between the unique item whose text matches after_re and the unique later
    item whose text matches before_re (items as split by _split_items: simple statements and `header { body }` compounds).  Anchoring
    on the NEIGHBOURS keeps the extraction alive when the statements in between are rewritten."""
    t = block_sl.text.strip()
    inner = t[1:match_close(t, 0)] if t.startswith("{") else t
    items = _split_items(inner)
    def txt(it):
        return it[1] + ("{" + it[2] + "}" if it[0] == 'compound' else "")
    ia = [k for k, it in enumerate(items) if re.search(after_re, strip_comments(txt(it)).strip())]
    # before_re=None: up to the end of the block
    ib = [len(items)] if before_re is None else [k for k, it in enumerate(items) if re.search(before_re, strip_comments(txt(it)).strip())]
    if len(ia) != 1 or len(ib) != 1 or ib[0] <= ia[0]:
        raise Undecided("items_between(%s): expected one item matching %r followed by one matching %r, found %d/%d" % (block_sl.name, after_re, before_re, len(ia), len(ib)))
    frag = "".join(("\n" + txt(it) + "\n") if it[0] == 'pp' else txt(it) for it in items[ia[0] + 1:ib[0]])
    # break/continue are harmless inside the fragment's own loop statements (they cannot leave the fragment); anywhere else they would
    sel = items[ia[0] + 1:ib[0]]
    def is_loop(it):
        return it[0] == 'compound' and re.match(r'\s*(for|while)\b', strip_comments(it[1]).strip())
    for it in sel:
        bad_re = r'\b(return|goto)\b' if (allow_loop_break and is_loop(it)) else r'\b(return|goto|break|continue)\b'
        if it[0] != 'pp' and re.search(bad_re, strip_comments(txt(it))):
            raise Undecided("items_between(%s): the fragment contains return/goto/break/continue" % block_sl.name)
    s = Slice(name or block_sl.name + ":between", block_sl.rel, frag, block_sl.line, kind="middle-fragment")
    s.n_items = ib[0] - ia[0] - 1
    return s


def project_statements(sl, keep_re, name=None):
    """Projection fragment: the function with every simple statement that does NOT match keep_re removed; a compound
    statement survives iff something inside it survives (its header is kept verbatim).  What is dropped: all other
    statements.  Sound for facts about variables that only the kept statements can write."""
    header, body = body_of(sl.text)
    kept = [0]

    def proj(text):
        out = []
        for it in _split_items(text):
            if it[0] == 'simple':
                if re.search(keep_re, strip_comments(it[1])):
                    out.append(it[1].strip('\n')); kept[0] += 1
            elif it[0] == 'pp':
                continue
            else:
                inner = proj(it[2])
                if inner.strip():
                    out.append(it[1].strip('\n') + " {\n" + inner + "\n}")
        return "\n".join(out)
    t = header + "{\n" + proj(body) + "\n}\n"
    s = Slice(name or sl.name + ":projection", sl.rel, t, sl.line, kind="projection-fragment")
    s.kept_statements = kept[0]
    return s


def fragment_condition(block_sl, which=0, name=None):
    """Expression fragment: the parenthesised condition of the `which`-th compound statement (if/while) directly inside
    the given block slice (a braced block, e.g. a loop body).  Structural, so the condition's text may change freely."""
    t = block_sl.text.strip()
    if not t.startswith('{'):
        raise Undecided("fragment_condition(%s): not a braced block" % block_sl.name)
    inner = t[1:match_close(t, 0)]
    comps = [it for it in _split_items(inner) if it[0] == 'compound' and re.match(r'\s*(if|while)\b', strip_comments(it[1]).strip())]
    if which >= len(comps):
        raise Undecided("fragment_condition(%s): no compound statement #%d with a condition" % (block_sl.name, which))
    hdr = comps[which][1]
    p = hdr.find('(')
    q = match_close(hdr, p)
    return Slice(name or block_sl.name + ":condition", block_sl.rel, hdr[p + 1:q], block_sl.line, kind="expression-fragment")


def scalar_local_decls(func_sl, before_re):
    """Closure of a loop-body / expression fragment under the scalar locals declared (at the top level of the function body)
    before the unique match of before_re: `const` ones are carried verbatim with their initialiser; non-const ones may have
    been changed by earlier iterations, so they are declared WITHOUT initialiser (an unconstrained value in CBMC)."""
    header, body = body_of(func_sl.text)
    ms = list(re.finditer(before_re, body))
    if len(ms) != 1:
        raise Undecided("scalar_local_decls(%s): anchor matched %d times" % (func_sl.name, len(ms)))
    out = []
    for it in _split_items(body[:ms[0].start()]):
        if it[0] == 'simple':
            t = strip_comments(it[1]).strip()
            m = re.match(r'^(static\s+)?(const\s+)?((?:unsigned\s+)?(?:double|float|int|long|short|char|size_t|bool|unsigned))\s+(\w+)\s*=[^;]*;$', t, re.S)
            if m:
                out.append(t if m.group(2) else "%s %s;   /* arbitrary: may have been changed by earlier iterations */" % (m.group(3), m.group(4)))
    return out


def body_continue_to_return(sl, ret="return;"):
    """For a loop-body fragment turned into a function of one iteration: every `continue;` that belongs to THIS loop (i.e. not
    inside a nested for/while/do) becomes `return;`.  Any number of hits (logged in the slice); `break;` at that level is refused."""
    def rec(text):
        out, n = [], 0
        for it in _split_items(text):
            if it[0] == 'compound':
                hdr = strip_comments(it[1]).strip()
                if re.match(r'^(for|while|do)\b', hdr) or re.search(r'\b(for|while)\s*\($', hdr):
                    out.append(it[1] + "{" + it[2] + "}")
                else:
                    inner, k = rec(it[2]); n += k
                    out.append(it[1] + "{" + inner + "}")
            elif it[0] == 'simple':
                code = strip_comments(it[1])
                if re.search(r'\bbreak\s*;', code):
                    raise Undecided("loop-body fragment %s contains a break at loop level: not expressible as a one-iteration function" % sl.name)
                t2, k = re.subn(r'\bcontinue\s*;', ret, it[1]); n += k
                out.append(t2)
            else:
                out.append("\n" + it[1] + "\n")      # preprocessor line: keep it on a line of its own
        return "".join(out), n
    t = sl.text.strip()
    inner, n = rec(t[1:match_close(t, 0)])
    sl.subst_log.append({"pattern": "continue; (at this loop's level)", "replacement": ret, "hits": n})
    return "{" + inner + "}"


def subst(sl, rules):
    """Apply must-fire substitutions: rules = [(regex, replacement, expected_count)].
    A different hit count => Undecided.  Returns the new text; logs into the slice."""
    t = sl.text
    for pat, rep, cnt in rules:
        t2, n = re.subn(pat, rep, t)
        if n != cnt:
            raise Undecided("substitution %r in slice %s fired %d time(s), expected %d -- "
                            "annotation out of date" % (pat, sl.name, n, cnt))
        sl.subst_log.append({"pattern": pat, "replacement": rep, "hits": n})
        t = t2
    return t


# --------------------------------------------------------------------------
# running tools
# --------------------------------------------------------------------------

def _trim(out):
    """Drop CBMC's raw backtrace lines from tool output."""
    return '\n'.join(l for l in out.split('\n') if not re.match(r'^(goto-cc|goto-instrument|cbmc|/lib/)\S*\(?\+?0x|^/lib/x86_64', l))


def sh(cmd, cwd, timeout, log=None, stdout_path=None):
    """Run argv under timeout and ulimit -v.  Returns (rc, stdout+stderr text, seconds)."""
    t0 = time.time()
    wrapped = ["bash", "-c", "ulimit -v %d; exec \"$@\"" % MEM_KB, "x"] + cmd
    try:
        if stdout_path:
            with open(stdout_path, "wb") as so:
                p = subprocess.run(wrapped, cwd=cwd, stdout=so, stderr=subprocess.PIPE, timeout=timeout)
            out = p.stderr.decode(errors="replace")
        else:
            p = subprocess.run(wrapped, cwd=cwd, stdout=subprocess.PIPE, stderr=subprocess.STDOUT, timeout=timeout)
            out = p.stdout.decode(errors="replace")
        rc = p.returncode
    except subprocess.TimeoutExpired as e:
        rc, out = 124, "TIMEOUT after %ss: %s" % (timeout, ' '.join(cmd))
    dt = time.time() - t0
    out = _trim(out)
    if log:
        with open(log, "a") as f:
            f.write("$ %s\n[rc=%s, %.1fs]\n%s\n" % (' '.join(cmd), rc, dt, out[-20000:]))
    return rc, out, dt


CHECK_FLAGS = ["--bounds-check", "--pointer-check", "--pointer-overflow-check", "--div-by-zero-check",
               "--signed-overflow-check", "--conversion-check", "--undefined-shift-check",
               "--pointer-primitive-check"]


class Job:
    """One CBMC job.

    name      unique name within the property
    cls       'U' unbounded proof, 'D' proof over a stated finite/exact domain, 'B' bounded stand-in
    cxx       text of the C++ TU (prelude + verbatim slices + generated wrappers)   [or None]
    spec      text of the C TU (contracts, spec functions, ghost state, harness)
    entry     harness function; enforce: wrapper whose contract is enforced (or None: plain harness)
    replace   wrappers replaced by their contracts
    loops     loop-contract JSON (dict) or None
    flags     extra cbmc flags; no_pointer_check drops the pointer checks (DESIGN 2.9)
    expect    regexes that must each match at least one obligation name (guards silent loss)
    slices    Slice objects that make up the verified text (for evidence)
    domain    human-readable statement of the input domain
    replay    callable(job, failure_dict, workdir) -> (reproduced, text) or None
    """

    def __init__(self, name, cls, spec, entry, cxx=None, enforce=None, replace=(), loops=None, flags=(),
                 expect=(), slices=(), domain="", timeout=300, no_pointer_check=False, defines=(),
                 bound=None, replay=None, functions=(), backend="sat:minisat(default)", unwind=None,
                 cxx_defines=(), note="", canary=True, property_id=None, extra_checks=True,
                 nondet_static=False, cover_timeout=None, count="all", stub_variant=None, closure_file=None):
        self.__dict__.update(locals())
        del self.__dict__["self"]


def classify(name, desc):
    n = name
    if re.search(r'no_alloc_dealloc_in_|no_recursive_call|single_top_level_call|__CPROVER_contracts_|'
                 r'^__CPROVER_|\.recursion$', n) or "contracts_library" in desc:
        return "instrumentation"
    if re.search(r'\.(postcondition|precondition|precondition_instance|loop_invariant_base|loop_invariant_step|'
                 r'loop_decreases|loop_assigns|loop_step_unwinding|assigns)\.\d+$', n):
        return "contract"
    if re.search(r'\.unwind\.\d+$', n):
        return "unwind"
    if re.search(r'\.assertion\.\d+$', n):
        if desc.startswith("SPEC") or desc.startswith("LEMMA"):
            return "contract"
        return "safety"
    return "safety"


def run_job(job, workdir):
    """Build and run one job.  Returns a dict with obligations and statuses.  Raises Undecided."""
    os.makedirs(workdir, exist_ok=True)
    log = os.path.join(workdir, "log.txt")
    open(log, "w").close()
    res = {"job": job.name, "class": job.cls, "domain": job.domain, "backend": job.backend,
           "bound": job.bound, "note": job.note}
    t_all = time.time()
    objs = []
    if job.cxx is not None:
        with open(os.path.join(workdir, "slices.cpp"), "w") as f:
            f.write(job.cxx)
        cmd = ["goto-cc", "-nostdinc"] + (["-I", os.path.join(STUBS, job.stub_variant)] if job.stub_variant else []) + ["-I", STUBS, "-DVERIF_CBMC"] + ["-D" + d for d in job.cxx_defines] + \
              ["-c", "slices.cpp", "-o", "slices.gb"]
        rc, out, _ = sh(cmd, workdir, 300, log)
        # callee closure: the sliced text may have come to call a file-local helper that is not part of the job's slices (a change under test
        # introduced it).  Where the TU carries the marker /*@CLOSURE@*/ and the job names the source file, the helper's definition is cut
        # verbatim from that file and inserted at the marker; at most four helpers, each logged with the job's slices.
        tries = 0
        while rc != 0 and job.closure_file and "/*@CLOSURE@*/" in job.cxx and tries < 4:
            m = re.search(r"(?:symbol '(\w+)' is unknown|found no match for symbol '(\w+)'|function '(\w+)' is not declared|'(\w+)' was not declared)", out)
            name = next((g for g in (m.groups() if m else ()) if g), None)
            if not name:
                break
            try:
                helper = slice_func(job.closure_file, r'^(?:static\s+|inline\s+)*[\w:<>\*&]+(?:\s+[\w:<>\*&]+)*\s+\**&?' + re.escape(name) + r'\s*\(', "%s [file-local helper pulled in by closure]" % name)
            except Undecided:
                break
            job.cxx = job.cxx.replace("/*@CLOSURE@*/", helper.text + "\n/*@CLOSURE@*/", 1)
            job.slices = list(job.slices) + [helper]
            with open(os.path.join(workdir, "slices.cpp"), "w") as f:
                f.write(job.cxx)
            rc, out, _ = sh(cmd, workdir, 300, log)
            tries += 1
        if rc != 0:
            raise Undecided("job %s: C++ slice TU does not compile under goto-cc (rc=%d): %s" %
                            (job.name, rc, out[-1500:]))
        objs.append("slices.gb")
    with open(os.path.join(workdir, "spec.c"), "w") as f:
        f.write(job.spec)
    cmd = ["goto-cc", "--function", job.entry, "-DVERIF_CBMC"] + ["-D" + d for d in job.defines] + \
          ["spec.c"] + objs + ["-o", "linked.gb"]
    rc, out, _ = sh(cmd, workdir, 300, log)
    if rc != 0:
        raise Undecided("job %s: contract TU does not compile/link (rc=%d): %s" % (job.name, rc, out[-1500:]))
    binf = "linked.gb"
    if job.enforce or job.replace or job.loops:
        cmd = ["goto-instrument", "--dfcc", job.entry]
        if job.enforce:
            cmd += ["--enforce-contract", job.enforce]
        for r in job.replace:
            cmd += ["--replace-call-with-contract", r]
        if job.loops is not None:
            with open(os.path.join(workdir, "loops.json"), "w") as f:
                json.dump(job.loops, f, indent=1)
            cmd += ["--loop-contracts-file", "loops.json", "--apply-loop-contracts"]
        if job.nondet_static:
            cmd += ["--nondet-static"]
        cmd += ["linked.gb", "instr.gb"]
        rc, out, _ = sh(cmd, workdir, 600, log)
        if rc != 0:
            raise Undecided("job %s: goto-instrument failed (rc=%d): %s" % (job.name, rc, out[-1500:]))
        binf = "instr.gb"
    flags = list(CHECK_FLAGS) if job.extra_checks else ["--bounds-check", "--pointer-check", "--div-by-zero-check"]
    if job.no_pointer_check:
        flags = [f for f in flags if f not in ("--pointer-check", "--pointer-primitive-check", "--pointer-overflow-check")]
        flags.append("--no-pointer-check")
    if job.unwind is not None:
        flags += ["--unwind", str(job.unwind), "--unwinding-assertions"]
    flags += list(job.flags)
    cmd = ["cbmc", binf, "--json-ui", "--trace"] + flags
    res["checker_cmd"] = ' '.join(cmd)
    outp = os.path.join(workdir, "cbmc.json")
    rc, err, dt = sh(cmd, workdir, job.timeout, log, stdout_path=outp)
    res["solver_s"] = round(dt, 2)
    if rc == 124:
        raise Undecided("job %s: cbmc timed out after %ss" % (job.name, job.timeout))
    try:
        with open(outp) as f:
            data = json.load(f)
    except Exception as e:
        raise Undecided("job %s: cbmc output unreadable (rc=%d): %s %s" % (job.name, rc, e, err[-500:]))
    obligations = []
    msgs = []
    for e in data:
        if "messageText" in e:
            msgs.append(e["messageText"])
        if "result" in e:
            for r in e["result"]:
                obligations.append({"name": r["property"], "status": r["status"],
                                    "desc": r.get("description", ""),
                                    "class": classify(r["property"], r.get("description", "")),
                                    "loc": "%s:%s" % (r.get("sourceLocation", {}).get("file", "?"),
                                                      r.get("sourceLocation", {}).get("line", "?")),
                                    "trace": r.get("trace")})
    alltxt = '\n'.join(msgs)
    if re.search(r'ignoring (forall|exists)', alltxt):
        raise Undecided("job %s: back end ignored a quantifier" % job.name)
    if not obligations:
        raise Undecided("job %s: cbmc produced no obligations (rc=%d): %s" % (job.name, rc, (alltxt + err)[-1500:]))
    # CBMC leaves obligations UNKNOWN when others in the same run fail; a FAILURE is a definite verdict and is reported,
    # UNKNOWN ones are then neither discharged nor failed.  Without any failure an UNKNOWN status is "undecided".
    real_fail = [o for o in obligations if o["status"] == "FAILURE" and not o["desc"].startswith("CANARY") and o["class"] != "instrumentation"]
    for o in obligations:
        if o["status"] not in ("SUCCESS", "FAILURE") and not real_fail:
            raise Undecided("job %s: obligation %s has status %s" % (job.name, o["name"], o["status"]))
    names = [o["name"] for o in obligations]
    for pat in job.expect:
        if not any(re.search(pat, n) for n in names):
            raise Undecided("job %s: expected obligation /%s/ was not generated (contract silently dropped?)"
                            % (job.name, pat))
    res["obligations"] = obligations
    # vacuity: every harness ends in VERIF_CANARY == __CPROVER_assert(0, "CANARY ...") placed after the
    # call; it must FAIL (i.e. be reachable under the requires clauses), otherwise the proof is vacuous.
    if job.canary:
        canary = [o for o in obligations if o["desc"].startswith("CANARY")]
        if not canary:
            raise Undecided("job %s: no canary assertion found (harness must end in VERIF_CANARY)" % job.name)
        bad = [o for o in canary if o["status"] != "FAILURE"]
        if bad and not real_fail:
            raise Undecided("job %s: VACUOUS -- canary after the call is unreachable: contradictory "
                            "requires/assumptions (%s)" % (job.name, bad[0]["name"]))
        res["canary"] = "%d/%d reachable" % (len(canary), len(canary))
        res["obligations"] = obligations = [o for o in obligations if not o["desc"].startswith("CANARY")]
    res["wall_s"] = round(time.time() - t_all, 2)
    return res


# --------------------------------------------------------------------------
# trace -> inputs
# --------------------------------------------------------------------------

def trace_inputs(trace, enforce):
    """Extract the inputs of the enforced function from a CBMC json trace.
    Returns {"params": {name: value}, "objects": {dynobj: {field: value}}, "fresh": {param_expr: dynobj},
             "globals": {name: value}} with values as CBMC prints them (and 'binary' for floats)."""
    params, objects, fresh, store, order = {}, {}, {}, {}, []
    cur_elem = None
    in_body = False
    for s in trace or []:
        st = s.get("stepType")
        if st == "function-call":
            fn = s["function"].get("displayName", "")
            if fn.startswith("__CPROVER_contracts_is_fresh"):
                cur_elem = "?"
            continue
        if st != "assignment":
            continue
        lhs = s.get("lhs", "")
        v = s.get("value", {})
        val = v.get("data")
        if v.get("name") == "float" and "binary" in v:
            val = {"float": v.get("data"), "binary": v["binary"]}
        fn = s.get("sourceLocation", {}).get("function", "")
        if lhs == "elem" and v.get("name") == "pointer":
            cur_elem = re.sub(r'_wrapper!\d+@\d+$', '', str(val))
            continue
        if lhs.startswith("dynamic_object"):
            base = lhs.split('.')[0].split('[')[0]
            objects.setdefault(base, {})[lhs[len(base):]] = val
            if cur_elem and cur_elem != "?" and cur_elem not in fresh:
                fresh[cur_elem] = base
            if base not in order:
                order.append(base)
            continue
        if s.get("assignmentType") == "actual-parameter" and val is not None:
            if lhs.endswith("_wrapper") and fn and not fn.startswith("__CPROVER"):
                params[lhs[:-8]] = val
        store[lhs] = val
    return {"params": params, "objects": objects, "fresh": fresh, "fresh_order": order, "store": store}


def float_from(v):
    """Python float from a trace value produced by trace_inputs."""
    import struct
    if isinstance(v, dict):
        b = v["binary"]
        if len(b) == 64:
            return struct.unpack(">d", int(b, 2).to_bytes(8, "big"))[0]
        return struct.unpack(">f", int(b, 2).to_bytes(4, "big"))[0]
    return float(str(v).rstrip("fFlL"))


def cxx_double(x):
    """C++ expression reproducing the double bit-for-bit (VD is defined by native_run's preamble)."""
    import struct
    if isinstance(x, dict):
        bits = int(x["binary"], 2)
    else:
        bits = struct.unpack(">Q", struct.pack(">d", float(x)))[0]
    return "VD(0x%016xULL)" % bits


NATIVE_PREAMBLE = ("#include <cstring>\nstatic inline double VD(unsigned long long b)"
                   "{ double d; std::memcpy(&d, &b, 8); return d; }\n")


def int_from(v):
    s = str(v)
    m = re.match(r'^\s*(-?\d+)', s)
    if not m:
        m = re.search(r'/\*\s*(-?\d+)', s)
    if not m:
        if s in ("TRUE", "true", "True"):
            return 1
        if s in ("FALSE", "false", "False"):
            return 0
        raise ValueError("not an integer: %r" % v)
    return int(m.group(1))


# --------------------------------------------------------------------------
# native compile helper for replays
# --------------------------------------------------------------------------

def native_run(src_text, workdir, name, extra=(), libs=(), timeout=120, cxx="g++", std="-std=c++11"):
    os.makedirs(workdir, exist_ok=True)
    src = os.path.join(workdir, name + ".cpp")
    with open(src, "w") as f:
        f.write(NATIVE_PREAMBLE + src_text)
    exe = os.path.join(workdir, name)
    cmd = [cxx, std, "-O0", "-g", "-I", COLA] + list(extra) + [src] + list(libs) + ["-o", exe]
    rc, out, _ = sh(cmd, workdir, 300)
    if rc != 0:
        return None, "native replay driver failed to compile:\n" + out[-3000:]
    rc, out, _ = sh([exe], workdir, timeout)
    return rc, out


def build_lib(lib, workdir, exclude=(), extra=()):
    """Compile cola/<lib>/*.cpp from the CURRENT working tree into a static archive (replays only).
    Returns the archive path or raises Undecided."""
    import glob
    odir = os.path.join(workdir, "obj_" + lib)
    os.makedirs(odir, exist_ok=True)
    srcs = [f for f in sorted(glob.glob(os.path.join(COLA, lib, "*.cpp"))) if os.path.basename(f) not in exclude]
    def cc(src):
        o = os.path.join(odir, os.path.basename(src)[:-4] + ".o")
        rc, out, _ = sh(["g++", "-std=c++11", "-O0", "-g", "-w", "-fPIC", "-I", COLA] + list(extra) + ["-c", src, "-o", o], odir, 600)
        return rc, out, o
    with concurrent.futures.ThreadPoolExecutor(max_workers=16) as ex:
        rs = list(ex.map(cc, srcs))
    bad = [r for r in rs if r[0] != 0]
    if bad:
        raise Undecided("replay: cannot compile %s from the working tree: %s" % (lib, bad[0][1][-1500:]))
    ar = os.path.join(workdir, "lib%s_replay.a" % lib)
    if os.path.exists(ar):
        os.remove(ar)
    rc, out, _ = sh(["ar", "rcs", ar] + [r[2] for r in rs], odir, 120)
    if rc != 0:
        raise Undecided("replay: ar failed: " + out)
    return ar


# --------------------------------------------------------------------------
# property driver
# --------------------------------------------------------------------------

def load_known():
    known, fixed = [], []
    p = os.path.join(VERIF, "known_findings.txt")
    if os.path.exists(p):
        for l in open(p):
            l = l.strip()
            if not l or l.startswith("#"):
                continue
            if l.startswith("fixed:"):
                fixed.append(l)
            elif l.startswith("known:"):
                m = re.match(r'known:\s+property=(\S+)\s+obligation=(\S+)\s+(.*)$', l)
                if m:
                    known.append({"property": m.group(1), "obligation": m.group(2), "what": m.group(3)})
    return known, fixed


def run_property(pid, tier, jobs, level, trusted_base, assumptions, explanation, functions_note=""):
    """Run all jobs of a property in parallel, write evidence, print verdict lines, return exit code."""
    t0 = time.time()
    seed = int(os.environ.get("VERIF_SEED", "0") or 0)
    # scratch directory: unique per run (quick and thorough runs of one property may overlap); VERIF_KEEP=1 keeps it at build/<id>
    keep = os.environ.get("VERIF_KEEP") == "1"
    pdir = os.path.join(BUILD, pid) if keep else os.path.join(BUILD, "%s.%s.%d" % (pid, tier, os.getpid()))
    shutil.rmtree(pdir, ignore_errors=True)
    os.makedirs(pdir, exist_ok=True)
    os.makedirs(os.path.join(VERIF, "evidence"), exist_ok=True)
    os.makedirs(os.path.join(VERIF, "replay"), exist_ok=True)
    import glob as _glob
    for old in _glob.glob(os.path.join(VERIF, "replay", pid + "_*.json")):
        os.remove(old)
    results, undecided = [], []
    only = os.environ.get("VERIF_ONLY")   # development aid: run the jobs whose name matches; never set by the registered commands
    if only:
        jobs = [j for j in jobs if re.search(only, j.name)]
        print("DEV RUN: job filter %r -> %d job(s); evidence of this run is partial" % (only, len(jobs)))
    nworkers = int(os.environ.get("VERIF_JOBS", "16"))
    with concurrent.futures.ThreadPoolExecutor(max_workers=nworkers) as ex:
        futs = {ex.submit(run_job, j, os.path.join(pdir, j.name)): j for j in jobs}
        for fu in concurrent.futures.as_completed(futs):
            j = futs[fu]
            try:
                r = fu.result()
                r["_job"] = j
                results.append(r)
            except Undecided as e:
                undecided.append((j, str(e)))
            except Exception as e:  # tool crash etc.
                undecided.append((j, "internal error: %r" % e))
    results.sort(key=lambda r: r["job"])
    known, fixed = load_known()
    violations, known_hits = [], []
    n_obl = n_dis = 0
    bounded = []
    per_job = []
    samples = []
    instr_n = 0
    for r in results:
        j = r["_job"]
        # count="safety": a job borrowed from another property; only its safety-class obligations belong to this one
        classes = ("safety",) if j.count == "safety" else ("contract", "safety")
        counted = [o for o in r["obligations"] if o["class"] in classes]
        instr_n += sum(1 for o in r["obligations"] if o["class"] == "instrumentation")
        fails = [o for o in r["obligations"] if o["status"] == "FAILURE" and o["class"] in classes + ("unwind",)]
        ifails = [o for o in r["obligations"] if o["status"] == "FAILURE" and o["class"] == "instrumentation"]
        if ifails and not fails:
            undecided.append((j, "instrumentation self-check failed: %s (%s)" % (ifails[0]["name"], ifails[0]["desc"])))
        unwind_fail = [o for o in fails if o["class"] == "unwind"]
        if unwind_fail:
            undecided.append((j, "unwinding assertion failed (bound %s too small): %s" % (j.unwind, unwind_fail[0]["name"])))
            fails = [o for o in fails if o["class"] != "unwind"]
        if j.cls in ("U", "D"):
            n_obl += len(counted)
            n_dis += sum(1 for o in counted if o["status"] == "SUCCESS")
        else:
            bounded.append({"job": j.name, "bound": j.bound, "obligations": len(counted),
                            "passed": sum(1 for o in counted if o["status"] == "SUCCESS"),
                            "unwinding_assertions": sum(1 for o in r["obligations"] if o["class"] == "unwind")})
        per_job.append({"job": j.name, "class": j.cls, "domain": j.domain, "bound": j.bound,
                        "backend": j.backend, "solver_s": r["solver_s"], "wall_s": r["wall_s"],
                        "contract_obligations": sum(1 for o in counted if o["class"] == "contract"),
                        "safety_obligations": sum(1 for o in counted if o["class"] == "safety"),
                        "failed": [o["name"] for o in fails], "canary": r.get("canary"),
                        "enforced": j.enforce, "replaced_by_contract": list(j.replace),
                        "loop_contracts": bool(j.loops), "no_pointer_check": j.no_pointer_check,
                        "checker_cmd": r["checker_cmd"], "note": j.note})
        cs = [o for o in counted if o["class"] == "contract"][:3]
        for o in cs:
            if len(samples) < 12:
                samples.append({"job": j.name, "obligation": o["name"], "status": o["status"], "desc": o["desc"][:160]})
        for o in fails:
            key = "%s:%s" % (j.name, o["name"])
            kn = [k for k in known if k["property"] == pid and re.fullmatch(k["obligation"], key)]
            if kn:
                known_hits.append((key, kn[0]["what"]))
                continue
            violations.append((j, o, r))
    # replay
    vlines = []
    replay_cache = {}   # one native replay per generator and run (jobs of one family share a scenario-based replay)
    for j, o, r in violations:
        rp = os.path.join(VERIF, "replay", "%s_%s_%s.json" % (pid, j.name, re.sub(r'[^A-Za-z0-9_.]', '_', o["name"])))
        inputs = trace_inputs(o.get("trace"), j.enforce)
        reproduced, text = False, "no replay generator for this job"
        if j.replay:
            key = (j.replay, None if getattr(j.replay, "shared", True) is True and not getattr(j.replay, "per_trace", False) else (j.name, o["name"]))
            if key in replay_cache:
                reproduced, text = replay_cache[key]
            else:
                try:
                    reproduced, text = j.replay(j, o, inputs, os.path.join(pdir, j.name, "replay"))
                except Exception as e:
                    reproduced, text = False, "replay generator raised %r" % e
                replay_cache[key] = (reproduced, text)
        with open(rp, "w") as f:
            json.dump({"property": pid, "job": j.name, "obligation": o["name"], "description": o["desc"],
                       "location": o["loc"], "class": o["class"], "verifier": "cbmc 6.11.0", "domain": j.domain,
                       "checker_cmd": r["checker_cmd"], "reproduced_on_real_code": reproduced,
                       "replay_output": text,
                       "counterexample_inputs": {k: inputs[k] for k in ("params", "objects", "fresh")},
                       "verifier_output": "[%s] %s: FAILURE (%s)" % (o["name"], o["desc"], o["loc"])}, f, indent=1)
        vlines.append("VIOLATION property=%s replay=%s obligation=%s:%s%s" %
                      (pid, rp, j.name, o["name"], "" if reproduced else " no-failing-input-found"))
    # one harness written out, so that a reader sees what a job looks like
    for r in results[:1]:
        j = r["_job"]
        m = re.search(r'^void %s\(void\)' % re.escape(j.entry), j.spec, re.M)
        if m:
            try:
                k = j.spec.index('{', m.end())
                samples.append({"job": j.name, "harness": j.spec[m.start():match_close(j.spec, k) + 1][:1500]})
            except Exception:
                pass
    # evidence
    funcs = {}
    for j in jobs:
        for s in j.slices:
            funcs[(s.rel, s.name)] = s.info()
    ev = {
        "property_id": pid, "tier": tier, "seed": seed, "level": level,
        "coverage": {
            "obligations": n_obl, "discharged": n_dis,
            "checker_cmd": "cd /verif && ./check %s %s   (per job: goto-cc -nostdinc -I stubs -c slices.cpp; goto-cc --function <h> spec.c slices.gb; "
                           "goto-instrument --dfcc <h> --enforce-contract <w> [--replace-call-with-contract <g>]* [--loop-contracts-file .. --apply-loop-contracts]; "
                           "cbmc --json-ui --trace <checks>)" % (pid, tier),
            "trusted_base": trusted_base,
            "explanation": explanation,
            "counting_rule": "obligations/discharged count CBMC properties of class contract (pre/post/assigns/loop_*/SPEC+LEMMA asserts) and safety "
                             "(bounds, pointer, overflow, COLA_ASSERT) of jobs of class U (unbounded) and D (complete over the stated exact domain) only; "
                             "bounded stand-ins (class B) are listed under 'bounded' and never counted; dfcc self-checks are listed as instrumentation_checks",
            "instrumentation_checks": instr_n,
            "jobs": per_job,
            "bounded": bounded,
            "functions_under_contract": sorted(funcs.values(), key=lambda d: (d["file"], d["line"])),
            "samples": samples,
            "undecided": [{"job": j.name, "reason": why[:600]} for j, why in undecided],
            "known_findings_hit": [k for k, _ in known_hits],
            "fixed_entries": [l for l in fixed if "property=%s " % pid in l],
        },
        "assumptions": assumptions,
        "wall_s": round(time.time() - t0, 2),
        "violations": len(violations),
    }
    if level != "proof":
        ev["coverage"]["evaluations"] = max(1, sum(b["obligations"] for b in bounded))
        ev["coverage"]["distinct_nontrivial"] = max(2, len(bounded))
    with open(os.path.join(VERIF, "evidence", "%s.json" % pid), "w") as f:
        json.dump(ev, f, indent=1)
    for k, what in known_hits:
        print("KNOWN-FINDING: property=%s %s %s" % (pid, k, what))
    for l in vlines:
        print(l)
    for j, why in undecided:
        print("UNDECIDED property=%s job=%s: %s" % (pid, j.name, why[:1500]), file=sys.stderr)
    print("%s %s: %d jobs, %d/%d obligations discharged (unbounded/exact-domain), %d bounded job(s), "
          "%d violation(s), %d undecided, %.1fs" % (pid, tier, len(jobs), n_dis, n_obl, len(bounded),
                                                    len(violations), len(undecided), time.time() - t0))
    if not keep and not violations and not undecided:
        shutil.rmtree(pdir, ignore_errors=True)      # disk space: scratch of a clean run is not kept
    if violations:
        return 1
    if undecided:
        return 2
    return 0
