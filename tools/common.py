"""Helpers shared by the contracts/<id>/jobs.py modules."""
import os
from vf import VERIF


def prelude(name):
    return open(os.path.join(VERIF, "prelude", name)).read()


def spec_header():
    return open(os.path.join(VERIF, "contracts/include/verif_spec.h")).read()


def rd(here, name):
    return open(os.path.join(here, name)).read()


def cxx_tu(preludes, namespace, slices_text, wrappers, pre_ns=""):
    """Assemble a C++ TU: base header, preludes, then the verbatim slices inside `namespace`, then wrappers."""
    t = "#include <verif_base.h>\n" + "\n".join(preludes) + "\n" + pre_ns
    if namespace:
        t += "namespace %s {\n%s\n}\n" % (namespace, slices_text)
    else:
        t += slices_text + "\n"
    return t + wrappers


def loop_contract(func_symbol, loop_id, invariants, assigns, decreases, locals_map, sources=("spec.c",)):
    """One entry of a --loop-contracts-file.  func_symbol is the full mangled symbol of the function (as shown by
    goto-instrument --show-loops); locals_map maps names used in the clauses to suffixes below that symbol."""
    import re as _re
    sm = ";".join("%s,%s::%s" % (k, func_symbol, v) for k, v in locals_map.items())
    ent = {"loop_id": str(loop_id), "invariants": invariants}
    if sm:
        ent["symbol_map"] = sm
    if assigns:          # None/"" => goto-instrument infers the loop's assigns clause (robust against new locals in the loop)
        ent["assigns"] = assigns
    if decreases:
        ent["decreases"] = decreases
    return {"regex": _re.escape(func_symbol), "entry": ent, "sources": list(sources)}


def loops_file(contracts):
    """Assemble the JSON for --loop-contracts-file from loop_contract() entries."""
    funcs = {}
    srcs = []
    for c in contracts:
        funcs.setdefault(c["regex"], []).append(c["entry"])
        for s in c["sources"]:
            if s not in srcs:
                srcs.append(s)
    return {"sources": srcs, "functions": [{k: v} for k, v in funcs.items()]}
