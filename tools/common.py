"""Helpers shared by the contracts/<id>/jobs.py modules."""
import os
from vf import VERIF


def prelude(name):
    return open(os.path.join(VERIF, "prelude", name)).read()


def spec_header():
    return open(os.path.join(VERIF, "contracts/include/verif_spec.h")).read()


def rd(here, name):
    return open(os.path.join(here, name)).read()


def cxx_tu(preludes, namespace, slices_text, wrappers, pre_ns=""):
    """Assemble a C++ TU: base header, preludes, then the verbatim slices inside `namespace`, then wrappers."""
    t = "#include <verif_base.h>\n" + "\n".join(preludes) + "\n" + pre_ns
    if namespace:
        t += "namespace %s {\n%s\n}\n" % (namespace, slices_text)
    else:
        t += slices_text + "\n"
    return t + wrappers
