"""Layout cross-check between the hand-written preludes and the real headers (DESIGN.md 2.3).

For every (type, field) a slice or contract touches, two native programs are built with g++:
one includes the REAL headers from /repo/cola, the other the prelude plus the stub standard
library; both print  type.field offset size kind  and sizeof(type) where requested.  Any
difference => Undecided (exit 2): the prelude no longer describes the code that runs.
"""
import os
from vf import Undecided, sh, COLA, STUBS, VERIF

KINDS = r'''
template <class T> struct VK { static const int v = __is_enum(T) ? 12 : (__is_class(T) ? 13 : 0); };
template <> struct VK<double> { static const int v = 1; };
template <> struct VK<float> { static const int v = 2; };
template <> struct VK<int> { static const int v = 3; };
template <> struct VK<unsigned int> { static const int v = 4; };
template <> struct VK<long> { static const int v = 5; };
template <> struct VK<unsigned long> { static const int v = 6; };
template <> struct VK<short> { static const int v = 7; };
template <> struct VK<unsigned short> { static const int v = 8; };
template <> struct VK<char> { static const int v = 9; };
template <> struct VK<bool> { static const int v = 10; };
template <class T> struct VK<T*> { static const int v = 11; };
template <class T> struct VK<T&> { static const int v = 14; };
template <class T> struct VK<const T> { static const int v = VK<T>::v; };
template <class C, class M> int vkind(M C::*) { return VK<M>::v; }
template <class C, class M> unsigned long vsize(M C::*) { return sizeof(M); }
extern "C" int printf(const char *, ...);
'''


def _body(fields, sizes):
    """A constant table {offset, size, kind}* , {sizeof}* ; evaluated by the compiler, read back from the assembly."""
    ents, names = [], []
    for ty, fl in fields:
        for f in fl:
            ents.append("(unsigned long)__builtin_offsetof(%s, %s), vsize(&%s::%s), (unsigned long)vkind(&%s::%s)" % (ty, f, ty, f, ty, f))
            names.append("%s.%s" % (ty, f))
    for ty in sizes:
        ents.append("(unsigned long)sizeof(%s)" % ty)
        names.append("sizeof(%s)" % ty)
    return ('extern "C" { extern const unsigned long verif_layout_table[]; const unsigned long verif_layout_table[] = {\n  ' +
            ",\n  ".join(ents) + "\n}; }\n"), names


def _table_from_asm(asm):
    import re
    m = re.search(r'^verif_layout_table:\n((?:\s+\.(?:quad|zero)\s+\S+\n)+)', asm, re.M)
    if not m:
        return None
    vals = []
    for l in m.group(1).strip().split('\n'):
        k, v = l.split()
        if k == ".quad":
            vals.append(int(v, 0))
        else:   # .zero N  == N/8 zero entries
            vals.extend([0] * (int(v, 0) // 8))
    return vals


def check_layout(tag, prelude_text, real_includes, fields, sizes=(), workdir=None, real_defines=()):
    """fields: [(qualified type, [field,...])]; sizes: types whose sizeof must agree.  Nothing is linked or run:
    both translation units are compiled to assembly and the constant table is read back."""
    workdir = workdir or os.path.join(VERIF, "build", "layout_%s_%d" % (tag, os.getpid()))   # per process: checks may run concurrently
    os.makedirs(workdir, exist_ok=True)
    body, names = _body(fields, sizes)
    kinds = KINDS.replace("template <class C, class M> int vkind", "template <class C, class M> constexpr int vkind") \
                 .replace("template <class C, class M> unsigned long vsize", "template <class C, class M> constexpr unsigned long vsize")
    real = ''.join('#include "%s"\n' % h for h in real_includes) + kinds + body
    prel = '#include <verif_base.h>\n' + prelude_text + kinds + body
    outs = []
    for name, text, cmd in (
            ("real", real, ["g++", "-std=c++11", "-w", "-fno-access-control", "-I", COLA] + ["-D" + d for d in real_defines]),
            ("prel", prel, ["g++", "-std=c++11", "-w", "-fno-access-control", "-nostdinc", "-I", STUBS])):
        src = os.path.join(workdir, name + ".cpp")
        with open(src, "w") as f:
            f.write(text)
        asm = os.path.join(workdir, name + ".s")
        rc, out, _ = sh(cmd + ["-S", "-O0", src, "-o", asm], workdir, 300)
        if rc != 0:
            raise Undecided("layout check %s: %s translation unit does not compile:\n%s" % (tag, name, out[-2500:]))
        vals = _table_from_asm(open(asm).read())
        if vals is None:
            raise Undecided("layout check %s: constant table not found in %s.s" % (tag, name))
        outs.append(vals)
    if outs[0] != outs[1]:
        nf = sum(len(fl) for _, fl in fields)
        diff = []
        for i in range(nf):
            a, b = outs[0][3 * i:3 * i + 3], outs[1][3 * i:3 * i + 3]
            if a != b:
                diff.append("%s: real off/size/kind=%s prelude=%s" % (names[i], a, b))
        for k in range(len(sizes)):
            a, b = outs[0][3 * nf + k], outs[1][3 * nf + k]
            if a != b:
                diff.append("%s: real %s prelude %s" % (names[nf + k], a, b))
        raise Undecided("layout check %s: prelude disagrees with the real headers: %s" % (tag, "; ".join(diff[:6])))
    return list(zip(names, [outs[0][3 * i:3 * i + 3] for i in range(sum(len(fl) for _, fl in fields))]))
