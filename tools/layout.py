"""Layout cross-check between the hand-written preludes and the real headers (DESIGN.md 2.3).

For every (type, field) a slice or contract touches, two native programs are built with g++:
one includes the REAL headers from /repo/cola, the other the prelude plus the stub standard
library; both print  type.field offset size kind  and sizeof(type) where requested.  Any
difference => Undecided (exit 2): the prelude no longer describes the code that runs.
"""
import os
from vf import Undecided, sh, COLA, STUBS, VERIF

KINDS = r'''
template <class T> struct VK { static const int v = __is_enum(T) ? 12 : (__is_class(T) ? 13 : 0); };
template <> struct VK<double> { static const int v = 1; };
template <> struct VK<float> { static const int v = 2; };
template <> struct VK<int> { static const int v = 3; };
template <> struct VK<unsigned int> { static const int v = 4; };
template <> struct VK<long> { static const int v = 5; };
template <> struct VK<unsigned long> { static const int v = 6; };
template <> struct VK<short> { static const int v = 7; };
template <> struct VK<unsigned short> { static const int v = 8; };
template <> struct VK<char> { static const int v = 9; };
template <> struct VK<bool> { static const int v = 10; };
template <class T> struct VK<T*> { static const int v = 11; };
template <class T> struct VK<T&> { static const int v = 14; };
template <class T> struct VK<const T> { static const int v = VK<T>::v; };
template <class C, class M> int vkind(M C::*) { return VK<M>::v; }
template <class C, class M> unsigned long vsize(M C::*) { return sizeof(M); }
extern "C" int printf(const char *, ...);
'''


def _body(fields, sizes):
    out = ["int main() {"]
    for ty, fl in fields:
        for f in fl:
            out.append('  printf("%s.%s off=%%lu size=%%lu kind=%%d\\n", (unsigned long)__builtin_offsetof(%s, %s), '
                       'vsize(&%s::%s), vkind(&%s::%s));' % (ty, f, ty, f, ty, f, ty, f))
    for ty in sizes:
        out.append('  printf("sizeof(%s)=%%lu\\n", (unsigned long)sizeof(%s));' % (ty, ty))
    out.append("  return 0; }")
    return '\n'.join(out)


def check_layout(tag, prelude_text, real_includes, fields, sizes=(), workdir=None, real_defines=()):
    """fields: [(qualified type, [field,...])]; sizes: types whose sizeof must agree.
    Reference-typed members cannot be offsetof'ed through a member pointer: list them with a
    leading '&' to compare offset only."""
    workdir = workdir or os.path.join(VERIF, "build", "layout_" + tag)
    os.makedirs(workdir, exist_ok=True)
    body = _body(fields, sizes)
    real = ''.join('#include "%s"\n' % h for h in real_includes) + KINDS + body
    prel = '#include <verif_base.h>\n' + prelude_text + KINDS + body
    outs = []
    for name, text, cmd in (
            ("real", real, ["g++", "-std=c++11", "-w", "-fno-access-control", "-I", COLA] + ["-D" + d for d in real_defines]),
            ("prel", prel, ["g++", "-std=c++11", "-w", "-fno-access-control", "-nostdinc", "-I", STUBS])):
        src = os.path.join(workdir, name + ".cpp")
        with open(src, "w") as f:
            f.write(text)
        # (the real program may include a whole .cpp to reach file-local structs; only main() runs)
        rc, out, _ = sh(cmd + [src, "-no-pie", "-Wl,--unresolved-symbols=ignore-all", "-o", os.path.join(workdir, name)], workdir, 300)
        if rc != 0:
            raise Undecided("layout check %s: %s program does not compile:\n%s" % (tag, name, out[-2500:]))
        rc, out, _ = sh([os.path.join(workdir, name)], workdir, 60)
        if rc != 0:
            raise Undecided("layout check %s: %s program failed" % (tag, name))
        outs.append(out.strip().split('\n'))
    if outs[0] != outs[1]:
        diff = [(a, b) for a, b in zip(outs[0], outs[1]) if a != b]
        raise Undecided("layout check %s: prelude disagrees with the real headers: %r" % (tag, diff[:6]))
    return outs[0]
